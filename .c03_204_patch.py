p='/verif/harness/src/engines/c03.rs'
s=open(p).read()
old='''                if raw.len() != p.consumed { problems.push(("framing/204/body-present".into(), String::new())) }
'''
new='''                if raw.len() != p.consumed { problems.push(("framing/204/body-present".into(), String::new())) }
                // "a well-formed HTTP/1.1 message": a 204 has no content, so no coding of it either (RFC 9112 6.1: a server MUST NOT
                // send Transfer-Encoding in a 204) - a client that honours the header waits for chunks that never come
                if !p.header_all("Transfer-Encoding").is_empty() { problems.push(("framing/204/transfer-encoding-present".into(), format!("{:?}", p.header_all("Transfer-Encoding")))) }
'''
assert old in s
open(p,'w').write(s.replace(old,new,1))
