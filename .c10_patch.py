p='/verif/harness/src/engines/c10.rs'
s=open(p).read()
old=s[s.index("            let all_files = p.iter().all(|q| q.is_file());"):s.index("fn fit(parts: &[&Part], t: &TargetDesc) -> Expect {")]
new='''            let all_files = p.iter().all(|q| q.is_file());
            let all_empty = p.iter().all(|q| q.is_empty_file_input());
            let filled: Vec<&&Part> = p.iter().filter(|q| !q.is_empty_file_input()).collect();
            let _ = adjacent;
            match kind {
                // "several files under one name kept in submission order", "an empty file input decodes to an absent/empty value":
                // the files of all inputs sharing the name, in submission order, adjacent or not, empty inputs contributing nothing
                // (the builder's first oracle admitted an error for non-adjacent parts and for an empty input next to a filled one;
                // the implementation then turned out to depend on the *order* of the two, which no reading admits)
                Kind::VF if all_files => vec![V(FieldExp::VF(filled.iter().map(|q| fe(q)).collect()))],
                // several inputs for a single-valued field: silent (an error, or the one file that was really submitted)
                Kind::OF if all_files && filled.len() <= 1 => vec![E, V(FieldExp::OF(filled.first().map(|q| fe(q))))],
                Kind::F if all_files && filled.len() == 1 => vec![E, V(FieldExp::F(fe(filled[0])))],
                Kind::OS if all_empty => vec![E, V(FieldExp::OS(None))],
                _ => vec![E],   // several values for a single-valued field, or texts mixed with files: does not fit
            }
        }
    }
}

'''
s=s.replace(old,new,1)
s=s.replace("let may = must || exp.unknown || exp.empty_form || exp.fields","let may = must || exp.unknown || exp.fields",1)
s=s.replace("let mut ambiguous = exp.unknown || exp.empty_form;","let mut ambiguous = exp.unknown;",1)
s=s.replace('''if exp.empty_form { " | Err (no part at all)" } else { "" }''','''if exp.empty_form { " (the form without fields)" } else { "" }''',1)
open(p,'w').write(s)
