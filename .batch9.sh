#!/bin/sh
cd /verif
ev() { echo "=== seeded $4"; python3 lib/eval_seeded.py "$@" 2>&1 | tail -10; }
ev /tmp/r_C01 C01 1 C01-empty-path-early-hit
ev /tmp/r_C01 C01 2 C01-param-nodes-compared-by-name
ev /tmp/r_C03 C03 1 C03-chunk-size-before-cr-normalisation C17
ev /tmp/r_C03 C03 2 C03-no-default-content-length C02
ev /tmp/r_C04 C04 1 C04-static-prefix-without-segment-boundary C01
ev /tmp/r_C04 C04 2 C04-search-returns-parent-at-leaf-mount
ev /tmp/r_C05 C05 1 C05-get-payload-not-consumed C06
ev /tmp/r_C05 C05 2 C05-close-read-after-handling
ev /tmp/r_C06 C06 1 C06-refusal-arm-merged C05
ev /tmp/r_C06 C06 2 C06-buffer-full-check-after-read C05
ev /tmp/r_C07 C07 1 C07-seq-decode-before-split-2 C09
ev /tmp/r_C07 C07 2 C07-signed-max-plus-one-wraps
ev /tmp/r_C10 C10 1 C10-de-morgan-empty-file
ev /tmp/r_C10 C10 2 C10-boundary-length-limit-70
ev /tmp/r_C14 C14 1 C14-compression-guard-parent-dropped C04
ev /tmp/r_C14 C14 2 C14-routes-extend-overwrites C15
ev /tmp/r_C15 C15 1 C15-params-read-back-from-path-limit-2
ev /tmp/r_C15 C15 2 C15-basicauth-array-loses-security-mapping
ev /tmp/r_C19 C19 1 C19-compressible-hoisted-out-of-loop C01
ev /tmp/r_C19 C19 2 C19-mime-eq-skips-first-byte
echo BATCH9-FINISHED
