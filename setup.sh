#!/bin/sh
# Build every harness binary once, offline, from /repo's current working tree (hooks on).
set -e
cd "$(dirname "$0")/harness"
export CARGO_NET_OFFLINE=true CARGO_TARGET_DIR="$(dirname "$0")/../.target"
CARGO_TARGET_DIR=/verif/.target cargo build --profile verif --offline --bins
