#!/bin/sh
# Build every harness binary once, offline, from /repo's current working tree (hooks on).
set -e
HERE="$(cd "$(dirname "$0")" && pwd)"
export CARGO_NET_OFFLINE=true
cd "$HERE/harness"
CARGO_TARGET_DIR="$HERE/.target" cargo build --profile verif --offline --bins
cd "$HERE/harness_loom"
CARGO_TARGET_DIR="$HERE/.target/loom" cargo build --release --offline
