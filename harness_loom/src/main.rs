//! C18 add-on: exhaustive interleaving exploration (loom, DPOR) of the *real source text* of
//! `ohkami::sync::WaitGroup` (extracted by build.rs from /repo's working tree), driven the way `howl`
//! drives it: the accept loop `add()`s one guard per connection and hands it to a session task that
//! drops it (`done()`) when the session has finished; after the loop `wg.await` must return exactly
//! when every session has finished.
//!
//!   loomwg <scenario> [--preemption-bound K]      prints `RESULT ok iterations=<n> ...` or panics
//!
//! Oracles, on every explored interleaving (and, through loom's C11 model, every admitted reordering):
//!   safety    when poll() answers Ready, every session's work is complete *and visible*: the session
//!             writes a loom UnsafeCell before releasing its guard and the waiter reads it after Ready,
//!             so a missing happens-before edge is reported by loom as a data race
//!   progress  after a Pending answer a wake-up arrives by the time every session has finished (from the waiter itself or from
//!             a releasing session - how is the implementation's business)
//!   liveness  the poll that this wake-up causes answers Ready
#![allow(unexpected_cfgs)]

#[macro_export]
macro_rules! DEBUG { ($($t:tt)*) => {}; }

include!(concat!(env!("OUT_DIR"), "/extract_info.rs"));

#[cfg(wg_extracted)]
#[allow(dead_code, unused_imports)]
mod subject {
    include!(concat!(env!("OUT_DIR"), "/waitgroup.rs"));
}

use std::sync::atomic::{AtomicUsize as StdAtomicUsize, Ordering as StdOrdering};
static ITERATIONS: StdAtomicUsize = StdAtomicUsize::new(0);
static READY_EARLY: StdAtomicUsize = StdAtomicUsize::new(0);   // Ready observed before the joins
static READY_LATE: StdAtomicUsize = StdAtomicUsize::new(0);    // Ready only at quiescence
static PENDING_POLLS: StdAtomicUsize = StdAtomicUsize::new(0);

#[cfg(wg_extracted)]
mod drive {
    use super::*;
    use loom::cell::UnsafeCell;
    use loom::sync::Arc;
    use std::future::Future;
    use std::pin::Pin;
    use std::task::{Context, Poll, Wake, Waker};

    struct CountWake(StdAtomicUsize);
    impl Wake for CountWake {
        fn wake(self: std::sync::Arc<Self>) { self.0.fetch_add(1, StdOrdering::SeqCst); }
        fn wake_by_ref(self: &std::sync::Arc<Self>) { self.0.fetch_add(1, StdOrdering::SeqCst); }
    }

    /// one execution of the scenario: `n` sessions, the waiter polls at most `max_polls` times while sessions run;
    /// `early` = number of sessions whose guard is released by the accept thread itself before the next `add`
    /// (a connection that is over before the next one arrives: add / drop alternate on one thread)
    /// `unwind` = number of session threads that end without reaching `done()`: their guard is dropped as an unwinding
    /// session task drops it (a handler panic, `expect("Failed to send response")` on a reset connection)
    pub fn scenario(n: usize, max_polls: usize, early: usize, unwind: usize) {
        ITERATIONS.fetch_add(1, StdOrdering::Relaxed);
        let wg = subject::WaitGroup::new();
        let cells: Vec<Arc<UnsafeCell<u32>>> = (0..n).map(|_| Arc::new(UnsafeCell::new(0))).collect();
        let mut handles = Vec::new();
        for i in 0..n {
            let guard = wg.add();
            let cell = cells[i].clone();
            if i < early {
                cell.with_mut(|p| unsafe { *p = 1 });
                guard.done();
            } else {
                let unwinds = i - early < unwind;
                handles.push(loom::thread::spawn(move || {
                    cell.with_mut(|p| unsafe { *p = 1 });   // the session's work
                    if unwinds { drop(guard) }               // the task unwinds: locals are dropped, `done()` is never reached
                    else { guard.done() }                    // session.manage() returned
                }));
            }
        }
        let counter = std::sync::Arc::new(CountWake(StdAtomicUsize::new(0)));
        let waker = Waker::from(counter.clone());
        let mut cx = Context::from_waker(&waker);
        let mut wg = wg;
        let check_cells = |cells: &Vec<Arc<UnsafeCell<u32>>>| {
            for (i, c) in cells.iter().enumerate() {
                let v = c.with(|p| unsafe { *p });
                assert!(v == 1, "ORACLE safety: WaitGroup answered Ready while session {i} had not finished");
            }
        };
        let mut ready = false;
        let mut wakes_when_last_poll_began = 0;
        for _ in 0..max_polls {
            wakes_when_last_poll_began = counter.0.load(StdOrdering::SeqCst);
            match Pin::new(&mut wg).poll(&mut cx) {
                Poll::Ready(()) => { ready = true; break }
                Poll::Pending => {
                    // (these polls are not wake-driven: an executor may poll spuriously; whether a Pending answer is *followed*
                    //  by a wake-up is judged below, once every session has finished)
                    PENDING_POLLS.fetch_add(1, StdOrdering::Relaxed);
                    loom::thread::yield_now();
                }
            }
        }
        if ready {
            READY_EARLY.fetch_add(1, StdOrdering::Relaxed);
            check_cells(&cells);
        }
        for h in handles { h.join().unwrap(); }
        if !ready {
            // an executor polls again only when a wake-up has arrived since the last poll began - whoever sends it, whenever:
            // the waiter waking itself on every Pending answer, or the last session waking a registered waker, both do
            let woke = counter.0.load(StdOrdering::SeqCst) > wakes_when_last_poll_began;
            assert!(woke, "ORACLE progress: WaitGroup answered Pending and no wake-up has arrived although every session has finished (lost wake-up)");
            match Pin::new(&mut wg).poll(&mut cx) {
                Poll::Ready(()) => { READY_LATE.fetch_add(1, StdOrdering::Relaxed); check_cells(&cells) }
                Poll::Pending => panic!("ORACLE liveness: every session has finished and WaitGroup still answers Pending"),
            }
        }
        drop(wg); // howl's own handle is consumed by `.await` and dropped there
    }
}

fn main() {
    let args: Vec<String> = std::env::args().collect();
    if args.len() < 2 { eprintln!("usage: loomwg <scenario> [--preemption-bound K]"); std::process::exit(3); }
    if args[1] == "--info" {
        println!("INFO status={EXTRACT_STATUS:?} lines={EXTRACT_LINES} atomic_paths={EXTRACT_ATOMIC_PATHS} source={SOURCE_PATH} howl_usage={HOWL_USAGE:?}");
        return;
    }
    #[cfg(not(wg_extracted))]
    { println!("RESULT skipped reason={EXTRACT_STATUS:?}"); return; }
    #[cfg(wg_extracted)]
    {
        // scenario name: wg-n<N>-p<polls>-e<early>[-u<sessions that unwind>]
        let mut n = 2; let mut polls = 2; let mut early = 0; let mut unwind = 0;
        for part in args[1].split('-').skip(1) {
            let (k, v) = part.split_at(1);
            let v: usize = v.parse().expect("scenario number");
            match k { "n" => n = v, "p" => polls = v, "e" => early = v, "u" => unwind = v, _ => panic!("unknown scenario part {part}") }
        }
        let mut b = loom::model::Builder::new();
        b.preemption_bound = None;
        b.max_branches = 100_000;
        let mut i = 2;
        while i < args.len() {
            if args[i] == "--preemption-bound" { b.preemption_bound = Some(args[i + 1].parse().unwrap()); i += 2 } else { i += 1 }
        }
        let bound = b.preemption_bound;
        let t = std::time::Instant::now();
        b.check(move || drive::scenario(n, polls, early, unwind));
        println!("RESULT ok scenario={} iterations={} ready_early={} ready_late={} pending_polls={} preemption_bound={:?} wall_ms={}",
                 args[1], ITERATIONS.load(StdOrdering::Relaxed), READY_EARLY.load(StdOrdering::Relaxed),
                 READY_LATE.load(StdOrdering::Relaxed), PENDING_POLLS.load(StdOrdering::Relaxed), bound, t.elapsed().as_millis());
    }
}
