//! Extracts the source text of `sync::WaitGroup` from /repo's *current working tree*
//! (ohkami/src/ohkami/mod.rs, `mod sync { pub struct WaitGroup .. }` up to `pub struct CtrlC`)
//! and re-targets its atomics at loom (`std::sync::atomic` -> `loom::sync::atomic`), nothing else.
//! The checked code is therefore the implementation's own text, not a hand-written model.
use std::{env, fs, path::PathBuf};

fn main() {
    let repo = env::var("OHKAMI_REPO").unwrap_or_else(|_| "/repo".into());
    let src_path = PathBuf::from(&repo).join("ohkami/src/ohkami/mod.rs");
    println!("cargo:rerun-if-changed={}", src_path.display());
    println!("cargo:rerun-if-env-changed=OHKAMI_REPO");
    println!("cargo:rerun-if-env-changed=OHKAMI_WG_SKIP");
    let out = PathBuf::from(env::var("OUT_DIR").unwrap());
    let text = fs::read_to_string(&src_path).expect("read ohkami/src/ohkami/mod.rs");

    let extracted = if env::var("OHKAMI_WG_SKIP").is_ok() { Err(format!("the extracted text does not compile against loom's types ({})", env::var("OHKAMI_WG_SKIP").unwrap_or_default())) } else { extract(&text) };
    let (body, status) = match extracted {
        Ok(b) => match unsupported(&b) { None => (b, "ok".to_string()), Some(what) => (String::new(), format!("uses `{what}`, which loom does not model: exploring it would not be sound")) },
        Err(e) => (String::new(), e),
    };
    // howl's use of the wait group, recorded for the evidence (the driver in src/main.rs mirrors it)
    let usage: Vec<String> = text.lines().filter(|l| {
        let t = l.trim();
        t.contains("wg.add()") || t.contains("wg.done()") || t.contains("wg.await") || t.contains("WaitGroup::new()")
    }).map(|l| l.trim().to_string()).collect();

    // every `std::sync` path (atomics, Arc, Mutex, Condvar, RwLock ...) is re-targeted: a primitive left on std would be
    // invisible to loom - no scheduling point and, worse, no happens-before edge, so loom would explore executions the real
    // code cannot have (stale reads "through" a mutex it does not see)
    let n_atomic = body.matches("std::sync::").count();
    let rewritten = body.replace("std::sync::", "loom::sync::");
    fs::write(out.join("waitgroup.rs"), &rewritten).unwrap();
    fs::write(out.join("extract_info.rs"), format!(
        "pub const EXTRACT_STATUS: &str = {:?};\npub const EXTRACT_LINES: usize = {};\npub const EXTRACT_ATOMIC_PATHS: usize = {};\npub const HOWL_USAGE: &[&str] = &{:?};\npub const SOURCE_PATH: &str = {:?};\n",
        status, body.lines().count(), n_atomic, usage, src_path.display().to_string())).unwrap();
    if status == "ok" { println!("cargo:rustc-cfg=wg_extracted"); }
    println!("cargo:rustc-check-cfg=cfg(wg_extracted)");
}

/// synchronisation or shared state that the textual re-targeting does not cover
fn unsupported(body: &str) -> Option<&'static str> {
    ["std::thread", "std::cell::", "UnsafeCell", "thread_local!", "static ", "tokio::", "parking_lot", "crossbeam", "futures", "AtomicWaker", "OnceLock", "LazyLock", "OnceCell", "__rt__::", "spawn("]
        .into_iter().find(|t| body.contains(t))
}

fn extract(text: &str) -> Result<String, String> {
    let start = text.find("pub struct WaitGroup(").ok_or("`pub struct WaitGroup(` not found")?;
    let rest = &text[start..];
    let end = rest.find("pub struct CtrlC").ok_or("`pub struct CtrlC` not found after WaitGroup")?;
    let body = &rest[..end];
    // sanity: balanced braces, the three impls present
    let (mut depth, mut min) = (0i64, 0i64);
    for c in body.chars() { match c { '{' => depth += 1, '}' => { depth -= 1; min = min.min(depth) } _ => {} } }
    if depth != 0 || min < 0 { return Err(format!("extracted region is not brace-balanced (depth {depth}, min {min})")); }
    // (`impl Drop` is deliberately not demanded: where the count is released is part of what is checked)
    for needle in ["impl WaitGroup", "impl Future for WaitGroup"] {
        if !body.contains(needle) { return Err(format!("`{needle}` not in the extracted region")); }
    }
    Ok(body.to_string())
}
