p='/verif/harness/src/engines/c12.rs'
s=open(p).read()
old='''        ("array-payload".into(), json!(["exp", 1])),
    ];'''
new='''        ("array-payload".into(), json!(["exp", 1])),
        // "the handler then observes exactly the signed payload": decimals with 16-17 significant digits, for which a JSON reader
        // that does not round correctly comes out one unit in the last place off (found by search: 8 of the first 93 candidates)
        ("float-payload".into(), json!({"sub": "u", "f": [985690694.6328695, 0.21291890726713458, 198136406.38684994, 92.42132512813595,
            1.8057721557255225e-6, 925.9338926496359, 972610478.8033849, 0.9720916325967499, 985.6906946328695, 0.1, 1e-7, 5e-324, 1.7976931348623157e308]})),
    ];'''
assert old in s
s=s.replace(old,new,1)
open(p,'w').write(s)
