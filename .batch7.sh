#!/bin/sh
cd /verif
ev() { echo "=== seeded $4"; python3 lib/eval_seeded.py "$@" 2>&1 | tail -12; }
ev /tmp/r_C11 C11 1 C11-empty-last-cookie-into-option C08
ev /tmp/r_C11 C11 2 C11-maxage-read-as-i64 C08
ev /tmp/r_C12 C12 1 C12-time-claims-truncated-to-integer
ev /tmp/r_C12 C12 2 C12-absent-alg-passes
ev /tmp/r_C13 C13 1 C13-scratch-not-cleared-on-error-path C12
ev /tmp/r_C13 C13 2 C13-password-up-to-second-colon
ev /tmp/r_C14 C14 1 C14-merged-literal-plain-concat C15 C01
ev /tmp/r_C14 C14 2 C14-empty-allow-headers-echoes
ev /tmp/r_C15 C15 1 C15-document-without-outermost-fangs
ev /tmp/r_C15 C15 2 C15-merged-literal-double-slash C14 C01
echo BATCH7-FINISHED
