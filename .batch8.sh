#!/bin/sh
cd /verif
ev() { echo "=== seeded $4"; python3 lib/eval_seeded.py "$@" 2>&1 | tail -12; }
ev /tmp/r_C16 C16 1 C16-required-walk-assumes-same-order C15
ev /tmp/r_C16 C16 2 C16-inner-option-guard-bare-only C15
ev /tmp/r_C17 C17 1 C17-hexized-stops-at-zero-byte C20
ev /tmp/r_C17 C17 2 C17-cr-normalisation-moved-to-data-impls
ev /tmp/r_C18 C18 1 C18-listener-not-dropped
ev /tmp/r_C18 C18 2 C18-waitgroup-add-load-store
ev /tmp/r_C19 C19 1 C19-partition-point-on-unsorted-children C01
ev /tmp/r_C19 C19 2 C19-all-trailing-slashes-trimmed C01
ev /tmp/r_C20 C20 1 C20-imf-fixdate-minute-cache C03
ev /tmp/r_C20 C20 2 C20-hex-table-misses-ff C17
echo BATCH8-FINISHED
