#!/bin/sh
# convenience: run every registered quick check once, print one line each
cd "$(dirname "$0")"
for id in $(python3 -c "import json; print(' '.join(c['property_id'] for c in json.load(open('MANIFEST.json'))['checks']))"); do
  ./check $id --tier quick 2>&1 | grep -E "^\[C|VIOLATION|KNOWN-FINDING|MACHINERY" | cut -c1-300
done
