//! Static part of every generated C16 binary (copied next to the generated type modules).
//! Observes, for one generated type T:
//!   * the JSON form of `<T as ohkami::openapi::Schema>::schema()`   (None if the derive was removed)
//!   * `serde_json::to_value` of every generated value, whether it reads back, and what it re-serializes to
//!   * requiredness probes: every object key at every depth of a serialized value is deleted in turn and
//!     `serde_json::from_value::<T>` is asked whether it still accepts the document
//! Nothing is judged here; the python side (lib/c16_check.py) compares.
use ohkami::openapi::{Schema, SchemaRef};
use ohkami::serde::de::DeserializeOwned;
use ohkami::serde::Serialize;
use serde_json::{json, Map, Value};
use std::panic::{catch_unwind, AssertUnwindSafe};

pub fn quiet() {
    std::panic::set_hook(Box::new(|_| {}));
}

fn panic_text(e: Box<dyn std::any::Any + Send>) -> String {
    if let Some(s) = e.downcast_ref::<&str>() { s.to_string() }
    else if let Some(s) = e.downcast_ref::<String>() { s.clone() }
    else { "<non-string panic>".to_string() }
}

pub fn schema_json<T: Schema>() -> Value {
    match catch_unwind(|| {
        let r: SchemaRef = T::schema().into();
        serde_json::to_value(&r).map_err(|e| e.to_string())
    }) {
        Ok(Ok(v)) => json!({"ok": v}),
        Ok(Err(e)) => json!({"error": e}),
        Err(p) => json!({"panic": panic_text(p)}),
    }
}

fn object_key_paths(v: &Value, at: &mut Vec<Value>, out: &mut Vec<Vec<Value>>) {
    match v {
        Value::Object(m) => for (k, x) in m {
            at.push(Value::String(k.clone()));
            out.push(at.clone());
            object_key_paths(x, at, out);
            at.pop();
        },
        Value::Array(a) => for (i, x) in a.iter().enumerate() {
            at.push(json!(i));
            object_key_paths(x, at, out);
            at.pop();
        },
        _ => (),
    }
}

fn remove_at(v: &mut Value, path: &[Value]) {
    if path.len() == 1 {
        if let (Value::Object(m), Value::String(k)) = (v, &path[0]) { m.remove(k); }
        return;
    }
    let next = match (&mut *v, &path[0]) {
        (Value::Object(m), Value::String(k)) => m.get_mut(k),
        (Value::Array(a), Value::Number(n)) => a.get_mut(n.as_u64().unwrap() as usize),
        _ => None,
    };
    if let Some(n) = next { remove_at(n, &path[1..]) }
}

fn read_back<T: Serialize + DeserializeOwned>(doc: &Value) -> Result<Value, String> {
    match catch_unwind(AssertUnwindSafe(|| {
        serde_json::from_value::<T>(doc.clone())
            .map_err(|e| e.to_string())
            .and_then(|t| serde_json::to_value(&t).map_err(|e| format!("re-serialize: {e}")))
    })) {
        Ok(r) => r,
        Err(p) => Err(format!("panic: {}", panic_text(p))),
    }
}

/// `fills`: JSON values tried (in order) for a top-level key that serde reports as `missing field`
/// when the serialized form is read back (a field serde reads but never writes).
pub fn examine<T: Serialize + DeserializeOwned>(
    id: &str, schema: Option<Value>, values: Vec<(&'static str, T)>, fills: &[Value],
) -> String {
    let mut vals = Vec::new();
    for (label, v) in &values {
        let ser = match catch_unwind(AssertUnwindSafe(|| serde_json::to_value(v).map_err(|e| e.to_string()))) {
            Ok(r) => r,
            Err(p) => Err(format!("panic: {}", panic_text(p))),
        };
        let doc = match ser {
            Ok(d) => d,
            Err(e) => { vals.push(json!({"label": label, "ser_error": e})); continue }
        };
        // the document used for reading: the serialized form, completed with read-only keys if needed
        let mut input = doc.clone();
        let mut filled: Vec<String> = Vec::new();
        let mut rt = read_back::<T>(&input);
        for _ in 0..3 {
            let e: String = match &rt { Err(e) => e.clone(), Ok(_) => break };
            let Some(rest) = e.strip_prefix("missing field `") else { break };
            let Some(key) = rest.split('`').next() else { break };
            let Value::Object(m) = &mut input else { break };
            if m.contains_key(key) { break }
            let mut done = false;
            for f in fills {
                m.insert(key.to_string(), f.clone());
                let r = read_back::<T>(&Value::Object(m.clone()));
                // accepted, or the complaint moved on to another missing key: this fill value fits
                let fits = match &r {
                    Ok(_) => true,
                    Err(e2) => match e2.strip_prefix("missing field `").and_then(|r| r.split('`').next()) {
                        // (a key of one of the fill objects is a complaint about the fill itself)
                        Some(k2) => k2 != key && !fills.iter().any(|f| f.get(k2).is_some()),
                        None => false,
                    },
                };
                if fits { rt = r; done = true; break }
            }
            if !done { m.remove(key); break }
            filled.push(key.to_string());
        }
        let mut probes = Vec::new();
        if rt.is_ok() {
            let mut paths = Vec::new();
            object_key_paths(&input, &mut Vec::new(), &mut paths);
            for p in paths {
                let mut d = input.clone();
                remove_at(&mut d, &p);
                match read_back::<T>(&d) {
                    Ok(back) => probes.push(json!({"path": p, "ok": true, "back": back})),
                    Err(e) => probes.push(json!({"path": p, "ok": false, "err": e.chars().take(100).collect::<String>()})),
                }
            }
        }
        let mut o = Map::new();
        o.insert("label".into(), json!(label));
        o.insert("json".into(), doc);
        if !filled.is_empty() { o.insert("input".into(), input); o.insert("filled".into(), json!(filled)); }
        match rt {
            Ok(b) => { o.insert("rt_ok".into(), json!(true)); o.insert("rt_json".into(), b); }
            Err(e) => { o.insert("rt_ok".into(), json!(false)); o.insert("rt_err".into(), json!(e)); }
        }
        o.insert("probes".into(), Value::Array(probes));
        vals.push(Value::Object(o));
    }
    let mut o = Map::new();
    o.insert("id".into(), json!(id));
    if let Some(s) = schema { o.insert("schema".into(), s); }
    o.insert("values".into(), Value::Array(vals));
    Value::Object(o).to_string()
}
