#!/bin/sh
cd /verif
for id in C01 C02 C03 C14 C19; do
  for n in 1 2 3 4; do
    [ -f /tmp/n_$id/out/change$n.diff ] || continue
    extra=""
    case $id in C01) extra="C04 C07";; C02) extra="C05 C06";; C03) extra="C17";; C14) extra="C04";; C19) extra="C01";; esac
    echo "=== $id change$n"
    python3 lib/eval_benign.py /tmp/n_$id $id $n $id-b$n $extra 2>&1 | tail -12
  done
done
echo BATCH-FINISHED
