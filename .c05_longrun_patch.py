p='/verif/harness/src/engines/c05.rs'
s=open(p).read()
old='''    ctx.extra.insert("rule".into(), json!("case = sequence of requests on one connection, one segment per request; non-trivial = length >= 2;'''
new='''    // Long runs: a defect that needs many requests on ONE connection (a per-connection table that only grows, a counter that
    // wraps, a buffer that creeps) is out of reach of any depth bound.  Every cycle of 1..=2 requests that keeps the session
    // alive is repeated `reps` times on one connection; every response is compared with the fresh one as above.
    let reps = if quick { 150 } else { 400 };
    let keeps = |i: usize| !alpha[i].closes && !(matches!(alpha[i].kind, "refused" | "malformed") && wire::status_of(&fresh[i]) >= 400);
    let mut cycles: Vec<Vec<usize>> = (0..n).filter(|&i| keeps(i)).map(|i| vec![i]).collect();
    for a in 0..n { for b in 0..n { if a != b && keeps(a) && keeps(b) { cycles.push(vec![a, b]) } } }
    let mut long_runs = 0u64;
    for w in &cycles {
        if !ctx.mine() { continue }
        if ctx.out_of_time() { break }
        let h: Vec<usize> = w.iter().copied().cycle().take(w.len() * reps).collect();
        check_history(ctx, &router, &alpha, &fresh, &h);
        ctx.states += 1; long_runs += 1;
    }
    ctx.extra.insert("long_runs".into(), json!(format!("{long_runs} cycles of 1..=2 requests in this shard, each repeated {reps} times on one connection")));
    ctx.extra.insert("rule".into(), json!("case = sequence of requests on one connection, one segment per request; non-trivial = length >= 2;'''
assert old in s
s=s.replace(old,new,1)
open(p,'w').write(s)
