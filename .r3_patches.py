import re
# ---- C19: one file per supported extension
p='/verif/harness/src/engines/c19.rs'
s=open(p).read()
old='''        "png" => "image/png", "json" => "application/json", _ => "?",'''
new='''        "png" => "image/png", "json" => "application/json",
        // the other extensions the framework serves (IANA media types, written here independently of ohkami_lib::mime)
        "xml" => "text/xml", "csv" => "text/csv", "tsv" => "text/tab-separated-values", "vcard" => "text/vcard",
        "jpeg" => "image/jpeg", "gif" => "image/gif", "svg" => "image/svg+xml", "woff" => "font/woff", "woff2" => "font/woff2", "pdf" => "application/pdf",
        _ => "?",'''
assert old in s
s=s.replace(old,new,1)
old='''    ctx.extra.insert("rule".into(), json!("case = (directory tree on disk, omit_extensions, mount route, variant'''
new='''    // "with the Content-Type of its extension": one tree holding a file of every supported extension (the trees above use six)
    for (oi, omit) in omits.iter().enumerate() { for mount in mounts.iter() {
        if !ctx.mine() { continue }
        let _ = oi;
        let exts = ["txt", "html", "css", "js", "xml", "csv", "tsv", "vcard", "jpeg", "gif", "png", "svg", "woff", "woff2", "json", "pdf"];
        let c = Config { entries: exts.iter().enumerate().map(|(i, e)| (if i % 2 == 0 { "".to_string() } else { "d".to_string() }, format!("f{i}.{e}"))).collect(),
            omit: omit.clone(), mount: mount.to_string(), param_sibling: false, symlink_outside: false, mutate_after_mount: false };
        check_config(ctx, &c, None);
    } }
    ctx.extra.insert("rule".into(), json!("case = (directory tree on disk, omit_extensions, mount route, variant'''
assert old in s
s=s.replace(old,new,1)
open(p,'w').write(s)

# ---- C10: a boundary of the maximal length (70 characters, RFC 2046)
p='/verif/harness/src/engines/c10.rs'
s=open(p).read()
old='''const BOUNDARIES: &[&str] = &["B", "----WebKitFormBoundaryX", "a-b"];'''
new='''// (the last one: the longest boundary RFC 2046 allows, 70 characters - Dart's http package always writes 70)
const BOUNDARIES: &[&str] = &["B", "----WebKitFormBoundaryX", "a-b", "dart-http-boundary-0123456789abcdefghijklmnopqrstuvwxyzABCDEFGHIJKLMN-70"];'''
assert old in s
s=s.replace(old,new,1)
assert len("dart-http-boundary-0123456789abcdefghijklmnopqrstuvwxyzABCDEFGHIJKLMN-70")==70
open(p,'w').write(s)

# ---- C02: a refusal must declare its length
p='/verif/harness/src/engines/c02.rs'
s=open(p).read()
old='''            Ok(p) if p.status >= 400 && p.consumed == raw.len() => {}'''
new='''            // (C03: "whose end the client can determine without waiting for the connection to close" holds for every response the
            //  framework sends, the parser's refusals included - they do not pass through Response::complete())
            Ok(p) if p.status >= 400 && p.consumed == raw.len() && p.framing == crate::refmodel::http::Framing::UntilClose && !matches!(p.status, 100..=199 | 204 | 304) => {
                ctx.violation(&format!("C02/refusal/{edit_feature}/no-declared-length({})", p.status), true, || witness("the refusal declares neither Content-Length nor chunked coding", String::new())); return }
            Ok(p) if p.status >= 400 && p.consumed == raw.len() => {}'''
assert old in s
s=s.replace(old,new,1)
open(p,'w').write(s)

# ---- C05: GET / OPTIONS with a payload; Connection: close that a fang removes from the request
p='/verif/harness/src/engines/c05.rs'
s=open(p).read()
old='''        r("get-only-custom", '''
new='''        // methods "without payload semantics" that carry a payload all the same: it belongs to them, not to the next request
        r("get-with-payload", b"GET /e HTTP/1.1\\r\\nHost: h\\r\\nContent-Length: 14\\r\\n\\r\\n{\\"q\\":\\"ohkami\\"}".to_vec(), "payload"),
        r("get-with-payload-looking-like-a-request", b"GET /e HTTP/1.1\\r\\nHost: h\\r\\nContent-Length: 27\\r\\n\\r\\nGET /e?smuggled HTTP/1.1\\r\\n\\r\\n".to_vec(), "payload"),
        r("get-only-custom", '''
assert old in s
s=s.replace(old,new,1)
old='''    v.push(Req { name: "get-close",'''
new='''    // `Connection: close` on a request whose hop-by-hop headers a (proxy-style) fang removes before the handler runs: what the
    // client sent decides, not what application code left in the header table
    v.push(Req { name: "get-close-stripped-by-fang", bytes: b"GET /e HTTP/1.1\\r\\nHost: h\\r\\nX-Strip-Hop-By-Hop: 1\\r\\nConnection: close\\r\\n\\r\\n".to_vec(), head: false, closes: true, kind: "close" });
    v.push(Req { name: "get-close",'''
assert old in s
s=s.replace(old,new,1)
open(p,'w').write(s)
p='/verif/harness/src/wire.rs'
s=open(p).read()
print([m.start() for m in re.finditer('struct CtxFang', s)])
