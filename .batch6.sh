#!/bin/sh
cd /verif
ev() { echo "=== seeded $4"; python3 lib/eval_seeded.py "$@" 2>&1 | tail -12; }
ev /tmp/r_C05 C05 1 C05-clear-returns-early-on-full-buffer C06
ev /tmp/r_C05 C05 2 C05-headers-clear-skips-custom-only C06
ev /tmp/r_C06 C06 1 C06-terminator-search-only-new-bytes C02
ev /tmp/r_C06 C06 2 C06-carry-not-set-after-payload C05
ev /tmp/r_C07 C07 1 C07-content-type-prefix-match
ev /tmp/r_C07 C07 2 C07-files-retain-order C10
ev /tmp/r_C08 C08 1 C08-error-echo-slices-32-bytes C09
ev /tmp/r_C08 C08 2 C08-maxage-read-uint-overflow C11
ev /tmp/r_C09 C09 1 C09-query-iter-lossy-fallback-raw C02 C08
ev /tmp/r_C09 C09 2 C09-first-element-reset-in-end
ev /tmp/r_C10 C10 1 C10-multiple-files-into-single-file C07
ev /tmp/r_C10 C10 2 C10-mimetype-params-stripped C07
echo BATCH6-FINISHED
