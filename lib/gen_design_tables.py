#!/usr/bin/env python3
"""Regenerates the generated tables of DESIGN.md (between `<!-- BEGIN GENERATED x -->` / `<!-- END GENERATED x -->`
markers) from known_findings.json and seeded/*/meta.json, so that the document cannot drift from the files the
checks really use."""
import json, glob, os, re, subprocess, sys

ROOT = os.path.dirname(os.path.dirname(os.path.abspath(__file__)))


def cell(s, n=260):
    s = re.sub(r"\s+", " ", str(s)).replace("|", "\\|").strip()
    return s if len(s) <= n else s[: n - 1].rstrip() + "…"


def fixes():
    d = json.load(open(f"{ROOT}/known_findings.json"))
    rows = ["| prop | commit in /repo | what failed |", "|---|---|---|"]
    seen = set()
    for f in sorted((f for f in d["findings"] if f["status"] == "fixed"), key=lambda f: f["property"]):
        desc = f.get("description", "")
        desc = re.sub(r"^fixed: property=C\d\d\s+\S+\s+", "", desc)
        key = (f["property"], f.get("commit"))
        if key in seen:
            continue
        seen.add(key)
        rows.append(f"| {f['property']} | `{f.get('commit', '?')}` | {cell(desc)} |")
    return "\n".join(rows)


def known():
    d = json.load(open(f"{ROOT}/known_findings.json"))
    rows = ["| prop | id | class glob(s) | what fails |", "|---|---|---|---|"]
    for f in d["findings"]:
        if f["status"] != "known":
            continue
        cl = f["class"] if isinstance(f["class"], list) else [f["class"]]
        rows.append(f"| {f['property']} | {f.get('id', '')} | {cell('; '.join('`%s`' % c for c in cl), 200)} | {cell(f.get('description', ''), 420)} |")
    return "\n".join(rows)


def seeded():
    rows = ["| seeded change | property | what it breaks | needs | quick checks that report it |", "|---|---|---|---|---|"]
    for m in sorted(glob.glob(f"{ROOT}/seeded/*/meta.json")):
        d = json.load(open(m))
        name = os.path.basename(os.path.dirname(m))
        if d.get("kept") is False:
            rows.append(f"| `{name}` | {d['property']} | {cell(d.get('summary', ''), 240)} | — | *obsolete*: {cell(d.get('obsolete', ''), 200)} |")
            continue
        det = ", ".join(d.get("detected_by") or []) or ("**none** (out of reach, see below)" if d.get("out_of_reach") else "**none**")
        if d.get("missed_at_first") and d.get("detected_by"):
            det += " *(missed at first; closed by strengthening the check)*"
        rows.append(f"| `{name}` | {d['property']} | {cell(d.get('summary', ''), 240)} | {cell(d.get('needs', ''), 200)} | {det} |")
    return "\n".join(rows)


GEN = {"fixes": fixes, "known": known, "seeded": seeded}


def main():
    p = f"{ROOT}/DESIGN.md"
    s = open(p).read()
    for k, fn in GEN.items():
        a, b = f"<!-- BEGIN GENERATED {k} -->", f"<!-- END GENERATED {k} -->"
        if a not in s:
            print(f"marker for {k} missing", file=sys.stderr)
            continue
        i, j = s.index(a) + len(a), s.index(b)
        s = s[:i] + "\n" + fn() + "\n" + s[j:]
    open(p, "w").write(s)


if __name__ == "__main__":
    main()
