#!/bin/sh
# usage: mk_sandbox.sh <tag>   -> /tmp/b_<tag>/{verif,repo,report}
set -e
T=/tmp/b_$1
rm -rf "$T"; mkdir -p "$T/report"
git -C /repo worktree prune
git -C /repo worktree add --detach "$T/repo" HEAD >/dev/null 2>&1
rsync -a --exclude .target --exclude .work --exclude .git --exclude replays /verif/ "$T/verif/"
sed -i "s#/repo/#$T/repo/#g" "$T/verif/harness/Cargo.toml"
sed -i "s#CARGO_TARGET_DIR=/verif/.target#CARGO_TARGET_DIR=$T/verif/.target#" "$T/verif/setup.sh"
echo "$T ready"
