#!/bin/sh
# usage: evalq1.sh <tag> <ID> <name> [extra ids]
tag=$1; id=$2; n1=$3; shift 3
cd /verif
OHKAMI_REPO=/tmp/b_$tag/repo python3 lib/eval_seeded_sb.py $tag /tmp/r_$id $id 1 $id-$n1 "$@" > /tmp/b_$tag/report/$id-1.log 2>&1
git -C /repo worktree remove --force /tmp/r_$id/repo; rm -rf /tmp/r_$id
echo "evalq1 $id done" >> /tmp/b_$tag/report/run.log
