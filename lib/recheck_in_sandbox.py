#!/usr/bin/env python3
"""Re-run the quick checks against stored seeded / benign patches inside a sandbox (lib/mk_sandbox.sh <tag>), so that several
sandboxes can work in parallel and /repo itself stays untouched.
   lib/recheck_in_sandbox.py <tag> <kind:name> ...     kind = seeded | benign;  results -> /tmp/b_<tag>/report/results.jsonl"""
import json, os, subprocess, sys
tag, items = sys.argv[1], sys.argv[2:]
T = f"/tmp/b_{tag}"
os.environ["OHKAMI_REPO"] = T + "/repo"   # harness_loom/build.rs reads the WaitGroup source from there
def sh(cmd, cwd=None):
    p = subprocess.run(cmd, shell=True, cwd=cwd, stdout=subprocess.PIPE, stderr=subprocess.STDOUT, text=True)
    return p.returncode, p.stdout
out = open(f"{T}/report/results.jsonl", "a")
# queue mode: `--queue <file>`: items are taken from a list shared by several sandboxes; an item is claimed by creating
# /tmp/claims/<item> exclusively, so that each is run once
if items and items[0] == "--queue":
    items = open(items[1]).read().split()
    os.makedirs("/tmp/claims", exist_ok=True)
    def claim(it):
        try:
            os.close(os.open("/tmp/claims/" + it.replace(":", "__"), os.O_CREAT | os.O_EXCL | os.O_WRONLY)); return True
        except FileExistsError:
            return False
else:
    def claim(it): return True
for it in items:
    if not claim(it): continue
    kind, name = it.split(":", 1)
    d = f"/verif/{kind}/{name}"
    meta = json.load(open(f"{d}/meta.json"))
    if meta.get("kept") is False: continue
    ids = [meta["property"]] + [c for c in (meta.get("extra_checks") or []) if c != meta["property"]]
    if kind == "seeded":
        ids += [c for c in (meta.get("detected_by") or []) if c not in ids]
    rc, o = sh(f"git apply {d}/patch.diff", f"{T}/repo")
    if rc != 0:
        out.write(json.dumps({"kind": kind, "name": name, "applies": False, "msg": o[:300]}) + "\n"); out.flush(); continue
    checks = {}
    try:
        for cid in ids:
            rc, o = sh(f"./check {cid} --tier quick --jobs 6", f"{T}/verif")
            lines = [l for l in o.splitlines() if l.startswith("VIOLATION") or l.startswith("  class=") or l.startswith("MACHINERY") or l.startswith(f"[{cid}")]
            checks[cid] = {"exit": rc, "lines": lines[:10]}
    finally:
        sh("git checkout -- .", f"{T}/repo")
    out.write(json.dumps({"kind": kind, "name": name, "applies": True, "checks": checks}) + "\n"); out.flush()
out.write(json.dumps({"done": tag}) + "\n"); out.close()
