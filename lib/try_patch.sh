cd /verif
for item in "$@"; do
  name=${item%%:*}; ids=${item#*:}
  git -C /repo apply /verif/seeded/$name/patch.diff || { echo "apply failed $name"; continue; }
  for id in $(echo $ids | tr , ' '); do echo "=== $name / $id"; ./check $id --tier quick 2>&1 | grep -E "^\[C|VIOLATION|class=|MACHINERY" | cut -c1-260 | head -6; done
  git -C /repo checkout -- .
done
git -C /repo status --short
