#!/usr/bin/env python3
"""C16 judge (runs under python3-vt because it needs `jsonschema`).

  c16_check.py <input.json> <output.json>

input : {"tier", "shard", "nshards", "types": [descriptor..], "obs": {id: observation}, "rejected": {id: [error..]},
         "bounds": {...}, "wall_cap_s": float}
output: one report in the format `vmc` prints (see harness/src/core.rs Ctx::report).

The oracle is serde itself as observed by the generated program (c16/common.rs); nothing of serde's renaming
or tagging rules is re-implemented here.  What is demanded (and nothing more; see the property statement):

  N  names      every key serde writes into an object that the schema describes is one of that schema
                node's `properties`; every property (and every `required` name) is written in some value
                (symptoms: key-mismatch = one of each at the same node, key-not-in-schema, property-never-written)
  R  required   property p of node n is `required`  <=>  serde writes p in every generated value reaching n
                AND serde refuses the document when p is deleted from it
  V  validates  every serialized value validates (Draft 2020-12) against the schema; the schema itself must
                be a valid schema without dangling references
  D  derive     a serde-valid type must be accepted by derive(Schema) and schema() must not panic

Ambiguous (counted, never a violation):
  * presence of a property for a one-directional member (skip_serializing / skip_deserializing field or
    variant, a key that is only read) - the schema serves both directions and the statement talks about
    written keys only;
  * requiredness when no conclusive probe exists (value does not read back; untagged enum where the
    deletion lets another variant match; direction-specific rename).

Class ids: C16/<construct>/<symptom>; <construct> is a '+'-joined list of the generator features of the blamed
member (field / variant) and of its container - a deterministic function of the type descriptor and of the
location of the symptom, never of messages or positions.
"""
import json
import os
import re
import sys
import time

from jsonschema import Draft202012Validator as DV

sys.path.insert(0, os.path.dirname(os.path.abspath(__file__)))
import c16_gen as gen  # noqa: E402  (marker numbers of generated values; pure stdlib)

HELPER_KEYS = {"inner_id", "inner_tag", "comp_id", "req_id", "opt_note", "proxy_val"}
PLAIN_NAMES = {"a", "user_name", "a_b_c", "x1", "anchor", "note", "flag", "0", "1", "2", "3", "4"}


def norm(s):
    return re.sub(r"[^a-z0-9]", "", s.replace("r#", "").lower())


def jtype(v):
    if v is None:
        return "null"
    if isinstance(v, bool):
        return "boolean"
    if isinstance(v, (int, float)):
        return "number"
    if isinstance(v, str):
        return "string"
    if isinstance(v, list):
        return "array"
    return "object"


def slug(s, words=8):
    s = re.sub(r"`[^`]*`", "", s)
    s = re.sub(r'"[^"]*"', "", s)
    s = re.sub(r"[^A-Za-z ]+", " ", s)
    return "-".join(s.split()[:words]).lower() or "unknown"


# ------------------------------------------------------------------------------------------------ constructs

def ckinds(d):
    return [v["kind"] for v in d["variants"]]


def variant_kind_label(d, v):
    k = v["kind"]
    if k == "unit":
        return "unit" if all(x == "unit" for x in ckinds(d)) else "unit-in-mixed"
    if k == "newtype":
        t = v["fields"][0]["ty"]
        return "newtype" if t == "String" else f"newtype({t})"
    if k == "tuple":
        ts = [f["ty"] for f in v["fields"]]
        return "tuple" if ts == ["String", "i32"] else "tuple(%s)" % ",".join(ts)
    return "struct"


def field_parts(f, rule_active):
    p = []
    if not rule_active and f["name"] not in PLAIN_NAMES:
        p.append(f"name:{f['name']}")
    if f["attr"] != "none":
        p.append(f"attr:{f['attr']}")
    if f["ty"] != "String":
        p.append(f"type:{f['ty']}")
    return p


def construct(d, variant=None, field=None):
    """'+'-joined feature list.  variant/field = blamed member (None = the whole container)."""
    c = d["c"]
    P = []
    ra = c.get("rename_all")
    ra_label = None
    if ra:
        ra_label = "rename_all" + ({"ser_de": "(ser,de)", "ser_only": "(ser)"}.get(c.get("rename_all_form"), "")) + ":" + ra
    if d["kind"] == "struct":
        if d["shape"] in ("newtype", "tuple"):
            P.append("struct:%s(%s)" % (d["shape"], ",".join(f["ty"] for f in d["fields"])))
        elif d["shape"] == "unit":
            P.append("struct:unit")
        elif not d["fields"]:
            P.append("struct:empty")
        fields = [field] if field is not None else \
            ([f for f in d["fields"] if f["name"] != "anchor"] if d["shape"] == "named" else [])
        if ra:
            P.append(ra_label + "×" + ("|".join(f["name"] for f in fields) or "-"))
        for f in fields:
            for x in field_parts(f, bool(ra)):
                if x not in P:
                    P.append(x)
    else:
        tg = c.get("tagging", "external")
        variants = [variant] if variant is not None else d["variants"]
        kinds = []
        for v in variants:
            k = variant_kind_label(d, v)
            if k not in kinds:
                kinds.append(k)
        P.append(f"enum:{tg}×" + (kinds[0] if len(kinds) == 1 else "{" + "|".join(sorted(kinds)) + "}"))
        if len(d["variants"]) > 4:
            P.append("variants>4")
        if ra:
            P.append(ra_label + "×" + "|".join(v["name"] for v in variants))
        raf = c.get("rename_all_fields")
        fields = [field] if field is not None else \
            [f for v in variants if v["kind"] == "struct" for f in v["fields"] if f["name"] != "anchor"]
        if raf:
            P.append(f"rename_all_fields:{raf}×" + ("|".join(dict.fromkeys(f["name"] for f in fields)) or "-"))
        for v in variants:
            if v["attr"] != "none" and f"vattr:{v['attr']}" not in P:
                P.append(f"vattr:{v['attr']}")
        if field is not None and ra and not raf:
            P.append(f"field:{field['name']}")
        vra = any(v["attr"].startswith("rename_all:") for v in variants)
        for f in fields:
            for x in field_parts(f, bool(raf) or vra or (ra and field is not None)):
                if x not in P:
                    P.append(x)
            if vra and f"field:{f['name']}" not in P:
                P.append(f"field:{f['name']}")
    for k in ("rename", "default", "deny_unknown_fields", "transparent", "struct_tag", "into_from"):
        if c.get(k):
            P.append(f"container:{k}")
    if c.get("openapi"):
        P.append(f"openapi:{c['openapi']}")
    if c.get("split"):
        P.append(f"multi-serde-attr:{c['split']}")
    return "+".join(P) or "plain"


def match_field(fields, keys):
    """the field a list of JSON keys (outermost first) talks about - by literal rename or by the name with
    case and separators removed; used for classification and for the ambiguity rules only"""
    for k in keys:
        if not isinstance(k, str):
            continue
        for f in fields:
            if gen.rename_literal(f) == k:
                return f
        for f in fields:
            if norm(f["name"]) == norm(k) and norm(k):
                return f
        if k in HELPER_KEYS:
            fl = [f for f in fields if f["attr"] == "flatten"]
            if len(fl) == 1:
                return fl[0]
    return None


def markers_in(x, acc):
    if isinstance(x, dict):
        for v in x.values():
            markers_in(v, acc)
    elif isinstance(x, list):
        for v in x:
            markers_in(v, acc)
    elif isinstance(x, str):
        acc.add(("s", x))
    elif isinstance(x, (int, float)) and not isinstance(x, bool):
        acc.add(("n", x))


def member_fields(d, vi):
    if d["kind"] == "struct":
        return None, (d["fields"] if d["shape"] == "named" else [])
    if vi is None or not (0 <= vi < len(d["variants"])):
        return None, []
    v = d["variants"][vi]
    return v, (v["fields"] if v["kind"] == "struct" else [])


def owner_by_marker(d, vi, sub):
    """the unique field whose generated leaf values occur inside JSON value `sub` (None if none or several)"""
    _, fields = member_fields(d, vi)
    if isinstance(sub, dict) and any(k not in HELPER_KEYS for k in sub):
        return None
    found = set()
    markers_in(sub, found)
    own = [f for i, f in enumerate(fields)
           if gen.marker_values(gen.field_marker(vi if d["kind"] == "enum" else None, i)) & found]
    return own[0] if len(own) == 1 else None


def resolve(d, vi, keys, root=None, path=None):
    """(variant, field) blamed for a symptom.  `root`/`path`: the serialized value and the JSON path of the
    symptom in it - the field is then found through the marker values the generator put into it (no model of
    serde's renaming); otherwise / additionally through the key names in `keys` (outermost first)."""
    var, fields = member_fields(d, vi)
    if root is not None and path is not None:
        sub = root
        for i, step in enumerate(path):
            try:
                sub = sub[step]
            except (KeyError, IndexError, TypeError):
                break
            if isinstance(step, str):
                f = owner_by_marker(d, vi, sub)
                if f is not None:
                    return var, f
    return var, match_field(fields, keys)


# ------------------------------------------------------------------------------------------------ schema helpers

def is_valid(schema, inst):
    try:
        return DV(schema).is_valid(inst)
    except Exception:
        return False


def describes(b, v):
    """how much of the value's structure a (sub)schema talks about: number of object keys, at any depth, that
    are `properties` of the schema node they meet"""
    if not isinstance(b, dict):
        return 0
    n = 0
    for kw in ("oneOf", "anyOf", "allOf"):
        if isinstance(b.get(kw), list) and b[kw]:
            n += max(describes(x, v) for x in b[kw])
    if isinstance(v, dict):
        props = b.get("properties") if isinstance(b.get("properties"), dict) else {}
        for k, x in v.items():
            if k in props:
                n += 1 + describes(props[k], x)
    elif isinstance(v, list) and isinstance(b.get("items"), dict):
        n += sum(describes(b["items"], x) for x in v)
    return n


def has_keys(v):
    return (isinstance(v, dict) and bool(v)) or (isinstance(v, list) and any(has_keys(x) for x in v))


def choose_branch(branches, inst, hint, valid=(), distrust_validity=False):
    """the branch of a oneOf/anyOf that is meant for this value: the one that describes most of its structure;
    among equals one under which the value validates, then the branch at the generator's variant position.
    Validation does not count when it is vacuous (the value has keys and the branch describes none of them: a
    bare `{type: object}` validates nearly everything and must not attract other variants' values) or when the
    schema had to be repaired before it could be used (`distrust_validity`)."""
    def rank(i):
        b = branches[i]
        n = describes(b, inst)
        counts = i in valid and not distrust_validity and not (n == 0 and has_keys(inst))
        typed = isinstance(b, dict) and (b.get("type") == jtype(inst) or (b.get("type") == "integer" and jtype(inst) == "number"))
        return (n, counts, i == hint, i in valid, typed, -i)
    return max(range(len(branches)), key=rank)


def explain(schema, inst, sp, vp, hint):
    """validation errors with combinators resolved to one branch: [(value path, schema path, keyword, detail)]"""
    out = []
    for e in sorted(DV(schema).iter_errors(inst), key=lambda e: (list(map(str, e.path)), list(map(str, e.schema_path)))):
        kw = e.validator
        e_vp = vp + list(e.path)
        e_sp = sp + list(e.schema_path)
        if kw in ("oneOf", "anyOf") and isinstance(e.validator_value, list) and e.validator_value:
            br = e.validator_value
            ok = [i for i, b in enumerate(br) if is_valid(b, e.instance)]
            if len(ok) > 1:
                out.append((e_vp, e_sp, "oneOf-multiple-match", ""))
            else:
                i = choose_branch(br, e.instance, hint if not e_vp and e_sp == ["oneOf"] else None)
                out += explain(br[i], e.instance, e_sp + [i], e_vp, None)
        elif kw == "type":
            out.append((e_vp, e_sp, kw, f"{jtype(e.instance)}-vs-{e.validator_value}"))
        elif kw == "required":
            m = re.match(r"'(.*)' is a required property", e.message)
            out.append((e_vp, e_sp, kw, m.group(1) if m else ""))
        else:
            out.append((e_vp, e_sp, kw, ""))
    return out


def align(schema, inst, sp, vp, hint, out, distrust=False):
    """pairs (schema node, object value) that describe each other"""
    if not isinstance(schema, dict):
        return
    comb = False
    for kw in ("oneOf", "anyOf"):
        br = schema.get(kw)
        if isinstance(br, list) and br:
            comb = True
            ok = [i for i, b in enumerate(br) if is_valid(b, inst)]
            i = choose_branch(br, inst, hint, ok, distrust)
            align(br[i], inst, sp + (kw, i), vp, None, out, distrust)
    for i, b in enumerate(schema.get("allOf", []) if isinstance(schema.get("allOf"), list) else []):
        comb = True
        align(b, inst, sp + ("allOf", i), vp, None, out, distrust)
    if isinstance(inst, dict):
        props = schema.get("properties") if isinstance(schema.get("properties"), dict) else None
        if props is not None or (not comb and schema.get("type") in (None, "object")):
            out.append((sp, schema, inst, vp))
        for k, sub in (props or {}).items():
            if k in inst:
                align(sub, inst[k], sp + ("properties", k), vp + (k,), None, out, distrust)
    elif isinstance(inst, list) and isinstance(schema.get("items"), dict):
        for j, x in enumerate(inst):
            align(schema["items"], x, sp + ("items",), vp + (j,), None, out, distrust)


def find_refs(s, at, out):
    if isinstance(s, dict):
        if "$ref" in s:
            out.append(at)
        for k, v in s.items():
            find_refs(v, at + [k], out)
    elif isinstance(s, list):
        for i, v in enumerate(s):
            find_refs(v, at + [i], out)


def get_at(s, path):
    for p in path:
        s = s[p]
    return s


def sanitize(schema):
    """-> (usable schema, [(schema path, symptom)]).  Invalid keywords are removed (after being reported) so
    that the remaining checks still run."""
    schema = json.loads(json.dumps(schema))
    problems = []
    refs = []
    find_refs(schema, [], refs)
    for at in sorted(refs, key=lambda p: -len(p)):
        problems.append((at, "schema-invalid:dangling-ref"))
        node = get_at(schema, at)
        node.clear()
    meta = DV(DV.META_SCHEMA)
    for _ in range(6):
        errs = sorted(meta.iter_errors(schema), key=lambda e: (-len(e.absolute_path), list(map(str, e.absolute_path))))
        if not errs:
            break
        e = errs[0]
        at = list(e.absolute_path)
        # the offending keyword is the last string element of the path
        kwpos = max((i for i, p in enumerate(at) if isinstance(p, str)), default=None)
        if kwpos is None:
            problems.append((at, "schema-invalid:root"))
            return {}, problems
        kw_path = at[:kwpos + 1]
        val = get_at(schema, kw_path)
        problems.append((kw_path, f"schema-invalid:{kw_path[-1]}" + (f"={val}" if isinstance(val, str) and len(val) < 16 else "")))
        parent = get_at(schema, kw_path[:-1])
        del parent[kw_path[-1]]
    return schema, problems


# ------------------------------------------------------------------------------------------------ report (Ctx look-alike)

class Report:
    def __init__(self, tier, shard, nshards):
        self.r = {"property": "C16", "tier": tier, "shard": shard, "nshards": nshards, "evaluations": 0, "nontrivial": 0,
                  "distinct_hashed": 0, "distinct_overflow": False, "collisions": 0, "ambiguous": 0, "skipped": 0,
                  "states": 0, "transitions": 0, "traces_validated": 0, "capped": False, "outcomes": {}, "violations": {},
                  "samples": [], "extra": {}, "machinery_errors": []}

    def _out(self, k):
        self.r["outcomes"][k] = self.r["outcomes"].get(k, 0) + 1

    def ok(self, outcome, nontrivial, collision):
        self.r["evaluations"] += 1
        self.r["nontrivial"] += bool(nontrivial)
        self.r["collisions"] += bool(collision)
        self._out(outcome)

    def ambiguous(self, outcome):
        self.r["evaluations"] += 1
        self.r["ambiguous"] += 1
        self._out("ambiguous:" + outcome)

    def violation(self, cls, nontrivial, witness):
        self.r["evaluations"] += 1
        self.r["nontrivial"] += bool(nontrivial)
        self._out("violation:" + cls)
        st = self.r["violations"].setdefault(cls, {"count": 0, "witnesses": []})
        st["count"] += 1
        st["witnesses"].append(witness)
        st["witnesses"].sort(key=lambda w: len(json.dumps(w)))
        del st["witnesses"][3:]

    def machinery(self, msg):
        if len(self.r["machinery_errors"]) < 20:
            self.r["machinery_errors"].append(msg)

    def sample(self, s):
        if len(self.r["samples"]) < 6:
            self.r["samples"].append(s)


# ------------------------------------------------------------------------------------------------ the judge

def strip(d):
    return {k: v for k, v in d.items() if k not in ("family", "id", "sig", "index")}


def branch_map(d, n):
    """variant index -> oneOf branch index of the root schema (classification / branch choice only)"""
    if d["kind"] != "enum":
        return None
    idx = list(range(len(d["variants"])))
    for keep in (lambda v: True,
                 lambda v: v["attr"] not in ("skip", "skip_serializing", "skip_deserializing"),
                 lambda v: v["attr"] != "skip"):
        sel = [i for i in idx if keep(d["variants"][i])]
        if len(sel) == n:
            return {vi: bi for bi, vi in enumerate(sel)}
    return None


def rejected_kind(err):
    msg = err.get("msg", "")
    kids = err.get("children", [])
    if "proc-macro derive panicked" in msg:
        m = next((k for k in kids if k.startswith("message:")), "message: unknown")
        return "panic:" + slug(m[len("message:"):])
    if err.get("code"):
        m = re.search(r"no method named `(\w+)`", msg)
        if m:
            return f"{err['code']}:no-method-{m.group(1)}"
        m = re.search(r"the trait bound `([^`]*)` is not satisfied", msg)
        if m:
            b = m.group(1)
            b = re.sub(r"\(Schema<.*\)", "(schema-tuple)", b)
            b = re.sub(r"[A-Za-z_:]*::", "", b)
            return f"{err['code']}:{re.sub(r'[^A-Za-z0-9()<>:-]+', '-', b)[:60]}"
        return f"{err['code']}:{slug(msg)}"
    return "error:" + slug(msg)


def one_directional_field(f):
    return f is not None and f["attr"] in ("skip_serializing", "skip_deserializing")


def check_type(d, obs, rejected, rep):
    c = d["c"]
    nontrivial = bool(c) or d["kind"] == "enum" or d.get("shape") != "named" or \
        any(f["attr"] != "none" or f["ty"] != "String" for f in d.get("fields", []))
    tdesc = strip(d)
    sg = d["sig"]

    def wit(symptom, **kw):
        w = {"type": tdesc, "sig": sg, "symptom": symptom}
        w.update(kw)
        return w

    def viol(variant, field, symptom, **kw):
        rep.violation(f"C16/{construct(d, variant, field)}/{symptom}", nontrivial, wit(symptom, **kw))

    # ---- D: derive rejected at compile time
    if rejected is not None:
        kinds = []
        for e in rejected:
            k = rejected_kind(e)
            if k not in kinds:
                kinds.append(k)
        for k in kinds[:3]:
            viol(None, None, "derive-rejects:" + k,
                 compiler=[[e.get("code"), e.get("msg", "")[:160], e.get("children", [])[:1]] for e in rejected[:2]])
        return
    if obs is None:
        rep.machinery(f"no observation for type {d['id']} {sg}")
        return
    sch = obs.get("schema") or {}
    if "ok" not in sch:
        what = sch.get("panic") or sch.get("error") or "missing"
        viol(None, None, "schema-panics:" + slug(what), observed=what[:200])
        return
    raw_schema = sch["ok"]
    schema, problems = sanitize(raw_schema)
    values = obs["values"]
    for v in values:
        if "ser_error" in v:
            rep.machinery(f"generator produced a value serde cannot serialize: {sg} {v['label']}: {v['ser_error']}")
            return

    def vindex(label):
        m = re.match(r"v(\d+):", label)
        return int(m.group(1)) if m else None

    root_n = len(schema["oneOf"]) if isinstance(schema, dict) and isinstance(schema.get("oneOf"), list) else None
    bmap = branch_map(d, root_n) if root_n is not None else None
    inv_bmap = {b: v for v, b in bmap.items()} if bmap else {}

    def member_from_schema_path(sp):
        """(variant index, property names) talked about by a schema path"""
        vi = None
        if len(sp) >= 2 and sp[0] == "oneOf" and isinstance(sp[1], int):
            vi = inv_bmap.get(sp[1])
        keys = [sp[i + 1] for i in range(len(sp) - 1) if sp[i] == "properties" and isinstance(sp[i + 1], str)]
        return vi, keys

    # ---- V(schema): the schema must be a schema
    for at, symptom in problems:
        vi, keys = member_from_schema_path(at)
        var, fld = resolve(d, vi, keys)
        if d["kind"] == "enum" and var is None and len(set(ckinds(d))) == 1:
            var = d["variants"][0]
        viol(var, fld, symptom, schema_path=at, schema=raw_schema)
    if not problems:
        rep.ok("schema-is-valid-2020-12", nontrivial, False)

    # one-directional variants: their values are not judged (see module doc)
    def judged(v):
        vi = vindex(v["label"])
        return not (d["kind"] == "enum" and vi is not None and d["variants"][vi]["attr"] == "skip_deserializing")

    # ---- N + R: structural comparison
    nodes = {}
    for xi, v in enumerate(values):
        if not judged(v):
            rep.ambiguous("value-of-write-only-variant")
            continue
        vi = vindex(v["label"])
        al = []
        align(schema, v["json"], (), (), bmap.get(vi) if bmap and vi is not None else None, al, bool(problems))
        for sp, node, inst, vp in al:
            nodes.setdefault(sp, {"schema": node, "hits": []})["hits"].append((xi, inst, vp))
    flagged = set()
    tagging = c.get("tagging", "external")
    for sp, nd in nodes.items():
        node, hits = nd["schema"], nd["hits"]
        props = node.get("properties") if isinstance(node.get("properties"), dict) else {}
        req = [r for r in node.get("required", []) if isinstance(r, str)] if isinstance(node.get("required"), list) else []
        names = list(props) + [r for r in req if r not in props]
        seen = {}
        for xi, inst, vp in hits:
            for k in inst:
                seen.setdefault(k, (xi, vp))
        vi_of_node = vindex(values[hits[0][0]]["label"])
        filled = set()
        for xi, _, vp in hits:
            if not vp:
                filled.update(values[xi].get("filled", []))
        # N: written keys <-> properties
        um_keys, um_props = [], []
        for k, (xi, vp) in seen.items():
            var, fld = resolve(d, vindex(values[xi]["label"]), list(vp) + [k], values[xi]["json"], list(vp) + [k])
            if k in props:
                renamed = fld is not None and k != fld["name"].replace("r#", "")
                rep.ok("key-described:" + ("renamed" if renamed else "verbatim"), nontrivial, renamed)
                continue
            flagged.add((sp, k))
            if one_directional_field(fld):
                rep.ambiguous("written-key-of-" + fld["attr"] + "-field-not-described")
                continue
            um_keys.append([k, xi, var, fld])
        for p in names:
            if p in seen:
                continue
            flagged.add((sp, p))
            svi, _ = member_from_schema_path(list(sp) + ["properties", p])
            var, fld = resolve(d, svi if svi is not None else vi_of_node, [p])
            if p in filled or one_directional_field(fld):
                if p in req:
                    viol(var, fld, "read-only-key-required", key=p, value=values[hits[0][0]]["json"], schema_path=list(sp), schema=raw_schema)
                else:
                    rep.ambiguous("read-only-key-described")
                continue
            um_props.append([p, var, fld])
        pairs = []
        for up in list(um_props):
            if up[2] is None:
                continue
            uk = next((x for x in um_keys if x[3] is up[2]), None)
            if uk is not None:
                pairs.append((uk, up))
                um_keys.remove(uk)
                um_props.remove(up)
        if len(um_keys) == 1 and len(um_props) == 1:
            pairs.append((um_keys.pop(), um_props.pop()))
        for (k, xi, var, fld), (p, pvar, pfld) in pairs:
            viol(var or pvar, fld or pfld, "key-mismatch", serde_writes=k, schema_says=p, value=values[xi]["json"],
                 schema_path=list(sp), schema=raw_schema)
        for k, xi, var, fld in um_keys:
            viol(var, fld, "key-not-in-schema", key=k, value=values[xi]["json"], schema_path=list(sp), schema=raw_schema)
        for p, var, fld in um_props:
            viol(var, fld, "property-never-written" + ("(required)" if p in req else ""), key=p,
                 value=values[hits[0][0]]["json"], schema_path=list(sp), schema=raw_schema)
        # R: requiredness
        for p in names:
            if p not in seen:
                continue
            with_p = [(xi, inst, vp) for xi, inst, vp in hits if p in inst]
            can_omit = len(with_p) < len(hits)
            acc = rej = inconclusive = unprobed = 0
            for xi, inst, vp in with_p:
                v = values[xi]
                pr = next((q for q in v.get("probes", []) if q["path"] == list(vp) + [p]), None)
                if pr is None:
                    unprobed += 1
                    continue
                if not pr["ok"]:
                    rej += 1
                    continue
                # accepted: make sure serde read the *same shape* (untagged enums may fall into another variant)
                vi = vindex(v["label"])
                untagged = d["kind"] == "enum" and (tagging == "untagged" or (vi is not None and d["variants"][vi]["attr"] == "untagged"))
                if untagged:
                    back = pr["back"]
                    try:
                        for step in vp:
                            back = back[step]
                    except (KeyError, IndexError, TypeError):
                        back = None
                    rest = [k for k in inst if k != p]
                    if not rest or not isinstance(back, dict) or any(k not in back or back[k] != inst[k] for k in rest):
                        inconclusive += 1
                        continue
                acc += 1
            xi0, inst0, vp0 = with_p[0]
            var, fld = resolve(d, vindex(values[xi0]["label"]), list(vp0) + [p], values[xi0]["json"], list(vp0) + [p])
            if (fld is not None and fld["attr"] in ("rename_ser_only", "rename_de_only")) or c.get("rename_all_form") == "ser_only":
                rep.ambiguous("requiredness-of-direction-specific-name")
                continue
            if acc and rej:
                rep.ambiguous("requiredness-probes-disagree")
                continue
            if not acc and not rej:
                rep.ambiguous("requiredness-unprobed" if unprobed else "requiredness-probe-inconclusive(untagged)")
                continue
            can_default = acc > 0
            expected = (not can_omit) and (not can_default)
            actual = p in req
            how = ("omittable+defaultable" if can_omit and can_default else "omittable" if can_omit
                   else "defaultable" if can_default else "always-written+needed")
            if expected == actual:
                rep.ok(("required:" if actual else "optional:") + how, nontrivial, not expected)
                continue
            flagged.add((sp, p))
            symptom = ("required-but-" + how) if actual else "optional-but-always-written+needed"
            viol(var, fld, symptom, key=p, value=values[xi0]["json"], schema_path=list(sp), schema=raw_schema)

    # ---- V(values)
    for xi, v in enumerate(values):
        if not judged(v):
            continue
        vi = vindex(v["label"])
        try:
            errs = explain(schema, v["json"], [], [], bmap.get(vi) if bmap and vi is not None else None)
        except Exception as e:  # noqa
            rep.machinery(f"validator raised {type(e).__name__} on {sg}: {e}")
            return
        classes = {}
        suppressed = 0
        for e_vp, e_sp, kw, detail in errs:
            keys = [k for k in e_vp if isinstance(k, str)]
            if kw == "oneOf-multiple-match" and problems:
                suppressed += 1               # removing the invalid keyword / dangling $ref made branches more permissive
                continue
            if kw == "required":
                node_sp = tuple(e_sp[:-1])    # the node that requires: schema path without the trailing 'required'
                if (node_sp, detail) in flagged:
                    suppressed += 1           # already reported by N/R at the same node and key
                    continue
                keys = keys + [detail]
                symptom = "value-rejected:required"
            else:
                symptom = f"value-rejected:{kw}" + (f":{detail}" if detail else "")
            var, fld = resolve(d, vi, keys, v["json"], e_vp)
            cls = f"C16/{construct(d, var, fld)}/{symptom}"
            if cls not in classes:
                classes[cls] = wit(symptom, value=v["json"], at=e_vp, schema_path=[str(x) for x in e_sp], schema=raw_schema)
        if not errs:
            kind = "enum-" + tagging + "-" + d["variants"][vi]["kind"] if d["kind"] == "enum" and vi is not None else "struct-" + d.get("shape", "")
            rep.ok("value-validates:" + kind, nontrivial, d["kind"] == "enum" and tagging != "external")
        elif not classes:
            rep.ok("value-rejected-only-through-a-defect-reported-above", nontrivial, False)
        for cls, w in classes.items():
            rep.violation(cls, nontrivial, w)
    if len(rep.r["samples"]) < 6 and values and (d["index"] % 37 == 0):
        rep.sample({"type": sg, "schema": raw_schema, "value": values[0]["json"],
                    "probes": [{"delete": q["path"], "serde_accepts": q["ok"]} for q in values[0].get("probes", [])][:4]})


def main():
    inp = json.load(open(sys.argv[1]))
    t0 = time.time()
    rep = Report(inp["tier"], inp["shard"], inp["nshards"])
    cap = float(inp.get("wall_cap_s") or 0)
    n = nvalues = nprobes = nrej = 0
    for i, d in enumerate(inp["types"]):
        if i % inp["nshards"] != inp["shard"]:
            continue
        if cap and time.time() - t0 > cap:
            rep.r["capped"] = True
            break
        d["index"] = i
        o = inp["obs"].get(d["id"])
        rj = inp["rejected"].get(d["id"])
        try:
            check_type(d, o, rj, rep)
        except Exception as e:  # noqa
            import traceback
            rep.machinery(f"checker crashed on {d.get('sig')}: {type(e).__name__}: {e}: {traceback.format_exc()[-400:]}")
        n += 1
        nrej += rj is not None
        if o:
            nvalues += len(o.get("values", []))
            nprobes += sum(len(v.get("probes", [])) for v in o.get("values", []))
    rep.r["extra"] = {
        "rule": inp.get("rule", ""), "bounds": inp.get("bounds", {}),
        "sum_types_examined": n, "sum_values_serialized": nvalues, "sum_requiredness_probes": nprobes,
        "sum_types_rejected_by_derive": nrej,
    }
    rep.r["wall_s"] = time.time() - t0
    json.dump(rep.r, open(sys.argv[2], "w"))


if __name__ == "__main__":
    main()
