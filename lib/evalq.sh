#!/bin/sh
# usage: evalq.sh <tag> <ID> <name1> <name2> [extra ids]   evaluates change1/change2 of /tmp/r_<ID> in check sandbox /tmp/b_<tag>, then removes the agent worktree
tag=$1; id=$2; n1=$3; n2=$4; shift 4
cd /verif
python3 lib/eval_seeded_sb.py $tag /tmp/r_$id $id 1 $id-$n1 "$@" > /tmp/b_$tag/report/$id-1.log 2>&1
python3 lib/eval_seeded_sb.py $tag /tmp/r_$id $id 2 $id-$n2 "$@" > /tmp/b_$tag/report/$id-2.log 2>&1
git -C /repo worktree remove --force /tmp/r_$id/repo; rm -rf /tmp/r_$id/demo_target
echo "evalq $id done"
