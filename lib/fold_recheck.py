#!/usr/bin/env python3
"""Fold the results of lib/recheck_in_sandbox.py (/tmp/b_*/report/results.jsonl) back into seeded/*/meta.json and
benign/*/meta.json:  seeded: detected_by := checks that exited 1 (missed_at_first is kept/set when it was empty before);
benign: alarms := checks that did not exit 0.   usage: lib/fold_recheck.py [round label]"""
import glob, json, os, sys
label = sys.argv[1] if len(sys.argv) > 1 else "recheck"
n = {"seeded": 0, "benign": 0}; missed = []; alarms = []
for f in sorted(glob.glob("/tmp/b_*/report/results.jsonl")):
    for line in open(f):
        r = json.loads(line)
        if "done" in r: continue
        mp = f"/verif/{r['kind']}/{r['name']}/meta.json"
        m = json.load(open(mp))
        if not r.get("applies"):
            m["patch_applies_to_current_tree"] = False
            json.dump(m, open(mp, "w"), indent=1); continue
        checks = r["checks"]
        m["checks_quick"] = checks
        m["rechecked"] = f"{label}: sandbox run (lib/recheck_in_sandbox.py)"
        if r["kind"] == "seeded":
            det = [c for c, v in checks.items() if v["exit"] == 1]
            if not (m.get("detected_by") or []) and det and "missed_at_first" not in m: m["missed_at_first"] = True
            m["detected_by"] = det
            if not det: missed.append((r["name"], {c: v["exit"] for c, v in checks.items()}))
        else:
            al = [c for c, v in checks.items() if v["exit"] != 0]
            m["alarms"] = al
            if al: alarms.append((r["name"], {c: v["exit"] for c, v in checks.items()}))
        n[r["kind"]] += 1
        json.dump(m, open(mp, "w"), indent=1)
print(n); print("seeded not detected:", missed); print("benign with alarms:", alarms)
