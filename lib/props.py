"""Per-property metadata for the driver (levels, worker counts, assumptions)."""

COMMON_ASSUMPTIONS = [
    "features rt_tokio,sse,openapi on x86-64 Linux; other runtimes are not built",
    "the harness build uses opt-level 2 with debug-assertions and overflow-checks on (profile `verif`), hooks enabled by --cfg ohkami_verif",
    "values outside the stated alphabets / bounds are not covered (DESIGN.md section 9)",
]

ROUTER_ASSUMPTIONS = COMMON_ASSUMPTIONS + [
    "applications are assembled at run time through the add-only hook DynRouting (same register_handlers / merge_another / Dir code a tuple of routing items goes through)",
    "requests are delivered as one read on a fresh connection (segmentation is C06's concern)",
]

PROPS = {
    "C01": {
        "wall_cap_s": {"thorough": 3000},
        "level": "model_checking",
        "technique": "explicit enumeration of all configurations (route sets x method sets x declaration shapes x registration orders) and all requests of a collision-forcing alphabet, each dispatched on the real router and compared with a reference matcher and across registration orders",
        "engine": "vmc",
        "level_text": "Bounded exhaustive exploration of configuration x input space: every route set of size <=2 over depth <=2 (quick) / size <=2 over depth <=3 and size 3 over depth <=2 (thorough) on segments {a, ab, b, :p}, every method-set assignment, seven declaration shapes, every registration order, every request of the per-set alphabet (static segments, their one-byte extensions and prefixes, empty and percent-encoded segments, trailing slashes, 7 methods). Every case runs on the real registration, finalization, Request::read, Router::handle and Response::send.",
        "level_note": "Trusted: the reference matcher (table + segment comparison, 4 readings where the statement is open: greedy vs backtracking, per-method vs all-routes preference; cases where the readings differ are counted as ambiguous, never alarmed) and the independent HTTP response parser. Not covered: other segment texts, route sets larger than 3, depth > 3.",
        "jobs": {"quick": 16, "thorough": 16},
        "assumptions": ROUTER_ASSUMPTIONS,
        "min_outcomes": 6,
    },
    "C02": {
        "level": "exploration",
        "technique": "deviation-bounded exhaustive enumeration of request byte strings (0, 1, 2 departures from well-formed) through the real Request::read and every public accessor, against an independent reference parser of the supported subset; stalls are decided by a counting-waker executor, not timed",
        "engine": "vmc",
        "level_text": "Bounded exhaustive exploration of the input space organised by deviations: deviation 0 = the full product of menus (methods x 12 targets x ordered selections of 0..2 (quick) / 0..3 (thorough) header lines from a 13-line menu covering canonical/lower/mixed-case standard names, custom names in two cases, repeated names, empty and odd values x bodies incl. NUL-leading ones and bodies ending exactly at / one past the 1 KiB buffer, plus heads ending within one byte of the buffer); deviation 1 = each of 36 structural edits and every truncation point; deviation 2 (thorough) = pairs on every 5th base. Every byte string is the first read of a fresh connection through the real parser; accepted requests have every accessor called under catch_unwind; refusals are serialized by the real send and re-parsed.",
        "level_note": "Trusted: the reference parser of the subset (refmodel/httpreq.rs, unit-tested), which decides complete / incomplete / invalid; the scripted reader models one read(2) returning min(available, buffer) bytes and then nothing. Whitespace around values, equal duplicate Content-Length, leading-zero lengths and heads larger than the buffer are counted as ambiguous. Byte values outside the menus and requests arriving in several reads (C06) are not covered here.",
        "jobs": {"quick": 16, "thorough": 16},
        "assumptions": COMMON_ASSUMPTIONS + ["the whole byte string is handed over by the first read; afterwards the reader answers Pending without registering a waker"],
        "min_outcomes": 8,
    },
    "C03": {
        "level": "model_checking",
        "technique": "breadth-first exploration of all operation histories on the real Response object up to a depth, with state merging only on the fingerprint of the implementation's complete state; every reached state is serialized by the real send and re-parsed by an independent HTTP parser, compared with a reference model of the history",
        "engine": "vmc",
        "level_text": "Explicit-state exploration of the history space: 25 public operations (set/append/remove on Server, Vary, Content-Type, Content-Encoding; set/append/remove on two custom headers; Set-Cookie with/without directives; text/JSON/HTML/raw payloads; drop_content; set_stream) x statuses {200,204,404,500} x {GET,HEAD}. Phase 1: every history up to depth 4 (quick) / 5 (thorough) with no merging. Phase 2: BFS to depth 5 / 7, merging two histories only when the hook-provided fingerprint of the complete internal header state (slot table, value vector with dead entries, size counter, custom map, cookie list) and the content are identical, which cannot hide history-dependent behaviour. The capacity assertion hook turns any write beyond the reserved size into a reported overrun.",
        "level_note": "Trusted: the reference model (live headers with latest values + body), the independent response parser, hooks H4 (capacity assertion inside push_unchecked!) and H5 (state fingerprint). Deliberately outside the alphabet: hand-written Content-Length/Transfer-Encoding and statuses 1xx/304 (the statement is silent / the framework documents them as the user's responsibility).",
        "jobs": {"quick": 12, "thorough": 12},
        "assumptions": ROUTER_ASSUMPTIONS,
        "min_outcomes": 6,
    },
    "C04": {
        "level": "model_checking",
        "technique": "explicit enumeration of all application trees of a bounded grammar and all requests of a path alphabet; the per-request fang trace of the real router is compared with the onion order computed from the tree",
        "engine": "vmc",
        "level_text": "Bounded exhaustive exploration of configuration x input space: application trees of 4 shapes (single, parent-child, two children, three levels) over mount prefixes {/a, /a/b, /:p, /b}, 0..2 fangs per application (hand-written Fang/FangProc and FangAction), own-route menus incl. local fangs, both Ohkami::new and Ohkami::with, a blocking fang at every position, a sweep of every fang tuple arity 0..8 and local-fang arity 0..4; every path of depth <=3 (quick) / <=4 (thorough) over {a,b,x,y,z} with and without trailing slash, 5 methods. Every case runs on the real registration/finalization/dispatch code.",
        "level_note": "Trusted: the order computed from the description (enclosing applications by mount-prefix match, declaration order, local fangs, reverse on the way out) and the C01 reference matcher for hit/miss. Requests whose routing the C01 statement leaves open are counted as ambiguous. Only trees satisfying the statement's precondition (no overlap between a mount prefix and a sibling route or mount) are generated.",
        "jobs": {"quick": 16, "thorough": 16},
        "assumptions": ROUTER_ASSUMPTIONS,
        "min_outcomes": 6,
    },
    "C05": {
        "level": "model_checking",
        "technique": "exhaustive enumeration of all request histories up to a depth on one connection through the real read/handle/send code under a controlled executor; differential oracle against fresh connections; the session-loop model is bound to the real Session::manage by replaying histories over loopback TCP in lock-step",
        "engine": "vmc",
        "level_text": "History-space exploration: all sequences of length <=4 (quick) / <=6 (thorough) over 20 requests (hit, 404, two params, bodies of 3 bytes / NUL-leading / NUL in the middle / ending exactly at and one past the 1 KiB buffer / 2 KiB, custom+repeated headers, context-setting fang, HEAD, long query, malformed, short PUT, three requests refused after a query or header lines were stored, a query-less request with `=` in a header, Connection: close), one segment per request, on a single RawConn reused through the harness copy of the session loop; every response must be byte-identical to the one the request gets alone on a fresh connection, nothing may follow Connection: close, no stall at a request boundary. All histories of length <=2 (quick) / <=2 plus a fifth of length 3 (thorough) are replayed against the real Session::manage over TCP; model and implementation must produce the same bytes and the same close outcome (mismatch = exit 2).",
        "level_note": "Trusted: the 15-line harness copy of the session loop as a model of session/mod.rs (bound by the TCP replays), the scripted reader's lock-step delivery (next segment only when the loop is Pending in a read), the clock hook. Handlers that panic are outside the alphabet.",
        "jobs": {"quick": 8, "thorough": 16},
        "assumptions": COMMON_ASSUMPTIONS + ["loopback TCP in the sandbox behaves like TCP (segments written with TCP_NODELAY after the peer has drained its queue arrive as separate reads)"],
        "min_outcomes": 3,
    },
    "C06": {
        "level": "model_checking",
        "technique": "exhaustive enumeration of read segmentations (all cut sets up to a size) of request streams, delivered in lock-step to the real read/handle/send code under a controlled executor; oracle: same responses as the per-request segmentation; bound to the real Session::manage by TCP replay",
        "engine": "vmc",
        "level_text": "Schedule-space exploration, deviation-bounded by the number of cuts: 110 streams (10 single requests, 100 ordered pairs; bodies none / plain / NUL-leading / spanning the buffer end) x every cut set of size 0 and 1 (all positions) and 2 (all positions on streams <=160 bytes, structural neighbourhoods otherwise), thorough also 3 cuts on streams <=200 bytes. Oracle: response sequence and end state equal those of the one-segment-per-request delivery. 0/1-cut (thorough: also 2-cut) schedules of the shortest streams are replayed over real TCP against Session::manage.",
        "level_note": "Trusted: as C05. The two defects this check found on the unchanged tree (one read() per request head; bytes after the first request in a read dropped) were repaired (known_findings.json, status fixed): no finding is suppressed.",
        "jobs": {"quick": 16, "thorough": 16},
        "assumptions": COMMON_ASSUMPTIONS + ["loopback TCP in the sandbox behaves like TCP"],
        "min_outcomes": 4,
    },
    "C07": {'level': 'exploration',
     'technique': 'exhaustive enumeration of requests (param segments over a collision-forcing token alphabet plus per-width boundary values; Content-Type x body '
                  'x query tables) against every handler signature of a compile-time catalogue, each dispatched on the real read/route/extract/send path and '
                  'compared slot by slot with independent reference decoders',
     'engine': 'vmc',
     'level_text': 'Bounded exhaustive exploration of configuration x input space: one application holding 642 handler signatures (13 param types in the forms P '
                   'and (P,), also as one-param handlers on two-param routes; all 169 (P1,P2) pairs; all 210 sets of 1..4 extractors from {Query, JSON, '
                   'URLEncoded, Multipart, Text} x {required, Option}, each under the no-param form and one of the three param forms, so that all 20 IntoHandler '
                   'impls are instantiated). Param segments: every string of <=5 (quick) / <=7 (thorough) tokens over {0,1,9,-,+,a,%31,%FF} plus 81 boundary '
                   'values (MIN-1, MIN, MAX, MAX+1 of every width, 2^64, 2^64+1, 10^40, leading zeros, signs, escaped digits); all pairs of segments of <=1 '
                   '(quick) / <=3 (thorough) tokens or boundary values for two-param routes; 22 Content-Types (absent, exact, +charset, upper-case, longer type '
                   'with the same prefix, a different type mentioning the type in a parameter, a different type) x 20 bodies x 16 query strings for extractor '
                   'routes. Every case runs on the real Request::read, Router::handle, FromParam/FromRequest extraction and Response::send; handlers echo their '
                   'typed arguments.',
     'level_note': "Trusted: Rust's str::parse for integers, serde_json for JSON bodies, the harness's own percent-decoder, split-on-&/= decoder and strict "
                   "multipart text-field reader, the independent HTTP response parser. Where the statement is silent (leading '+', &str with an escaped segment, "
                   'upper-case Content-Type, matching Content-Type with an empty body, Option<Query> without a query string, urlencoded input outside the clean '
                   'key=value grammar) every defensible outcome is admitted and the case is counted as ambiguous. Not covered: requests larger than the 1 KiB '
                   'connection buffer, multipart decoding beyond four hand-made bodies (C10), urlencoded corner cases (C09), the release-profile (wrapping) '
                   'flavour of the arithmetic defects.',
     'jobs': {'quick': 8, 'thorough': 16},
     'assumptions': ['features rt_tokio,sse,openapi on x86-64 Linux; other runtimes are not built',
                     'the harness build uses opt-level 2 with debug-assertions and overflow-checks on (profile `verif`), hooks enabled by --cfg ohkami_verif',
                     'values outside the stated alphabets / bounds are not covered (DESIGN.md section 9)',
                     'applications are assembled at run time through the add-only hook DynRouting (same register_handlers / merge_another / Dir code a tuple of '
                     'routing items goes through)',
                     "requests are delivered as one read on a fresh connection (segmentation is C06's concern)",
                     'reference: integers = str::parse::<T>() on the RFC 3986 percent-decoded segment; JSON = serde_json into an equally shaped type; '
                     'Query/URLEncoded = split on & and first =, percent-decoding, u16 via str::parse; Multipart = strict RFC 7578 text fields; Text = UTF-8 check',
                     "a request 'carries' a body item iff its Content-Type's type/subtype equals the extractor's media type (parameters allowed) and the body is "
                     'not empty',
                     'the build has overflow-checks on: arithmetic overflow inside the subject shows as a panic (the wrapping flavour of the same defects is not '
                     'run)'],
     'min_outcomes': 8},
    "C08": {'level': 'exploration',
     'technique': 'bounded exhaustive enumeration of byte strings (all token strings up to a length bound, plus all <=k-edit variants of well-formed skeletons) x '
                  'a 63-type serde target catalogue, each call executed on the real decoder in an isolated child process; oracle = totality + UTF-8 re-validation '
                  '+ pointer-range check of every borrowed slice',
     'engine': 'vmc',
     'level_text': 'Bounded exhaustive exploration: for each network-facing decoder (serde_urlencoded::from_bytes, Request.query parse/iter, '
                   'serde_cookie::from_str, util::iter_cookies, Set-Cookie parsing via ResponseHeaders::SetCookie, percent_decode(_utf8), '
                   'FromParam::from_raw_param, Path::str/deref/fmt/params, serde_multipart::from_bytes, serde_utf8::from_str) every string of at most N tokens '
                   'over a 6-12 token alphabet and every variant with at most k token edits of each well-formed skeleton is decoded into every type of a 63-type '
                   'catalogue covering all serde entry points. Exhaustive inside those bounds, nothing sampled.',
     'level_note': "Trusted: the harness's pointer-range / UTF-8 checks, fork-based isolation (a call that kills its process is attributed exactly through a "
                   'shared page), and the tolerant input classifiers used only for class ids. Undefined behaviour that neither panics, aborts, trips a debug '
                   'assertion nor shows in a yielded value is not observed (no Miri pass). Inputs outside the alphabets and longer than the bounds are not '
                   'covered.',
     'jobs': {'quick': 16, 'thorough': 16},
     'wall_cap_s': {'quick': 35, 'thorough': 660},
     'min_outcomes': 8,
     'assumptions': ['features rt_tokio,sse,openapi on x86-64 Linux; other runtimes are not built',
                     'the harness build uses opt-level 2 with debug-assertions and overflow-checks on (profile `verif`), hooks enabled by --cfg ohkami_verif',
                     'values outside the stated alphabets / bounds are not covered (DESIGN.md section 9)',
                     'serde_cookie::from_str, serde_utf8::from_str, util::iter_cookies and Set-Cookie parsing take &str: raw 0xFF cannot be passed, its place in '
                     'those alphabets is taken by a two-byte non-ASCII character (percent-escapes still produce 0xFF after decoding)',
                     'SetCookie::from_raw is crate-private: Set-Cookie texts are injected through the public builder, once as the cookie name and once as the Path '
                     'directive (raw, unescaped positions)',
                     'arithmetic symptoms are those of a build with overflow-checks and debug-assertions on (panic); the wrapping behaviour of a release build is '
                     'not re-run',
                     'a call that makes no progress for 20 s is reported as a hang (decoders take microseconds)']},
    "C09": {'level': 'exploration',
     'technique': 'bounded exhaustive enumeration of values (full product of finite field domains over 33 shapes) and of well-formed key=value texts (all '
                  'sequences of <=3 pairs over keys x percent-escaped values), compared with an independent split-and-percent-decode reference and with a '
                  'reference encoder (three routes: crate->crate, crate encoder->reference decoder, reference encoder->crate decoder)',
     'engine': 'vmc',
     'level_text': "Bounded exhaustive exploration: every value of each shape's finite domain (booleans, integers at MIN/-1/0/1/MAX, 9 floats compared bitwise, "
                   'chars and all strings of length <=3 over 10 characters including reserved, non-ASCII and astral ones, options, unit enums, newtypes, sequences '
                   'of length 0..3, string maps) is serialized with serde_urlencoded::to_string and read back; every text of at most 3 (quick) / 5 (thorough) '
                   'pairs over 4 keys x 9 values is decoded into 6 targets, through from_bytes, through Request.query.parse and through Request.query.iter, and '
                   'compared with the reference.',
     'level_note': 'Trusted: the 120-line reference codec in harness/src/refmodel/urlenc.rs (self-tested on RFC 3986 examples) and Debug-format equality of values '
                   '(bitwise for floats except NaN payloads). Texts with malformed escapes, duplicate known keys, and `k=` into Option fields are counted '
                   'ambiguous because the statement does not define them.',
     'jobs': {'quick': 8, 'thorough': 16},
     'wall_cap_s': {'quick': 35, 'thorough': 600},
     'min_outcomes': 6,
     'assumptions': ['features rt_tokio,sse,openapi on x86-64 Linux; other runtimes are not built',
                     'the harness build uses opt-level 2 with debug-assertions and overflow-checks on (profile `verif`), hooks enabled by --cfg ohkami_verif',
                     'values outside the stated alphabets / bounds are not covered (DESIGN.md section 9)',
                     '`+` is a literal character (RFC 3986), not a space (HTML form rules) - the statement names RFC 3986',
                     'values are compared through their Debug rendering (injective for the types used; floats bitwise except NaN payload)',
                     'the query string is delivered in a real request line read by Request::read (hook H2 RawConn)']},
    "C10": {'level': 'exploration',
     'technique': 'bounded exhaustive enumeration (model-checking family, no sampling): every form of <=3 parts over a part alphabet x boundary x encoder option '
                  'set x target struct; bodies come from an independent RFC 7578 encoder, are decoded by the real serde_multipart::from_bytes (one family through '
                  'a real Multipart<T> handler over read -> router -> send) and compared field by field with the form',
     'engine': 'vmc',
     'level_text': 'Bounded exhaustive exploration of the configuration x input space: 5 families, each a full product (quick: all forms of <=2 parts over 128 '
                   'part kinds x 3 boundaries x 2 option sets x 8 targets, all 3-part forms over reduced alphabets, the empty-file convention up to 3 parts, '
                   'non-identifier names, 2-part forms through a real handler; thorough: 152 kinds for <=2 parts with all 24 option sets, all 3-part forms over '
                   '128 kinds x 3 boundaries x 7 option sets x 8 targets = 2.6e8 cases). Decides the statement inside these bounds only; nothing is sampled.',
     'level_note': "Trusted: the harness's RFC 7578 encoder (bound to the grammar by a strict reference decoder run on every body of the <=2-part families) and "
                   "the 'fit' table that says what a form means for a field kind; where the statement is silent (undeclared parts, two inputs sharing a name, "
                   'empty text into Option, absent Content-Type, the empty form) a set of outcomes is admitted and the case is counted as ambiguous. Contents '
                   'outside the alphabet (long bodies, other byte values) and more than 3 parts are not covered. Cases that kill the process are attributed '
                   'through per-unit child processes.',
     'jobs': {'quick': 8, 'thorough': 16},
     'assumptions': ['features rt_tokio,sse,openapi on x86-64 Linux; other runtimes are not built',
                     'the harness build uses opt-level 2 with debug-assertions and overflow-checks on (profile `verif`), hooks enabled by --cfg ohkami_verif',
                     'values outside the stated alphabets / bounds are not covered (DESIGN.md section 9)',
                     'a form is inside the domain only if CRLF `--` boundary occurs exactly where the encoder put it (a content that starts with the dash-boundary '
                     'forms a delimiter with the CRLF of the empty header line and is skipped)',
                     'an empty file input is the browser encoding filename="" with no content; it must decode to None / an empty list (DESIGN section 5 C10)',
                     'file without Content-Type: mimetype "" and the RFC 7578 default text/plain are both admitted',
                     'the worker is single-threaded, so fork() without exec is used to contain process aborts (unreachable_unchecked checks) of the subject']},
    "C11": {'level': 'exploration',
     'technique': 'bounded exhaustive enumeration (model-checking family, no sampling): request side = every jar of 1..3 (thorough: 4 on a reduced alphabet) '
                  'cookies with distinct names, each value in every wire form RFC 6265 allows, decoded by the real serde_cookie::from_str into 8 struct shapes and '
                  'read through Request.headers.Cookies() in a real handler; response side = every name x value x directive combination through '
                  'SetHeaders::SetCookie, re-read by an independent RFC 6265 Set-Cookie parser, by headers.SetCookie() and from the bytes written by send',
     'engine': 'vmc',
     'level_text': 'Bounded exhaustive exploration of the input space: quick = all jars of <=2 cookies over 160 (name, value, wire form) cookies plus all 3-cookie '
                   'jars over 110 cookies, x (8 targets + iterator) = 5.9e6 cases, and 5 names x 11 values x 512 directive combinations plus 2-cookie responses; '
                   'thorough = all jars of <=3 over 160 cookies, 4-cookie jars over 95 cookies (1.6e8 cases), 768 directive combinations, 61 504 two-cookie '
                   'responses. Decides the statement inside these bounds only; nothing is sampled.',
     'level_note': "Trusted: the harness's cookie encoder/strict readers (self-tested on the RFC 6265 examples, the encoder is bound to the grammar by the strict "
                   'Cookie reader on every jar of the full alphabet) and the percent convention (a value is what the wire form percent-decodes to). Ambiguous by '
                   'decision: a plain `%41` (value or encoding of `A`), empty value vs None for Option fields, percent-encoded text into &str, Max-Age=0 (outside '
                   'the strict section 4.1.1 grammar, accepted by every user agent). Jars with repeated names, names outside the five tokens and values outside '
                   'the eleven strings are not covered.',
     'jobs': {'quick': 8, 'thorough': 16},
     'assumptions': ['features rt_tokio,sse,openapi on x86-64 Linux; other runtimes are not built',
                     'the harness build uses opt-level 2 with debug-assertions and overflow-checks on (profile `verif`), hooks enabled by --cfg ohkami_verif',
                     'values outside the stated alphabets / bounds are not covered (DESIGN.md section 9)',
                     'cookie names are RFC 9110 tokens and pairwise distinct within a jar; undeclared cookies must be ignored by the typed decoder',
                     'Expires/Domain/Path directive values are well-formed (one rfc1123 date, one host name, up to three paths); only their presence is varied',
                     'SameSite is read with the RFC 6265bis attribute grammar (RFC 6265 itself would see an extension-av)',
                     'the worker is single-threaded, so fork() without exec is used to contain process aborts of the subject']},
    "C12": {'level': 'exploration',
     'technique': 'exhaustive enumeration of configurations x token edit families through the real request path against an independent JWT reference (bounded '
                  'model checking of an input/configuration space)',
     'engine': 'vmc',
     'level_text': 'Bounded exhaustive exploration: 6 secrets x HS256/384/512 x two payload types behind a one-route application with a pinned clock; per '
                   'configuration ~110 payloads issued by the real JWT::issue (full product of integer exp/nbf/iat at now-1/now/now+1, negative / fractional / '
                   'float / non-numeric claims) plus ~40 payload texts signed by the reference; per accepted token the complete edit families (part counts, '
                   'signature lengths and encodings, re-signing with every other secret and algorithm, ~40 header variants each signed / wrongly signed / '
                   'unsigned, where the token is carried, methods) and, for selected tokens (quick) or all accepted ones (thorough), EVERY single-character '
                   'substitution over base64url + `.=+/` at every position plus every deletion / insertion; all Authorization strings of <= 4 (5) symbols over a '
                   '7-symbol alphabet. Each case runs read -> router -> fang -> handler -> send on the real code and is compared with an in-harness recomputation.',
     'level_note': 'Trusted: the SHA-2 compression functions of the `sha2` crate (HMAC construction, base64url, JSON reading, decimal comparison of time claims '
                   'and the token grammar are re-implemented in harness/src/refmodel/{jwt,b64}.rs and bound to Python hmac+hashlib by 18 fixed vectors checked at '
                   'start-up). Not covered: secrets, payloads and header texts outside the alphabets, tokens that differ from a valid one in more than one '
                   'character, `get_token_by` customisation, requests larger than the 1 KiB read buffer.',
     'jobs': {'quick': 8, 'thorough': 16},
     'min_outcomes': 8,
     'assumptions': ['features rt_tokio,sse,openapi on x86-64 Linux; other runtimes are not built',
                     'the harness build uses opt-level 2 with debug-assertions and overflow-checks on (profile `verif`), hooks enabled by --cfg ohkami_verif',
                     'values outside the stated alphabets / bounds are not covered (DESIGN.md section 9)',
                     'clock pinned through the H3 hook (ohkami::__verif__::set_clock); `exp` admits now iff now < exp, `nbf`/`iat` admit now iff value <= now, '
                     'compared as exact decimals',
                     'a correctly signed token whose header is not byte-identical to the issued one, a non-numeric time claim, duplicate member names, `bearer` in '
                     'another case or with extra blanks, and payloads that do not fit the typed handler are NOT decided by the statement: counted as ambiguous, '
                     'never as violations',
                     'OPTIONS: only `handler did not run` is demanded',
                     'refusal = handler not run and status >= 400 (the statement does not fix 400 vs 401)']},
    "C13": {'level': 'exploration',
     'technique': 'exhaustive enumeration of pair-list configurations x Authorization values through the real request path against an independent '
                  'base64/credential reference (bounded model checking of an input/configuration space)',
     'engine': 'vmc',
     'level_text': 'Bounded exhaustive exploration: every ordered list of 1..3 distinct pairs over an 8-pair alphabet (empty parts, colon in password, non-ASCII, '
                   'prefixes of each other), installed as BasicAuth and as [BasicAuth; N] (408 configurations); per configuration the base64 of every user x '
                   'password combination in canonical and every near-miss encoding (no / half / extra padding, URL-safe alphabet, non-canonical last symbol), '
                   'scheme and spacing variants, other schemes, non-UTF-8 credentials with the offending byte at every position, EVERY credential byte string of '
                   '<= 5 (7) symbols over {u,p,:,q,ue,0xFF}, and every one-symbol substitution / deletion / insertion of every correct header value; GET and POST. '
                   'Each case runs read -> router -> fang -> handler -> send on the real code.',
     'level_note': 'Trusted: Rust std UTF-8 validation; base64 is re-implemented strictly in harness/src/refmodel/b64.rs (self-tested on RFC 4648 vectors and '
                   'exhaustively against the base64 crate on short strings). Not covered: pairs outside the alphabet, user names containing a colon, several '
                   'Authorization headers, requests larger than the read buffer.',
     'jobs': {'quick': 8, 'thorough': 16},
     'min_outcomes': 8,
     'assumptions': ['features rt_tokio,sse,openapi on x86-64 Linux; other runtimes are not built',
                     'the harness build uses opt-level 2 with debug-assertions and overflow-checks on (profile `verif`), hooks enabled by --cfg ohkami_verif',
                     'values outside the stated alphabets / bounds are not covered (DESIGN.md section 9)',
                     '`the base64 of user:password` is read as the canonical padded RFC 4648 section 4 text (RFC 7617); unpadded and URL-safe spellings must be '
                     'refused',
                     'right credentials under a scheme spelled in another case, with several blanks after the scheme, with blanks around the field value, or with '
                     'non-zero unused bits in the last symbol are NOT decided by the statement: counted as ambiguous',
                     'refusal = handler not run, status 401 and exactly one WWW-Authenticate header whose value starts with `Basic`']},
    "C14": {
        "level": "model_checking",
        "technique": "explicit enumeration of policies x route sets (method subsets) x declaration shapes x registration orders and of all simple and preflight requests; every response of the real router behind the real CORS fang is compared with a reference CORS model fed with the policy and the route table",
        "engine": "vmc",
        "level_text": "Bounded exhaustive exploration of configuration x input space: 32 policies (wildcard/specific origin x credentials x allow-headers x expose-headers x max-age), every single route of depth <=2 over {a,ab,b,:p} with all 31 method subsets, every pair of routes with a 5-entry method-subset menu, eight declaration shapes (incl. one route declared in two HandlerSets and one route completed by a mounted application) and their registration orders; per configuration 7 simple methods + 16 preflight variants on every route instance, every prefix of it, one path below it, / and a miss path.",
        "level_note": "Trusted: the reference CORS model (headers on every response; preflight succeeds iff the requested method is registered for the route the path denotes, then advertises exactly the registered methods + HEAD with GET + OPTIONS, configured-or-echoed headers, configured max-age) and the C01 reference matcher. A preflight asking for OPTIONS itself and paths whose routing is open are counted as ambiguous. Quick tier rotates policies over route sets instead of taking the full product.",
        "jobs": {"quick": 16, "thorough": 16},
        "assumptions": ROUTER_ASSUMPTIONS,
        "min_outcomes": 5,
    },
    "C15": {'level': 'model_checking',
     'technique': 'explicit enumeration of applications (route sets x method assignments x handler signatures from a compile-time catalogue x declaration shapes x '
                  'registration orders x tag / JWT / BasicAuth placements); for each one the document produced by the real generator is compared with the route '
                  'table computed from the description, every embedded schema is validated under JSON Schema 2020-12, and one request per documented operation is '
                  'built from the document and dispatched on the real router of the same application',
     'engine': 'vmc + lib/c15_runner.py (python3-vt jsonschema judge for the dumped schema objects)',
     'custom_runner': 'c15_runner',
     'level_text': 'Bounded exhaustive exploration of the configuration space (programs are fixed: a catalogue of 28 handler signatures compiled into the harness, '
                   'each with a hand-written expectation record): (A) every catalogue handler on every single route of depth <=3 over {a, b, :p, :q} whose param '
                   "count is >= the handler's, flat and under a first-segment mount, plus all 31 method subsets; (B) route pairs (thorough: also triples) x method "
                   'assignments x all C01 declaration shapes (flat, split, mounts with static and param prefixes, nested, inline, split-mount) x registration '
                   'orders, handlers assigned by deterministic rotation; (C) route sets of size <=2 x shapes x root / child / local placements of Tag, JWT and '
                   'BasicAuth. states = applications whose document was generated and examined; transitions = document rules checked + requests sent + distinct '
                   'schema objects validated; every document comes from the real Ohkami::__openapi_document_bytes__ and every request runs through the real '
                   'Request::read / Router::handle / Response::send of the same Ohkami.',
     'level_note': 'Trusted: the expectation records of the catalogue (written from the documentation of extractors and return types; a self-check turns a record '
                   'that contradicts the status a handler really answers into exit 2), the route table / fang scope computed from the description, the '
                   '`jsonschema` package for Draft 2020-12, the independent HTTP response parser. Not demanded (statement silent): tags, operationId, '
                   'descriptions, `required` of request bodies, schema *contents* (C16), parameter types (only used to build requests). Outside the quantifier '
                   '(skipped and counted): descriptions the framework rejects at registration, the same route twice modulo param names for one method, handlers '
                   'behind both a JWT and a BasicAuth fang. Security of a handler that sits on the mount node of a foreign application is only checked for '
                   'document <-> run-time consistency (counted as ambiguous). Not covered: other segment texts, route sets > 3, depth > 3, Dir mounts, custom '
                   '`get_token_by` schemes, handler signatures outside the catalogue.',
     'jobs': {'quick': 8, 'thorough': 16},
     'wall_cap_s': {'quick': 35, 'thorough': 660},
     'assumptions': ['features rt_tokio,sse,openapi on x86-64 Linux; other runtimes are not built',
                     'the harness build uses opt-level 2 with debug-assertions and overflow-checks on (profile `verif`), hooks enabled by --cfg ohkami_verif',
                     'values outside the stated alphabets / bounds are not covered (DESIGN.md section 9)',
                     'applications are assembled at run time through the add-only hook DynRouting (same register_handlers / merge_another / Dir code a tuple of '
                     'routing items goes through)',
                     "requests are delivered as one read on a fresh connection (segmentation is C06's concern)",
                     'handler signatures are a fixed compile-time catalogue (28 entries); `programs` in the quantifier means this catalogue',
                     'a request `built from the document` fills {p} with a value of the documented type, sends required query parameters and the minimal body of '
                     "required members, and answers the first documented security requirement (token from the fang's own issue / the configured Basic pair)",
                     'media types are compared without parameters (`text/plain; charset=UTF-8` = `text/plain`)'],
     'min_outcomes': 8},
    "C16": {'level': 'exploration',
     'technique': 'exhaustive enumeration of type definitions (programs) from a bounded attribute grammar, compiled against the current tree; per type every '
                  'generated value and every key-deletion probe is compared with the derived schema (serde itself is the oracle, jsonschema Draft 2020-12 '
                  'validates)',
     'engine': 'schema_mc (lib/c16_runner.py: generated cargo crate + python3-vt jsonschema judge)',
     'custom_runner': 'c16_runner',
     'level_text': 'Bounded exhaustive exploration over programs: every type of the attribute grammar stated in coverage.bounds (field-name styles x rename_all '
                   'rules x field attributes x field types, enum taggings x variant-kind mixes x rename_all / rename_all_fields / variant attributes, container '
                   'attributes, attributes split over several #[serde] lines) is written out, compiled with derive(Schema) + serde derives against the working '
                   'tree and examined at run time on every generated value (every variant, every optional member present/absent). Exhaustive within the grammar; '
                   'nothing is sampled.',
     'level_note': 'Trusted: serde/serde_json as the oracle of the wire shape (observed, not re-implemented), the jsonschema package for Draft 2020-12 validation, '
                   'rustc diagnostics for attributing a rejected derive to its type. Types outside the grammar (generics, lifetimes, maps, more than 3 members, '
                   'attribute combinations beyond pairs) are not covered.',
     'jobs': {'quick': 8, 'thorough': 8},
     'wall_cap_s': {'quick': 50, 'thorough': 720},
     'min_outcomes': 4,
     'assumptions': ['features rt_tokio,sse,openapi on x86-64 Linux; other runtimes are not built',
                     'the harness build uses opt-level 2 with debug-assertions and overflow-checks on (profile `verif`), hooks enabled by --cfg ohkami_verif',
                     'values outside the stated alphabets / bounds are not covered (DESIGN.md section 9)',
                     "serde 1.0.229 / serde_json as resolved by the lock file define 'what serde reads and writes'; they are observed at run time, not modelled",
                     "the schema judged is the inline JSON form of <T as Schema>::schema() (components inline; $ref resolution into a document is C15's subject)",
                     'one-directional members (skip_serializing / skip_deserializing, direction-specific rename) are admitted either way (counted as ambiguous)',
                     'generated crate is built with opt-level 0 for its own code; ohkami and ohkami_macros come from the shared verif-profile target dir']},
    "C17": {'level': 'model_checking',
     'technique': 'explicit enumeration of all (message sequence, producer schedule, writer behaviour) triples for both DataStream constructors; every schedule is '
                  'executed on the real read -> Router::handle -> Response::send path under the harness executor (counted polls, exact stall detection, '
                  'environment moves made by the harness) and the bytes are de-chunked and parsed by an independent WHATWG event-stream parser',
     'engine': 'vmc',
     'level_text': "Bounded exhaustive exploration of schedule x input space: every sequence of 0..3 (quick) / 0..4 (thorough) messages over {a, '', a\\nb, a\\rb, "
                   "a\\r\\nb, ' a', 'data: x', a\\revent: y, \\n, ':c', e-acute} (thorough adds a\\n and a\\r), for DataStream::new (queue + producer future) and "
                   'DataStream::from (hand-written Stream), every assignment of {no yield, self-waking yield, yield woken later by the harness, two yields} to the '
                   'k+1 gaps before each message and after the last one (which includes bursts of pushes before a yield and completion of the producer with items '
                   'still queued), three writer behaviours (accepts all / at most 7 bytes per write / Pending once per write). Full product, nothing thinned. '
                   'states = (sequence, schedule) pairs executed, transitions = polls of the real futures, every trace runs on the implementation. In addition 90 '
                   'small cases run through the real Session::manage over loopback TCP and must produce byte-identical output (conformance of the harness-driven '
                   'sequence to the session loop), and one TCP case lets the producer outlast the keep-alive limit.',
     'level_note': 'Trusted: the harness executor (Pending without a requested wake and without a waiting scripted producer = stall), the independent '
                   "response/chunked reader (refmodel/http.rs) and the WHATWG event-stream parser (refmodel/sse.rs, self-tested on the standard's four examples). "
                   'Expected messages = the pushed texts with CRLF and CR rewritten to LF. Besides the final byte stream the check demands that, whenever the '
                   "producer waits for the outside world, all messages pushed so far are already decodable from the bytes written so far (reading of 'at any "
                   "pace'). Comments or unknown fields that leave the messages intact, and an explicit `event: message`, would be counted as ambiguous (none "
                   'occur). Not covered: other texts (NUL, BOM, very long lines), more than 4 messages, a client that disconnects mid-stream, runtimes other than '
                   'tokio.',
     'jobs': {'quick': 8, 'thorough': 16},
     'assumptions': ['features rt_tokio,sse,openapi on x86-64 Linux; other runtimes are not built',
                     'the harness build uses opt-level 2 with debug-assertions and overflow-checks on (profile `verif`), hooks enabled by --cfg ohkami_verif',
                     'values outside the stated alphabets / bounds are not covered (DESIGN.md section 9)',
                     'the request is a fixed `GET /` delivered in one read; the response is written into an in-memory scripted writer (no kernel socket buffer '
                     'effects)',
                     "a producer's wait for an outside event is modelled by a future that leaves its waker with the harness; the harness wakes it only when "
                     "everything else is quiescent (stall), which is the latest possible moment and therefore the most demanding one for 'nothing is withheld'",
                     '`two yields` = two consecutive self-waking yields',
                     'the socket part sets OHKAMI_KEEPALIVE_TIMEOUT=1 (default 42) and uses one real sleep of 1.5 s on a single-threaded tokio runtime; the '
                     'verdict depends only on the order of the two timer deadlines; heavy machine stalls can make this one case miss (never alarm falsely) or turn '
                     'a conformance comparison into a machinery failure (exit 2)'],
     'min_outcomes': 8},
    "C18": {
        "level": "model_checking",
        "technique": "stateless depth-first exploration (CHESS style, preemption-bounded, replay-based) of all interleavings of the real accept-loop poll and the real signal handler at hook-provided scheduling points, with a real SIGINT, one fresh process per schedule; plus exhaustive enumeration of session mixes x completion orders; plus loom (DPOR over the C11 memory model) on the WaitGroup source extracted from the working tree",
        "engine": "vmc (+ shutdown_child, one process per schedule) + harness_loom (loom over the extracted WaitGroup source)",
        "custom_runner": "c18_runner",
        "level_text": "(a) Interleaving space of the lost-wake-up protocol: threads P (the poll of howl's until_interrupt: before polling accept / after reading the flag as false / after publishing the waker) and H (ctrlc's handler thread: before store / after store / after swap / after wake) are stepped one atomic action at a time by a controller; environment events SIG (real SIGINT) and CONN (a client connects). All schedules within a preemption bound are explored depth-first by re-execution (quick: bound 4 without CONN, bound 2 with one CONN; thorough: bounds 8 / 5 / 4 for 0 / 1 / 2 CONN - bound 8 is the complete interleaving space for the first poll). Quiescence is decided (no enabled actor), the oracle is: howl returned <=> SIGINT was raised. (b) In-flight sessions: 0..2 (quick) / 0..3 (thorough) sessions of kinds {handler blocked on a harness gate, idle keep-alive connection} x every permutation of {SIGINT, session k finishes}; after every event: returned == (signal seen and all sessions finished), and every blocked handler still delivers its response.",
        "level_note": "Trusted: hook H6 (scheduling points placed between the atomic operations; the points themselves do not change the operations), the controller's canonical choice order, the child replaying a prefix exactly (any divergence is exit 2). Part (c), added in the fourth round: the source text of sync::WaitGroup is extracted from /repo's working tree by harness_loom/build.rs, its atomics are re-targeted at loom, and loom explores exhaustively (DPOR; unbounded for <=3 session threads, preemption bound 2-3 for 4-5; C11 memory model, so the Relaxed/Release/Acquire orderings of the counter are decided too) every interleaving of the accept thread (add per connection, then poll) with the session threads (work, then drop of the guard): Ready implies every session's work is complete and visible (loom reports a missing happens-before edge as a data race), Pending has asked for a wake-up, and at quiescence poll answers Ready. Trusted there: the textual extraction (evidence records the extracted region and howl's four lines that use it; the driver mirrors them), loom's model of C11. Not covered: the CATCH/WAKER statics under weak memory (all SeqCst), runtimes other than tokio (glommio's Mutex<Vec<Waker>> variant). The Promela extension of DESIGN section 5 was replaced by an explicit-state protocol model in the engine (section 12).",
        "jobs": {"quick": 16, "thorough": 16},
        "wall_cap_s": {"quick": 50, "thorough": 1500},
        "assumptions": COMMON_ASSUMPTIONS + ["tokio multi-thread runtime with 2 workers in the child; timing-dependent waits (reactor wake after CONN, settle times in the coarse part) can only cause exit 2 or confirm a due return, never an alarm"],
        "min_outcomes": 3,
    },
    "C19": {
        "level": "model_checking",
        "technique": "explicit enumeration of directory trees (materialized on disk) x omit-extension settings x mount routes x variants, and of all file / directory / traversal / encoding / near-miss requests; responses of the real router are compared with the path->(bytes, mime) map computed from the tree",
        "engine": "vmc",
        "level_text": "Bounded exhaustive exploration of configuration x input space: trees of 1..2 (quick, complete) / 1..3 (thorough, complete) entries from 8 file kinds (every supported text/binary extension class, an empty file, a 256-byte-values binary, index.html) x 4 directories nested <=2 deep, omit_extensions in {-, [html], [html,txt]}, mount routes /, /s, /s/t, variants {plain, sibling param route, symlink to a file outside, files modified/deleted/added after mounting}; per configuration every file path (GET/HEAD/POST, trailing slash), every directory path, .. / %2e%2e / // / %2F variants, near-miss names, paths of outside files.",
        "level_note": "Trusted: the path map computed from the tree description, the C01 reference matcher (for the sibling param route), the independent HTTP response parser. Trees the framework documents as unsupported (two files mapping to one path) are skipped and counted; `/index` with html omitted and percent-encoded ordinary characters are counted as ambiguous. Scratch trees live on tmpfs (/dev/shm) when available.",
        "jobs": {"quick": 16, "thorough": 16},
        "assumptions": ROUTER_ASSUMPTIONS + ["the directory tree is created by the harness on a local file system; only regular files, directories and one symlink are generated"],
        "min_outcomes": 8,
    },
    "C20": {
        "level": "exploration",
        "technique": "exhaustive enumeration of structured input families against an independent reference (bounded model checking of a pure function)",
        "engine": "vmc",
        "level_text": "Bounded exhaustive exploration: every day number 0..2932896 at two seconds, every second of 12+ boundary days, every n < 2e6 (quick) / 1e8 decimal, 2^27 hexadecimal (thorough) plus structured 64-bit families; thorough also every day at one instant of each of its 24 hours, each compared with an independent reference. Exhaustive within those ranges; a pure function needs no more than input enumeration.",
        "level_note": "Trusted: Hinnant's civil_from_days as re-implemented in the harness (self-tested on RFC 9110 examples) and Rust std integer formatting. Values between the enumerated families are not covered.",
        "jobs": {"quick": 8, "thorough": 16},
        "assumptions": COMMON_ASSUMPTIONS + [
            "reference: Hinnant civil_from_days + (days+4) mod 7, std formatting for numbers",
            "the statement's 'random 64-bit values' are replaced by structured families (powers +-1, at most two non-zero digits); nothing is sampled",
        ],
    },
}

HOOK_COMMITS = ["4846d14", "4c64919", "461eacc", "6e4d56e"]

ENGINES = [
    {"name": "openapi_mc", "path": "/verif/lib/c15_runner.py", "serves_properties": ["C15"],
     "kind_free_text": "python plug-in of ./check around the vmc engine harness/src/engines/c15.rs: runs the workers (applications assembled at run time from a compile-time handler catalogue, documents from the real __openapi_document_bytes__), then validates every distinct dumped schema under JSON Schema 2020-12 with jsonschema (python3-vt, lib/c15_check.py)"},
    {"name": "schema_mc", "path": "/verif/lib/c16_runner.py", "serves_properties": ["C16"],
     "kind_free_text": "python plug-in of ./check: enumerates type definitions from a bounded attribute grammar (lib/c16_gen.py), compiles them against the current tree, observes serde and the derived schema at run time (c16/common.rs), judges with jsonschema under python3-vt (lib/c16_check.py)"},
    {"name": "waitgroup_loom", "path": "/verif/harness_loom/src/main.rs", "serves_properties": ["C18"],
     "kind_free_text": "loom 0.7 (exhaustive DPOR exploration of thread interleavings under the C11 memory model) over the source text of ohkami's sync::WaitGroup, which harness_loom/build.rs extracts from /repo's current working tree and re-targets at loom's atomics; scenarios are run one process each by lib/c18_runner.py, which also runs the vmc part of C18"},
    {"name": "vmc", "path": "/verif/harness/src/bin/vmc.rs", "serves_properties": sorted(k for k in PROPS.keys() if k != "C16"),
     "kind_free_text": "hand-rolled stateless explorers in Rust linking the real ohkami crates by path; one module per property under harness/src/engines; worker processes sharded by the python driver ./check"},
]

_ALL = ["C%02d" % i for i in range(1, 21)]
NOT_APPLICABLE = [
    {"property_id": p, "reason": "check not built yet in this session (work in progress; the design in DESIGN.md section 5 applies model checking to it)"}
    for p in _ALL if p not in PROPS
]

# Dimensions added after the first version of the checks (second mutation round, remarks of sub-agents, see DESIGN.md 12.3/12.5)
_ADDENDA = {
    "C01": "Added: shape mount-root(i) (route i in an application mounted at `/`), all pairs of depth-3 routes sharing their first two segments also in the quick tier, and the rule that the same routing items must not be an application in one registration order and a registration failure in another.",
    "C02": "Added: every case runs a second time with the environment answer `peer closes after the last byte` (end-of-stream instead of Pending); opaque bodies (non-UTF-8 bytes, text whose multi-byte characters lie across the end of the buffer), a target whose query values contain raw `=`.",
    "C03": "Added: phase 3 (long runs): every cycle of <=2 (quick) / <=3 (thorough) operations repeated 1..300 times on one Response, checked after every repetition; a 204 must not carry Transfer-Encoding.",
    "C05": "Added: requests refused because the head exceeds the buffer (1100 / 2100 bytes), a request with only application-defined header fields; long runs: every cycle of <=2 session-keeping requests repeated 150 (quick) / 400 (thorough) times on one connection. After a request the parser refuses, `session ends` and `session goes on correctly` are both admitted. If the in-memory loop model does not reproduce the real session on fresh connections, every history up to length 3 / 4 is run against Session::manage over TCP instead (real-session-only mode).",
    "C08": "Added: phase C (long values): 0..48 ASCII bytes followed by a 2-, 3- and 4-byte character, raw and percent-encoded, into every target of the key=value decoders.",
    "C09": "Added: typed scalar sweep (percent-escaped integers, bools, chars, floats into {i32,bool,char,f64}), values with two sequence-like fields, a value with raw `=` and one whose escapes decode to non-UTF-8 bytes for the query iterator (lossy text demanded).",
    "C10": "Added: a media type with parameters; the form without fields; files of one name collected wherever their parts are, empty file inputs contributing nothing (oracle tightened).",
    "C11": "Added: the typed decoding of a jar must not depend on the order of its cookies (the reversed header is decoded too).",
    "C12": "Added: full-precision float payloads; histories of two: after every kind of request that is not admitted a freshly issued token must verify.",
    "C13": "Added: histories of two: after every request that is not admitted the exact credential of the first pair must be admitted.",
    "C14": "Added: allow-headers configured with zero entries (48 policies).",
    "C16": "Added: the nested struct of the grammar declares its fields in non-alphabetical order.",
    "C17": "Added: two more entry points - Response::with_stream over a user type implementing sse::Data, and Response::set_stream_raw.",
    "C18": "Added: at quiescence P is polled again only when a wake for it has arrived since its last poll began (no assumption about how howl leaves the accept loop); after the interrupt has been handled a new client must be refused (connect probe in part (b)).",
    "C20": "Added: histories of two calls of imf_fixdate: every day right after a later instant (1 s .. 1 year later), every second of one day in descending order; hexadecimal compared modulo leading zeros.",
}
for _k, _t in _ADDENDA.items():
    PROPS[_k]["level_text"] += " " + _t

_ADDENDA3 = {
    "C01": "Third round: every pair with two param routes is also run with the params of the second route renamed (`:q`).",
    "C02": "Third round: a refusal must declare its length (Content-Length or chunked coding).",
    "C05": "Third round: GET requests carrying a payload (one looking like a request); Connection: close removed from the request by a fang before the handler runs.",
    "C06": "Third round: a GET carrying a payload in the stream menu (11 requests, 132 streams).",
    "C10": "Third round: a 70-character boundary.",
    "C15": "Third round: routes capturing three params (`:p`,`:q`,`:r`); the `[BasicAuth; N]` entry point as root / child fang.",
    "C19": "Third round: one tree holding a file of every one of the 16 supported extensions.",
}
for _k, _t in _ADDENDA3.items():
    PROPS[_k]["level_text"] += " " + _t

_ADDENDA4 = {
    "C01": "Fourth round: punctuation sweep - every pair of routes of depth <=2 over {a, a-b, a.b, a_b, :p} with a punctuated name (all shapes and orders), every triple of depth <=1.",
    "C03": "Fourth round: phase 4 - payload sizes 0..300001 (buffer and 64 KiB boundaries +-1) x text/payload/html x the connection's answers per write (all, Pending once, at most 65536/4096/1000/7/1 bytes) x GET/HEAD x three prefixes; the by-name API with the name of a standard header (set/append/remove) in the operation alphabet.",
    "C10": "Fourth round: two closed target types (deny_unknown_fields): a body with an undeclared part must be refused.",
    "C14": "Fourth round: preflights with their CORS header names in lower / upper / first-letter-upper case; inner-guard trees (a guarded application mounted under /a, routes below /a declared on the root and by a third application, a guard local to one handler): the every-response clauses hold on the guard's refusal, on 404 and on 200, in every registration order.",
    "C15": "Fourth round: a JWT fang with a custom token source (documented as an apiKey scheme), used through a clone, at root / child / local; requests built from the document answer apiKey schemes.",
    "C06": "Fourth round: eight pipelined bursts (3-16 requests, 1.2-2.9 KiB, heads of 150/300/470/1000 bytes, one mixed with bodies): every 1-cut, 2-cuts on a grid.",
    "C09": "Fourth round: histories of two on one thread - after each of three serializations refused half-way the value must be written as before, after each of four refused texts the text must be read as before.",
    "C12": "Fourth round: compositions (Context fang of the payload type before the JWT fang, outer JWT reading another header + inner JWT, sibling mounts with different secrets incl. one a prefix of the other, the same fang on parent and child) x a token menu with cross-forged tokens x all histories of length <=2 (quick) / <=3 (thorough); witnesses carry the last rightly admitted request. Fifth round: a secret with surrounding white space.",
    "C13": "Fourth round: compositions (sibling mounts with different pair lists, single next to array entry point, parent and child, two instances sharing a user name) x every exact / mixed / unpadded / wrong credential x all histories of length <=2 (quick) / <=3 (thorough).",
    "C17": "Fourth round: fifth entry point `replaced` (a response whose stream is replaced by another stream before it is sent).",
    "C18": "Fourth round: every poll of howl gets a waker of its own generation and only a wake on the latest one counts (the contract of Future::poll); loom scenarios with session threads that unwind (guard dropped without done()). Fifth round: (b') a connection that waits in the accept queue while the interrupt is handled, so that one poll accepts it, spawns its session and sees the flag (two session kinds): howl must not return before that session has finished.",
}
for _k, _t in _ADDENDA4.items():
    PROPS[_k]["level_text"] += " " + _t
