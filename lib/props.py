"""Per-property metadata for the driver (levels, worker counts, assumptions)."""

COMMON_ASSUMPTIONS = [
    "features rt_tokio,sse,openapi on x86-64 Linux; other runtimes are not built",
    "the harness build uses opt-level 2 with debug-assertions and overflow-checks on (profile `verif`), hooks enabled by --cfg ohkami_verif",
    "values outside the stated alphabets / bounds are not covered (DESIGN.md section 9)",
]

PROPS = {
    "C20": {
        "level": "exploration",
        "technique": "exhaustive enumeration of structured input families against an independent reference (bounded model checking of a pure function)",
        "engine": "vmc",
        "level_text": "Bounded exhaustive exploration: every day number 0..2932896 at two seconds, every second of 12+ boundary days, every n < 2e6 (quick) / 1e7 (thorough) plus structured 64-bit families, each compared with an independent reference. Exhaustive within those ranges; a pure function needs no more than input enumeration.",
        "level_note": "Trusted: Hinnant's civil_from_days as re-implemented in the harness (self-tested on RFC 9110 examples) and Rust std integer formatting. Values between the enumerated families are not covered.",
        "jobs": {"quick": 8, "thorough": 16},
        "assumptions": COMMON_ASSUMPTIONS + [
            "reference: Hinnant civil_from_days + (days+4) mod 7, std formatting for numbers",
            "the statement's 'random 64-bit values' are replaced by structured families (powers +-1, at most two non-zero digits); nothing is sampled",
        ],
    },
}

HOOK_COMMITS = ["4846d14", "4c64919", "461eacc"]

ENGINES = [
    {"name": "vmc", "path": "/verif/harness/src/bin/vmc.rs", "serves_properties": sorted(PROPS.keys()),
     "kind_free_text": "hand-rolled stateless explorers in Rust linking the real ohkami crates by path; one module per property under harness/src/engines; worker processes sharded by the python driver ./check"},
]

_ALL = ["C%02d" % i for i in range(1, 21)]
NOT_APPLICABLE = [
    {"property_id": p, "reason": "check not built yet in this session (work in progress; the design in DESIGN.md section 5 applies model checking to it)"}
    for p in _ALL if p not in PROPS
]
