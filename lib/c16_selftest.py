"""ad-hoc test of the judge on synthetic observations: a *correct* schema with reordered oneOf branches and
correct handling must yield no violation; a wrong one must."""
import sys, json
import os
sys.path.insert(0, os.path.dirname(os.path.abspath(__file__)))
import c16_gen as gen, c16_check as chk

def run(d, schema, values):
    d = dict(d); d["id"] = "t0"; d["sig"] = gen.sig(d); d["index"] = 0
    rep = chk.Report("t", 0, 1)
    chk.check_type(d, {"id": "t0", "schema": {"ok": schema}, "values": values}, None, rep)
    return rep.r

# enum external {Alpha{user_name}, Beta} with the correct schema, branches reversed
d = gen.E([gen.V("Alpha", "struct"), gen.V("Beta", "unit")])
schema = {"oneOf": [{"type": "string", "enum": ["Beta"]},
                    {"type": "object", "properties": {"Alpha": {"type": "object", "properties": {"user_name": {"type": "string"}}, "required": ["user_name"]}}, "required": ["Alpha"]}]}
values = [{"label": "v0:set", "json": {"Alpha": {"user_name": "s110"}}, "rt_ok": True, "rt_json": {"Alpha": {"user_name": "s110"}},
           "probes": [{"path": ["Alpha"], "ok": False}, {"path": ["Alpha", "user_name"], "ok": False}]},
          {"label": "v1:only", "json": "Beta", "rt_ok": True, "rt_json": "Beta", "probes": []}]
r = run(d, schema, values)
print("reordered-correct:", list(r["violations"]), r["machinery_errors"], {k: v for k, v in r["outcomes"].items()})
assert not r["violations"] and not r["machinery_errors"]

# internal tagging, correct schema with const tags, reversed
d = gen.E([gen.V("Alpha", "struct"), gen.V("Beta", "unit")], tagging="internal")
schema = {"oneOf": [{"type": "object", "properties": {"tag": {"type": "string", "enum": ["Beta"]}}, "required": ["tag"]},
                    {"type": "object", "properties": {"tag": {"type": "string", "enum": ["Alpha"]}, "user_name": {"type": "string"}}, "required": ["tag", "user_name"]}]}
values = [{"label": "v0:set", "json": {"tag": "Alpha", "user_name": "s110"}, "rt_ok": True, "rt_json": {},
           "probes": [{"path": ["tag"], "ok": False}, {"path": ["user_name"], "ok": False}]},
          {"label": "v1:only", "json": {"tag": "Beta"}, "rt_ok": True, "rt_json": {}, "probes": [{"path": ["tag"], "ok": False}]}]
r = run(d, schema, values)
print("internal reordered-correct:", list(r["violations"]), r["machinery_errors"])
assert not r["violations"] and not r["machinery_errors"]

# Option field correct schema (nullable via type list), default optional
d = gen.S([gen.F("user_name", "Option"), gen.F("x1", "i32", "default")])
schema = {"type": "object", "properties": {"user_name": {"type": ["string", "null"]}, "x1": {"type": "integer"}}}
values = [{"label": "some+set", "json": {"user_name": "o10", "x1": 120}, "rt_ok": True, "rt_json": {}, "probes": [{"path": ["user_name"], "ok": True, "back": {}}, {"path": ["x1"], "ok": True, "back": {}}]},
          {"label": "none+set", "json": {"user_name": None, "x1": 120}, "rt_ok": True, "rt_json": {}, "probes": [{"path": ["user_name"], "ok": True, "back": {}}, {"path": ["x1"], "ok": True, "back": {}}]}]
r = run(d, schema, values)
print("option correct:", list(r["violations"]))
assert not r["violations"]
# the same with x1 required -> violation
schema["required"] = ["x1"]
r = run(d, schema, values)
print("default-required:", list(r["violations"]))
assert list(r["violations"]) == ["C16/attr:default+type:i32/required-but-defaultable"]
print("OK")
