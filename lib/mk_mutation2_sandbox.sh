#!/bin/sh
# usage: mk_mutation_sandbox.sh <property id> <tag>  -> /tmp/r_<tag>/{repo (worktree), PROPERTY.json, out/}
set -e
ID=$1; T=/tmp/r_$2
rm -rf "$T"; mkdir -p "$T/out"
git -C /repo worktree prune
git -C /repo worktree add --detach "$T/repo" HEAD >/dev/null 2>&1
python3 - "$ID" "$T" <<'PY'
import json,sys
pid,t=sys.argv[1],sys.argv[2]
for l in open('/verif/properties.jsonl'):
    p=json.loads(l)
    if p['id']==pid:
        json.dump(p,open(t+'/PROPERTY.json','w'),indent=1)
PY
cp /repo/Cargo.lock "$T/Cargo.lock"
cp /verif/lib/taken/$ID.md "$T/TAKEN.md"; echo "$T ready"
