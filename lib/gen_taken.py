#!/usr/bin/env python3
"""Regenerate lib/taken/<ID>.md from seeded/*/meta.json (what earlier mutation rounds delivered per property)."""
import json, glob, os, collections
by = collections.defaultdict(list)
for m in sorted(glob.glob('/verif/seeded/*/meta.json')):
    d = json.load(open(m))
    by[d['property']].append((os.path.basename(os.path.dirname(m)), d))
for pid, items in by.items():
    with open(f'/verif/lib/taken/{pid}.md', 'w') as f:
        f.write(f"# Changes already delivered for {pid} (do not repeat these mechanisms)\n\n")
        for name, d in items:
            f.write(f"* files {d.get('files')}: {d.get('summary')}\n\n")
print({k: len(v) for k, v in sorted(by.items())})
