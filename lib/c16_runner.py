"""C16 plug-in for ./check (see `custom_runner` there).

  run(tier, jobs, workdir, env)   -> (reports in vmc format, failures)
  replay(case, workdir, env)      -> (classes violated | None, machinery errors)

Pipeline: enumerate type descriptors (c16_gen) -> write a cargo crate with one module per type, split over
several binaries -> build against the current ohkami tree (shared target dir, harness lock file) with
--message-format=json; types whose Schema derive is rejected are rebuilt *without* that derive (this is at the
same time the control that the type is serde-valid) -> run the binaries (observations) -> judge with
c16_check.py under python3-vt (jsonschema), sharded over `jobs` processes.
"""
import fcntl
import json
import math
import os
import shutil
import subprocess
import sys
import time

sys.path.insert(0, os.path.dirname(os.path.abspath(__file__)))
import c16_gen as gen  # noqa: E402

LIB = os.path.dirname(os.path.abspath(__file__))
ROOT = os.path.dirname(LIB)
HARNESS = os.path.join(ROOT, "harness")
PY_VT = shutil.which("python3-vt") or "/opt/veriftools/pyvenv/bin/python"
MAX_ROUNDS = 4          # 1 build + at most 3 rounds of removing rejected derives
TYPES_PER_BIN = 60

import re  # noqa: E402
CONSEQUENCE = re.compile(r"the trait bound `(\w+::)*T: (\w+::)*Schema` is not satisfied")

RULE = ("one case = one check on one generated type (program): a serialized value validated, a written key / schema "
        "property compared, a requiredness decision compared with serde's behaviour when the key is deleted, or a "
        "derive that is rejected.  Types are enumerated exhaustively from the attribute grammar of the tier (bounds), "
        "compiled against the current tree and examined at run time.  non-trivial = the type carries at least one serde/"
        "openapi attribute, a non-String member or is an enum.  collision = the attribute actually changed the wire "
        "shape (a key differs from the Rust identifier, a key can be omitted or defaulted, an enum is not externally tagged).")


def log(*a):
    print("[c16]", *a, file=sys.stderr, flush=True)


def bounds(tier, types):
    fams = {}
    for d in types:
        fams[d["family"]] = fams.get(d["family"], 0) + 1
    return {
        "tier": tier, "types": len(types), "families": fams,
        "rename_all_rules": gen.RULES, "field_name_styles": gen.STYLES + gen.STYLES_EXT, "variant_name_styles": gen.VSTYLES,
        "field_attrs": gen.FIELD_ATTRS + gen.FIELD_ATTRS_EXT,
        "field_types": gen.FIELD_TYPES + (gen.FIELD_TYPES_EXT if tier == "thorough" else []),
        "taggings": gen.TAGGINGS, "variant_kinds": gen.VKINDS, "variant_attrs": gen.VATTRS,
        "max_fields": 3, "max_variants_in_mix": 3, "max_values_per_shape": gen.MAX_VALUES_PER_SHAPE,
    }


def parse_diagnostics(stdout):
    """rustc JSON diagnostics -> [{"file","code","msg","children","macro","bin"}] for level=error"""
    errs = []
    for line in stdout.splitlines():
        if not line.startswith("{"):
            continue
        try:
            m = json.loads(line)
        except ValueError:
            continue
        if m.get("reason") != "compiler-message":
            continue
        msg = m["message"]
        if msg.get("level") != "error":
            continue
        if msg["message"].startswith("aborting due to") or msg["message"].startswith("could not compile"):
            continue
        files, macros = [], []

        def walk(sp):
            files.append(sp["file_name"])
            ex = sp.get("expansion")
            if ex:
                macros.append(ex.get("macro_decl_name"))
                walk(ex["span"])
        for sp in sorted(msg.get("spans", []), key=lambda s: not s.get("is_primary")):
            walk(sp)
        errs.append({"files": files, "macros": macros, "code": (msg.get("code") or {}).get("code"), "msg": msg["message"],
                     "children": [c["message"] for c in msg.get("children", [])][:3], "bin": m.get("target", {}).get("name")})
    return errs


def type_of_error(err):
    for f in err["files"]:
        base = os.path.basename(f)
        if base.startswith("t") and base.endswith(".rs") and base[1:-3].isdigit():
            return base[:-3]
    return None


def cargo_build(crate, env, jobs):
    cmd = ["cargo", "build", "--profile", "verif", "--offline", "--bins", "--keep-going", "-j", str(jobs),
           "--message-format=json"]
    p = subprocess.run(cmd, cwd=crate, env=env, stdout=subprocess.PIPE, stderr=subprocess.PIPE, text=True)
    return p.returncode, parse_diagnostics(p.stdout), p.stderr


def build_rounds(crate, bins, env, jobs):
    """bins: {bin name: [descriptor..]} -> (rejected {id: [errors]}, machinery errors)"""
    rejected = {}
    for rnd in range(MAX_ROUNDS):
        gen.emit_manifest(crate, HARNESS, sorted(bins))
        for b, ts in bins.items():
            gen.emit_bin(crate, b, ts, without_schema=set(rejected))
        t = time.time()
        rc, errs, stderr = cargo_build(crate, env, jobs)
        log(f"build round {rnd + 1}: rc={rc} errors={len(errs)} ({time.time() - t:.1f}s)")
        if rc == 0:
            return rejected, []
        if not errs:
            return rejected, [f"cargo build of the generated crate failed without diagnostics: {stderr[-1500:]}"]
        new = {}
        for e in errs:
            tid = type_of_error(e)
            if tid is None:
                return rejected, [f"compile error outside a type module: {e['msg'][:300]} in {e['files'][:2]}"]
            if tid in rejected:
                return rejected, [f"generator produced a type that does not compile even without derive(Schema) "
                                  f"(serde-invalid): {tid}: {e['msg'][:300]}"]
            new.setdefault(tid, []).append({"code": e["code"], "msg": e["msg"], "children": e["children"], "macros": e["macros"]})
        for tid, es in new.items():
            # `T: Schema is not satisfied` at the use site is only the consequence of a derive that already failed
            prim = [e for e in es if not CONSEQUENCE.search(e["msg"])]
            new[tid] = prim or [dict(es[0], msg="derive(Schema) produced no impl: " + es[0]["msg"])]
        rejected.update(new)
    return rejected, [f"generated crate still does not build after {MAX_ROUNDS} rounds"]


def run_bins(bins, env, jobs):
    tdir = os.path.join(env["CARGO_TARGET_DIR"], "verif")
    obs, errors = {}, []
    names = sorted(bins)
    for i in range(0, len(names), jobs):
        procs = [(b, subprocess.Popen([os.path.join(tdir, b)], stdout=subprocess.PIPE, stderr=subprocess.PIPE, text=True))
                 for b in names[i:i + jobs]]
        for b, p in procs:
            out, err = p.communicate()
            if p.returncode != 0:
                errors.append(f"generated binary {b} exited rc={p.returncode}: {err[-400:]}")
                continue
            for line in out.splitlines():
                o = json.loads(line)
                obs[o["id"]] = o
    return obs, errors


def judge(types, obs, rejected, tier, nshards, workdir, extra):
    for d in types:
        d["sig"] = gen.sig(d)
    procs = []
    for k in range(nshards):
        inp = os.path.join(workdir, f"judge_in_{k}.json")
        outp = os.path.join(workdir, f"shard_{k}.json")
        mine = {d["id"] for i, d in enumerate(types) if i % nshards == k}
        json.dump(dict(extra, tier=tier, shard=k, nshards=nshards, types=types,
                       obs={i: o for i, o in obs.items() if i in mine},
                       rejected={i: r for i, r in rejected.items() if i in mine}), open(inp, "w"))
        err = open(os.path.join(workdir, f"shard_{k}.err"), "w")
        procs.append((k, outp, subprocess.Popen([PY_VT, os.path.join(LIB, "c16_check.py"), inp, outp],
                                                stdout=subprocess.DEVNULL, stderr=err)))
    reports, failures = [], []
    for k, outp, p in procs:
        rc = p.wait()
        if rc != 0 or not os.path.exists(outp):
            failures.append((k, rc))
            continue
        reports.append(json.load(open(outp)))
    return reports, failures


def machinery_report(tier, msgs):
    return [{"property": "C16", "tier": tier, "evaluations": 0, "outcomes": {}, "violations": {}, "samples": [],
             "extra": {"rule": RULE}, "machinery_errors": msgs}]


class Locked:
    def __init__(self, crate):
        os.makedirs(crate, exist_ok=True)
        self.f = open(os.path.join(crate, ".lock"), "w")

    def __enter__(self):
        fcntl.flock(self.f, fcntl.LOCK_EX)

    def __exit__(self, *a):
        fcntl.flock(self.f, fcntl.LOCK_UN)
        self.f.close()


def run(tier, jobs, workdir, env):
    t0 = time.time()
    jobs = max(1, min(jobs, 8))
    types = gen.enumerate_types(tier)
    nb = max(jobs, math.ceil(len(types) / TYPES_PER_BIN))
    prefix = "c16q" if tier == "quick" else "c16t"
    bins = {f"{prefix}{k}": [d for i, d in enumerate(types) if i % nb == k] for k in range(nb)}
    crate = os.path.join(ROOT, ".work", f"c16gen-{tier}")
    with Locked(crate):
        rejected, merr = build_rounds(crate, bins, env, jobs)
        if merr:
            return machinery_report(tier, merr), []
        log(f"{len(types)} types, {len(rejected)} rejected by derive(Schema); build total {time.time() - t0:.1f}s")
        t = time.time()
        obs, merr = run_bins(bins, env, jobs)
        if merr:
            return machinery_report(tier, merr), []
        log(f"observations: {len(obs)} ({time.time() - t:.1f}s)")
    t = time.time()
    cap = float(env.get("VERIF_WALL_CAP_S") or 0)
    extra = {"rule": RULE, "bounds": bounds(tier, types), "wall_cap_s": max(5.0, cap - (time.time() - t0)) if cap else 0}
    reports, failures = judge(types, obs, rejected, tier, jobs, workdir, extra)
    log(f"judged in {time.time() - t:.1f}s; total {time.time() - t0:.1f}s")
    return reports, failures


def replay(case, workdir, env):
    d = case.get("type") if isinstance(case, dict) else None
    if not isinstance(d, dict) or "kind" not in d:
        return None, ["witness has no 'type' descriptor"]
    d = json.loads(json.dumps(d))
    d["id"] = "t00000"
    d.setdefault("family", "replay")
    if not gen.valid(d):
        return None, ["witness type is outside the generator's serde-valid grammar"]
    crate = os.path.join(ROOT, ".work", "c16gen-replay")
    bins = {"c16r0": [d]}
    with Locked(crate):
        rejected, merr = build_rounds(crate, bins, env, 4)
        if merr:
            return None, merr
        obs, merr = run_bins(bins, env, 1)
        if merr:
            return None, merr
    reports, failures = judge([d], obs, rejected, "replay", 1, workdir, {"rule": RULE, "bounds": {}})
    if failures or not reports:
        return None, [f"judge process failed: {failures}"]
    r = reports[0]
    return sorted(r["violations"].keys()), r.get("machinery_errors", [])
