#!/bin/sh
# usage: sync_sandbox.sh <tag>   -> creates /tmp/b_<tag> if missing (lib/mk_sandbox.sh), else refreshes its copy of /verif (keeps .target)
set -e
T=/tmp/b_$1
if [ ! -d "$T/verif" ]; then /verif/lib/mk_sandbox.sh "$1"; exit 0; fi
rsync -a --delete --exclude .target --exclude .work --exclude .git --exclude replays --exclude evidence /verif/ "$T/verif/"
sed -i "s#/repo/#$T/repo/#g" "$T/verif/harness/Cargo.toml"
sed -i "s#CARGO_TARGET_DIR=/verif/.target#CARGO_TARGET_DIR=$T/verif/.target#" "$T/verif/setup.sh"
git -C "$T/repo" checkout -q --detach "$(git -C /repo rev-parse HEAD)"
echo "$T synced"
