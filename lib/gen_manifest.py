#!/usr/bin/env python3
"""Regenerates /verif/MANIFEST.json from lib/props.py (single source of truth for the checks)."""
import json, os, sys
ROOT = os.path.dirname(os.path.dirname(os.path.abspath(__file__)))
sys.path.insert(0, os.path.join(ROOT, "lib"))
from props import PROPS, NOT_APPLICABLE, ENGINES, HOOK_COMMITS

checks = []
for pid in sorted(PROPS):
    m = PROPS[pid]
    c = {
        "property_id": pid,
        "quick_cmd": f"./check {pid} --tier quick",
        "thorough_cmd": f"./check {pid} --tier thorough",
        "evidence_file": f"/verif/evidence/{pid}.json",
        "replay_cmd_template": f"./check {pid} --replay {{path}}",
        "engine": m.get("engine", "vmc"),
        "level_claimed": {"category": m["level"], "text": m["level_text"], "design_ref": m.get("design_ref", f"DESIGN.md section 5, {pid}")},
        "level_note": m["level_note"],
        "technique": m["technique"],
    }
    checks.append(c)

manifest = {
    "version": 1,
    "setup_cmd": "./setup.sh",
    "hooks": {
        "guard": "--cfg ohkami_verif",
        "enable": "RUSTFLAGS=\"--cfg ohkami_verif\" (set in /verif/harness/.cargo/config.toml); the harness crate depends on /repo/ohkami by path, so every check rebuilds from /repo's working tree",
        "baseline_off_cmd": "cd /repo && (cargo nextest run --workspace --no-fail-fast --offline || cargo test --workspace --no-fail-fast --offline --lib --bins --tests)",
        "source_commits": HOOK_COMMITS,
        "add_only": True,
    },
    "engines": ENGINES,
    "checks": checks,
    "not_applicable": NOT_APPLICABLE,
    "notes": "All checks decide by bounded exhaustive exploration (model checking family); see DESIGN.md. Exit codes: 0 held / 1 VIOLATION / 2 machinery failure. Known findings: known_findings.json.",
}
json.dump(manifest, open(os.path.join(ROOT, "MANIFEST.json"), "w"), indent=1)
print("MANIFEST.json written:", len(checks), "checks,", len(NOT_APPLICABLE), "not applicable")
