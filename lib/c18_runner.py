"""C18 plug-in for ./check (see `custom_runner` there).

  run(tier, jobs, workdir, env)   -> (reports in vmc format, failures)
  replay(case, workdir, env)      -> (classes violated | None, machinery errors)

Two parts:
 (1) the vmc engine harness/src/engines/c18.rs exactly as before (controlled scheduler over the real accept-loop poll and
     the real Ctrl-C handler, protocol model with conformance replay, session mixes) - the workers are run here the way
     ./check runs them;
 (2) the *wait-group add-on*: harness_loom/ compiles the source text of `sync::WaitGroup`, extracted by its build.rs from
     /repo's current working tree (ohkami/src/ohkami/mod.rs), against loom's atomics and explores - exhaustively, DPOR,
     C11 memory model - every interleaving of the accept thread (add, add, ..., then poll) with 1..4 session threads
     (work, then drop of the guard).  This is the part of the state space that the controlled scheduler of (1) cannot
     reach: session tasks run on tokio's worker threads, which it does not schedule.
     Each scenario runs in its own process (a loom failure is a panic, possibly an abort).
"""
import json
import os
import re
import subprocess
import time

LIB = os.path.dirname(os.path.abspath(__file__))
ROOT = os.path.dirname(LIB)
LOOM_DIR = os.path.join(ROOT, "harness_loom")

# scenario = (name, preemption bound or None).  name: wg-n<sessions>-p<polls while sessions run>-e<sessions over before the next add>[-u<session threads that unwind: guard dropped without done()>]
SCENARIOS = {
    "quick": [("wg-n1-p2-e0", None), ("wg-n1-p3-e0", None), ("wg-n2-p1-e0", None), ("wg-n2-p2-e0", None), ("wg-n2-p3-e0", None),
              ("wg-n2-p2-e1", None), ("wg-n3-p2-e1", None), ("wg-n3-p3-e1", None), ("wg-n3-p2-e2", None), ("wg-n3-p1-e0", None),
              ("wg-n3-p2-e0", 3), ("wg-n4-p1-e1", 3), ("wg-n4-p2-e2", None), ("wg-n4-p1-e0", 2),
              ("wg-n1-p2-e0-u1", None), ("wg-n2-p2-e0-u1", None), ("wg-n2-p2-e0-u2", None), ("wg-n3-p2-e1-u1", None)],
    "thorough": [("wg-n1-p2-e0", None), ("wg-n1-p3-e0", None), ("wg-n1-p4-e0", None), ("wg-n2-p1-e0", None), ("wg-n2-p2-e0", None),
                 ("wg-n2-p3-e0", None), ("wg-n2-p4-e0", None), ("wg-n2-p2-e1", None), ("wg-n3-p2-e1", None), ("wg-n3-p3-e1", None),
                 ("wg-n3-p4-e1", None), ("wg-n3-p2-e2", None), ("wg-n3-p1-e0", None), ("wg-n3-p2-e0", None), ("wg-n3-p3-e0", None),
                 ("wg-n4-p1-e1", None), ("wg-n4-p2-e1", None), ("wg-n4-p2-e2", None), ("wg-n4-p3-e2", None), ("wg-n4-p1-e0", 3),
                 ("wg-n4-p2-e0", 2), ("wg-n5-p1-e2", None), ("wg-n5-p1-e1", 2),
                 ("wg-n1-p2-e0-u1", None), ("wg-n2-p2-e0-u1", None), ("wg-n2-p2-e0-u2", None), ("wg-n3-p2-e1-u1", None), ("wg-n3-p2-e0-u1", None),
                 ("wg-n3-p2-e0-u3", None)],
}
SCENARIO_WALL_S = {"quick": 60, "thorough": 1500}


def vmc_of(env):
    return os.path.join(env["CARGO_TARGET_DIR"], "verif", "vmc")


def loom_env(env):
    return dict(env, CARGO_TARGET_DIR=os.path.join(env["CARGO_TARGET_DIR"], "loom"))


def loom_bin(env):
    return os.path.join(env["CARGO_TARGET_DIR"], "loom", "release", "ohkami_verif_loom")


def build_loom(env):
    """-> error text or None.  Rebuilds from /repo's working tree (build.rs has rerun-if-changed on the source file)."""
    p = subprocess.run(["cargo", "build", "--release", "--offline"], cwd=LOOM_DIR, env=loom_env(env),
                       stdout=subprocess.PIPE, stderr=subprocess.STDOUT, text=True)
    if p.returncode != 0:
        # the extracted text does not compile against loom's types (a construct loom::sync does not offer): no verdict from this
        # part - rebuild with the extraction switched off, the scenarios then report `skipped` with the reason
        first_error = next((l for l in p.stdout.splitlines() if l.startswith("error")), "compile error")[:160]
        p2 = subprocess.run(["cargo", "build", "--release", "--offline"], cwd=LOOM_DIR, env=dict(loom_env(env), OHKAMI_WG_SKIP=first_error),
                            stdout=subprocess.PIPE, stderr=subprocess.STDOUT, text=True)
        if p2.returncode != 0:
            return p.stdout[-3000:]
    return None


def classify(output):
    """loom / oracle failure text -> (class suffix, one-line message) or None when the text is not a verdict"""
    m = re.search(r"ORACLE (safety|progress|liveness): ([^\n]*)", output)
    if m:
        return {"safety": "returned-early", "progress": "lost-wake-up", "liveness": "never-returns"}[m.group(1)], m.group(0)
    if "Causality violation" in output or "data race" in output.lower():
        return "unsynchronised-session-work(data-race)", "loom: the waiter reads a session's work without a happens-before edge (memory ordering too weak)"
    if "deadlock" in output.lower():
        return "deadlock", "loom: deadlock"
    if "exceeded maximum number of branches" in output or "Model exceeded" in output:
        return "never-returns", "loom: the waiter spins without bound"
    return None


def run_scenario(env, name, bound, wall_s):
    cmd = [loom_bin(env), name] + (["--preemption-bound", str(bound)] if bound is not None else [])
    t = time.time()
    try:
        p = subprocess.run(cmd, cwd=ROOT, env=dict(env, RUST_BACKTRACE="0"), stdout=subprocess.PIPE, stderr=subprocess.STDOUT,
                           text=True, timeout=wall_s)
        out, rc = p.stdout, p.returncode
    except subprocess.TimeoutExpired as e:
        return {"name": name, "bound": bound, "status": "capped", "wall_s": round(time.time() - t, 1),
                "out": (e.stdout or b"").decode("utf-8", "replace")[-400:] if isinstance(e.stdout, bytes) else str(e.stdout)[-400:]}
    m = re.search(r"RESULT ok .*iterations=(\d+) ready_early=(\d+) ready_late=(\d+) pending_polls=(\d+)", out)
    if rc == 0 and m:
        return {"name": name, "bound": bound, "status": "ok", "iterations": int(m.group(1)), "ready_early": int(m.group(2)),
                "ready_late": int(m.group(3)), "pending_polls": int(m.group(4)), "wall_s": round(time.time() - t, 1)}
    if rc == 0 and "RESULT skipped" in out:
        return {"name": name, "bound": bound, "status": "skipped", "out": out.strip()[-300:]}
    c = classify(out)
    if c is not None:
        return {"name": name, "bound": bound, "status": "violation", "class": c[0], "message": c[1], "wall_s": round(time.time() - t, 1)}
    return {"name": name, "bound": bound, "status": "machinery", "out": f"rc={rc} " + out[-600:]}


def loom_report(tier, jobs, env):
    rep = {"evaluations": 0, "nontrivial": 0, "collisions": 0, "states": 0, "transitions": 0, "traces_validated": 0,
           "outcomes": {}, "violations": {}, "samples": [], "extra": {}, "machinery_errors": [], "capped": False}
    err = build_loom(env)
    if err is not None:
        rep["machinery_errors"].append("C18 wait-group add-on: harness_loom does not build: " + err[-1500:])
        return rep
    info = subprocess.run([loom_bin(env), "--info"], stdout=subprocess.PIPE, text=True).stdout.strip()
    rep["extra"]["waitgroup_loom_source"] = info[:600]
    scen = SCENARIOS[tier]
    results, running, pending = [], [], list(scen)
    # a small process pool; scenario processes are single-threaded
    import concurrent.futures as cf
    with cf.ThreadPoolExecutor(max_workers=max(1, min(jobs, 16))) as ex:
        futs = [ex.submit(run_scenario, env, n, b, SCENARIO_WALL_S[tier]) for n, b in scen]
        results = [f.result() for f in futs]
    table = []
    for r in results:
        table.append({k: r[k] for k in ("name", "bound", "status", "iterations", "wall_s") if k in r})
        if r["status"] == "ok":
            rep["evaluations"] += r["iterations"]
            rep["nontrivial"] += r["iterations"]
            rep["states"] += r["iterations"]
            rep["transitions"] += r["iterations"] + r["pending_polls"]
            rep["traces_validated"] += r["iterations"]          # every explored schedule runs the extracted implementation text
            rep["collisions"] += r["ready_late"]                # schedules in which the waiter met unfinished sessions
            for k in ("ready_early", "ready_late"):
                key = f"loom:{k}"
                rep["outcomes"][key] = rep["outcomes"].get(key, 0) + r[k]
        elif r["status"] == "capped":
            rep["capped"] = True
        elif r["status"] == "skipped":
            # the source no longer has the shape build.rs extracts: say so, do not guess a verdict
            rep["extra"]["waitgroup_loom_skipped"] = r["out"]
        elif r["status"] == "violation":
            cls = f"C18/waitgroup-loom/{r['class']}"
            e = rep["violations"].setdefault(cls, {"count": 0, "witnesses": []})
            e["count"] += 1
            e["witnesses"].append({"loom": r["name"], "preemption_bound": r["bound"], "message": r["message"]})
        else:
            rep["machinery_errors"].append(f"C18 wait-group add-on: scenario {r['name']}: {r['out']}")
    rep["extra"]["waitgroup_loom_scenarios"] = table
    rep["extra"]["sum_waitgroup_loom_schedules"] = sum(r.get("iterations", 0) for r in results)
    return rep


def run_workers(tier, jobs, workdir, env):
    procs = []
    for i in range(jobs):
        out = os.path.join(workdir, f"shard_{i}.json")
        err = open(os.path.join(workdir, f"shard_{i}.err"), "w")
        wd = os.path.join(workdir, f"w{i}")
        os.makedirs(wd, exist_ok=True)
        p = subprocess.Popen([vmc_of(env), "C18", "--tier", tier, "--shard", f"{i}/{jobs}", "--out", out],
                             cwd=ROOT, env=dict(env, VERIF_SHARD_WORK=wd), stdout=subprocess.DEVNULL, stderr=err)
        procs.append((i, p, out))
    reports, failures = [], []
    for i, p, out in procs:
        rc = p.wait()
        if os.path.exists(out):
            try:
                reports.append(json.load(open(out)))
            except Exception:
                rc = rc or -1
        if rc != 0 or not os.path.exists(out):
            failures.append((i, rc))
    return reports, failures


def run(tier, jobs, workdir, env):
    # the loom scenarios are CPU-bound single processes: run them first (seconds in the quick tier), then the child-process
    # explorer, whose settling is timing-sensitive and should not compete with them
    rep = loom_report(tier, jobs, env)
    reports, failures = run_workers(tier, jobs, workdir, env)
    return reports + [rep], failures


def replay(case, workdir, env):
    if isinstance(case, dict) and "loom" in case:
        err = build_loom(env)
        if err is not None:
            return None, ["harness_loom does not build: " + err[-800:]]
        r = run_scenario(env, case["loom"], case.get("preemption_bound"), SCENARIO_WALL_S["thorough"])
        if r["status"] == "violation":
            return [f"C18/waitgroup-loom/{r['class']}"], []
        if r["status"] in ("ok", "skipped"):
            return [], []
        return None, [f"loom replay: {r}"]
    path = os.path.join(workdir, "case.json")
    out = path + ".out"
    json.dump({"property": "C18", "case": case}, open(path, "w"))
    p = subprocess.run([vmc_of(env), "C18", "--replay", path, "--out", out], cwd=ROOT, env=env,
                       stdout=subprocess.DEVNULL, stderr=subprocess.DEVNULL)
    if not os.path.exists(out):
        return None, [f"replay crashed rc={p.returncode}"]
    r = json.load(open(out))
    return sorted(r.get("violations", {}).keys()), r.get("machinery_errors", [])
