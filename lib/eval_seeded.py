#!/usr/bin/env python3
"""Confirm a change produced by a mutation sub-agent and evaluate the checks against it.

  lib/eval_seeded.py <sandbox dir /tmp/m_X> <property id> <n> <seeded name> [extra property ids to run]

Steps: (1) in a scratch worktree of /repo: apply change<n>.diff, run the 43-test baseline (must pass), run demo<n> (must fail),
revert, run demo<n> again (must pass); (2) store /verif/seeded/<name>/{patch.diff, demo/, meta.json}; (3) apply the patch to
/repo's working tree, run ./check <id> --tier quick (and the extra ids), record exit codes and VIOLATION lines, undo the patch.
"""
import json, os, shutil, subprocess, sys, re

def sh(cmd, cwd=None, timeout=3600):
    p = subprocess.run(cmd, shell=True, cwd=cwd, stdout=subprocess.PIPE, stderr=subprocess.STDOUT, text=True, timeout=timeout)
    return p.returncode, p.stdout

sandbox, pid, n, name = sys.argv[1], sys.argv[2], sys.argv[3], sys.argv[4]
extra = sys.argv[5:]
out = os.path.join(sandbox, "out")
patch = os.path.join(out, f"change{n}.diff")
demo = os.path.join(out, f"demo{n}")
meta_in = json.load(open(os.path.join(out, f"meta{n}.json")))
wt = os.path.join(sandbox, "repo")
result = {"property": pid, "summary": meta_in.get("summary"), "needs": meta_in.get("needs"), "files": meta_in.get("files"), "agent_commands": meta_in.get("commands")}

# (1) confirm in the scratch worktree
assert sh("git status --porcelain", wt)[1].strip() == "", "worktree not clean"
rc, o = sh(f"git apply --check {patch} && git apply {patch}", wt); assert rc == 0, o
rc_suite, o_suite = sh("cargo nextest run --workspace --no-fail-fast --offline 2>&1 | tail -3", wt)
if "43 passed" not in o_suite:  # upstream flake: time::test::test_now compares with /usr/bin/date and fails when a second boundary falls in between
    rc_suite, o_suite = sh("cargo nextest run --workspace --no-fail-fast --offline 2>&1 | tail -3", wt)
shutil.copy(os.path.join(sandbox, "Cargo.lock"), os.path.join(demo, "Cargo.lock"))
rc_with, o_with = sh("CARGO_TARGET_DIR=" + os.path.join(sandbox, "demo_target") + " cargo run --offline -q 2>&1 | tail -15", demo)
if "could not find `Cargo.toml`" in o_with or "error: no bin target" in o_with or "a bin target must be available" in o_with:
    rc_with, o_with = sh("CARGO_TARGET_DIR=" + os.path.join(sandbox, "demo_target") + " cargo test --offline -q 2>&1 | tail -15", demo)
    runner = "cargo test --offline"
else:
    runner = "cargo run --offline"
# the pipe hides cargo's exit code: rerun without the tail for the code
rc_with = sh("CARGO_TARGET_DIR=" + os.path.join(sandbox, "demo_target") + f" {runner} -q >/dev/null 2>&1", demo)[0]
sh("git checkout -- . && git clean -fdq", wt)
rc_without = sh("CARGO_TARGET_DIR=" + os.path.join(sandbox, "demo_target") + f" {runner} -q >/dev/null 2>&1", demo)[0]
result["confirmed"] = {"suite_with_change": o_suite.strip().splitlines()[-1] if o_suite.strip() else "", "suite_passes": "43 passed" in o_suite,
                       "demo_runner": runner, "demo_rc_with_change": rc_with, "demo_rc_without_change": rc_without, "demo_tail_with_change": o_with[-600:]}
ok = ("43 passed" in o_suite) and rc_with != 0 and rc_without == 0
result["kept"] = ok
print(json.dumps(result["confirmed"], indent=1))
if not ok:
    print("NOT CONFIRMED - not kept"); sys.exit(1)

# (2) store
dst = os.path.join("/verif/seeded", name)
shutil.rmtree(dst, ignore_errors=True); os.makedirs(dst)
shutil.copy(patch, os.path.join(dst, "patch.diff"))
shutil.copytree(demo, os.path.join(dst, "demo"), ignore=shutil.ignore_patterns("target", "Cargo.lock"))

# (3) run the checks against it
assert sh("git status --porcelain", "/repo")[1].strip() == "", "/repo not clean"
rc, o = sh(f"git apply {patch}", "/repo"); assert rc == 0, o
checks = {}
try:
    for cid in [pid] + extra:
        rc, o = sh(f"./check {cid} --tier quick", "/verif")
        lines = [l for l in o.splitlines() if l.startswith("VIOLATION") or l.startswith("  class=") or l.startswith("MACHINERY") or l.startswith(f"[{cid}")]
        checks[cid] = {"exit": rc, "lines": lines[:12]}
        print(cid, "exit", rc); [print("   ", l[:200]) for l in lines[:8]]
finally:
    sh("git checkout -- .", "/repo")
result["checks_quick"] = checks
result["detected_by"] = [c for c, v in checks.items() if v["exit"] == 1]
json.dump(result, open(os.path.join(dst, "meta.json"), "w"), indent=1)
shutil.rmtree(os.path.join(sandbox, "demo_target"), ignore_errors=True)
print("kept as", dst, "detected_by", result["detected_by"])
