"""C15 plug-in for ./check (see `custom_runner` there).

  run(tier, jobs, workdir, env)   -> (reports in vmc format, failures)
  replay(case, workdir, env)      -> (classes violated | None, machinery errors)

The Rust engine (harness/src/engines/c15.rs) does everything except Draft 2020-12 validation: each vmc worker dumps
every distinct schema object it finds in the generated documents into $VERIF_SHARD_WORK/c15_schemas.json (keyed by a
hash, with the handler signatures it occurred under and one example application per signature).  This plug-in runs
the workers, merges the dumps, validates each distinct schema once with `jsonschema` (python3-vt, lib/c15_check.py)
and adds one report with the classes  C15/schema-invalid:<keyword>=<value>/<signature id>.

Replay is the same pipeline on one application: vmc --replay regenerates the document with the current tree and dumps
its schemas, which are validated again - so a schema witness stops reproducing once the generator is fixed.
"""
import json
import os
import shutil
import subprocess

LIB = os.path.dirname(os.path.abspath(__file__))
ROOT = os.path.dirname(LIB)
PY_VT = shutil.which("python3-vt") or "/opt/veriftools/pyvenv/bin/python"


def vmc_of(env):
    return os.path.join(env["CARGO_TARGET_DIR"], "verif", "vmc")


# number of worker processes per run (independent of --jobs, so that evidence does not depend on it either)
SHARDS = {"quick": 16, "thorough": 192}


def run_workers(tier, jobs, workdir, env):
    """the few lines of ./check's run_workers, with two differences: the per-worker scratch directory lives inside
    workdir, and the space is cut into more shards than there are jobs (a pool of `jobs` processes works them off),
    because the framework leaks every finalized router (~40 KiB per application) and a process should stay small"""
    n = max(jobs, SHARDS.get(tier, jobs))
    pending, running, done = list(range(n)), [], []
    while pending or running:
        while pending and len(running) < jobs:
            i = pending.pop(0)
            out = os.path.join(workdir, f"shard_{i}.json")
            err = open(os.path.join(workdir, f"shard_{i}.err"), "w")
            wd = os.path.join(workdir, f"w{i}")
            os.makedirs(wd, exist_ok=True)
            p = subprocess.Popen([vmc_of(env), "C15", "--tier", tier, "--shard", f"{i}/{n}", "--out", out],
                                 cwd=ROOT, env=dict(env, VERIF_SHARD_WORK=wd), stdout=subprocess.DEVNULL, stderr=err)
            running.append((i, p, out, wd))
        i, p, out, wd = running.pop(0)
        done.append((i, p.wait(), out, wd))
    reports, failures, dumps = [], [], []
    for i, rc, out, wd in sorted(done):
        if os.path.exists(out):
            try:
                reports.append(json.load(open(out)))
            except Exception:
                rc = rc or -1
        if rc != 0 or not os.path.exists(out):
            failures.append((i, rc))
            continue
        dumps.append(os.path.join(wd, "c15_schemas.json"))
    return reports, failures, dumps


def merge_dumps(paths):
    """-> ({hash: {"schema", "where": {sig: {"count", "example"}}}}, machinery errors)"""
    merged, errors = {}, []
    for p in paths:
        if not os.path.exists(p):
            errors.append(f"C15: worker left no schema dump at {p}")
            continue
        for h, rec in json.load(open(p)).items():
            m = merged.setdefault(h, {"schema": rec["schema"], "where": {}})
            for sig, w in rec["where"].items():
                cur = m["where"].get(sig)
                if cur is None:
                    m["where"][sig] = dict(w)
                else:
                    cur["count"] += w["count"]
                    if len(json.dumps(w["example"])) < len(json.dumps(cur["example"])):
                        cur["example"] = w["example"]
    return merged, errors


def judge(merged, workdir, tier):
    """one report in vmc format for the schema half"""
    rep = {"property": "C15", "tier": tier, "evaluations": 0, "nontrivial": 0, "collisions": 0, "ambiguous": 0, "skipped": 0,
           "states": 0, "transitions": 0, "traces_validated": 0, "capped": False, "outcomes": {}, "violations": {}, "samples": [],
           "extra": {"sum_distinct_schema_objects_validated": len(merged)}, "machinery_errors": []}
    inp, outp = os.path.join(workdir, "c15_schemas_all.json"), os.path.join(workdir, "c15_schema_verdicts.json")
    json.dump(merged, open(inp, "w"))
    p = subprocess.run([PY_VT, os.path.join(LIB, "c15_check.py"), inp, outp], stdout=subprocess.PIPE, stderr=subprocess.STDOUT, text=True)
    if p.returncode != 0 or not os.path.exists(outp):
        rep["machinery_errors"].append(f"C15: schema judge failed rc={p.returncode}: {p.stdout[-600:]}")
        return rep
    verdicts = json.load(open(outp))
    for h in sorted(merged):
        rec, errs = merged[h], verdicts.get(h)
        if errs is None:
            rep["machinery_errors"].append(f"C15: no verdict for schema {h}")
            continue
        rep["transitions"] += 1
        for sig in sorted(rec["where"]):
            w = rec["where"][sig]
            rep["evaluations"] += 1
            rep["nontrivial"] += 1
            if not errs:
                rep["outcomes"]["schema-valid"] = rep["outcomes"].get("schema-valid", 0) + 1
                continue
            for e in errs:
                cls = "C15/schema-invalid:%s%s/%s" % (e["keyword"], "" if e["value"] is None else "=" + e["value"], sig)
                rep["outcomes"]["violation:" + cls] = rep["outcomes"].get("violation:" + cls, 0) + 1
                v = rep["violations"].setdefault(cls, {"count": 0, "witnesses": []})
                v["count"] += w["count"]
                if len(v["witnesses"]) < 3:
                    v["witnesses"].append(dict(w["example"], schema=rec["schema"], schema_hash=h, failing=e,
                                               occurrences_in_run=w["count"]))
    return rep


def run(tier, jobs, workdir, env):
    reports, failures, dumps = run_workers(tier, jobs, workdir, env)
    merged, errors = merge_dumps(dumps)
    rep = judge(merged, workdir, tier)
    rep["machinery_errors"] += errors
    return reports + [rep], failures


def replay(case, workdir, env):
    if not isinstance(case, dict) or "app" not in case:
        return None, ["witness has no `app` description"]
    cpath, out = os.path.join(workdir, "case.json"), os.path.join(workdir, "replay.json")
    json.dump({"case": case}, open(cpath, "w"))
    p = subprocess.run([vmc_of(env), "C15", "--replay", cpath, "--out", out], cwd=ROOT, env=dict(env, VERIF_SHARD_WORK=workdir),
                       stdout=subprocess.DEVNULL, stderr=subprocess.DEVNULL)
    if not os.path.exists(out):
        return None, [f"replay crashed rc={p.returncode}"]
    r = json.load(open(out))
    classes, merr = set(r.get("violations", {})), list(r.get("machinery_errors", []))
    merged, errors = merge_dumps([os.path.join(workdir, "c15_schemas.json")])
    rep = judge(merged, workdir, "replay")
    classes |= set(rep["violations"])
    return sorted(classes), merr + errors + rep["machinery_errors"]
