#!/usr/bin/env python3
"""Re-run the quick checks against every kept seeded change (or the named ones) and update their meta.json.
   lib/recheck_seeded.py [name ...]      (applies each patch to /repo's working tree and undoes it straight afterwards)"""
import json, os, subprocess, sys
def sh(cmd, cwd=None):
    p = subprocess.run(cmd, shell=True, cwd=cwd, stdout=subprocess.PIPE, stderr=subprocess.STDOUT, text=True)
    return p.returncode, p.stdout
names = sys.argv[1:] or sorted(os.listdir("/verif/seeded"))
assert sh("git status --porcelain", "/repo")[1].strip() == "", "/repo not clean"
for name in names:
    d = os.path.join("/verif/seeded", name)
    meta = json.load(open(os.path.join(d, "meta.json")))
    rc, o = sh(f"git apply {d}/patch.diff", "/repo")
    if rc != 0:
        print(name, "PATCH DOES NOT APPLY", o[:200]); meta["patch_applies_to_current_tree"] = False
        json.dump(meta, open(os.path.join(d, "meta.json"), "w"), indent=1); continue
    checks = {}
    try:
        for cid in [meta["property"]] + meta.get("extra_checks", []):
            rc, o = sh(f"./check {cid} --tier quick", "/verif")
            lines = [l for l in o.splitlines() if l.startswith("VIOLATION") or l.startswith("  class=") or l.startswith("MACHINERY") or l.startswith(f"[{cid}")]
            checks[cid] = {"exit": rc, "lines": lines[:12]}
    finally:
        sh("git checkout -- .", "/repo")
    if meta.get("checks_quick") and meta.get("checks_quick") != checks:
        meta.setdefault("history", []).append({"checks_quick": meta["checks_quick"], "detected_by": meta.get("detected_by")})
    meta["checks_quick"] = checks
    meta["detected_by"] = [c for c, v in checks.items() if v["exit"] == 1]
    meta["patch_applies_to_current_tree"] = True
    json.dump(meta, open(os.path.join(d, "meta.json"), "w"), indent=1)
    print(name, "detected_by", meta["detected_by"], {c: v["exit"] for c, v in checks.items()})
