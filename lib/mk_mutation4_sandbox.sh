#!/bin/sh
# usage: mk_mutation4_sandbox.sh <property id> <tag>  -> /tmp/r_<tag>/{repo (worktree), PROPERTY.json, BRIEF.md, TAKEN.md, out/}
# (fourth round: the brief is copied into the sandbox so that the agent reads nothing under /verif)
set -e
ID=$1; T=/tmp/r_$2
rm -rf "$T"; mkdir -p "$T/out"
git -C /repo worktree prune
git -C /repo worktree add --detach "$T/repo" HEAD >/dev/null 2>&1
python3 - "$ID" "$T" <<'PY'
import json,sys
pid,t=sys.argv[1],sys.argv[2]
for l in open('/verif/properties.jsonl'):
    p=json.loads(l)
    if p['id']==pid:
        json.dump(p,open(t+'/PROPERTY.json','w'),indent=1)
PY
cp /repo/Cargo.lock "$T/Cargo.lock"
cp /verif/lib/taken/$ID.md "$T/TAKEN.md"
sed "s#<SANDBOX>#$T#g" /verif/lib/MUTATION_BRIEF.md > "$T/BRIEF.md"
cat >> "$T/BRIEF.md" <<EOT

## Later round

Other people already delivered the changes listed in \`$T/TAKEN.md\`.  Your two changes must use **different mechanisms and different
code locations** from those, and from each other.  Prefer places the earlier rounds did not touch: another file of the property's anchors,
the interaction of two features, state kept across calls, boundary values of sizes and counters, rarely used public entry points that
reach the same code, error paths, behaviour that only shows after a particular earlier operation.
EOT
echo "$T ready"
