#!/usr/bin/env python3
"""C15 schema judge (runs under python3-vt because it needs `jsonschema`).

  c15_check.py <schemas.json> <output.json>

input : {hash: {"schema": <schema object found in a generated document>, "where": {signature id: {...}}}}
output: {hash: [{"keyword": k, "value": v, "pointer": "/properties/active/type", "message": m}, ...]}   (empty list = valid)

A schema object is valid iff it validates against the Draft 2020-12 meta-schema (that is what
`Draft202012Validator.check_schema` decides; iter_errors is used to name every failing keyword).  Keywords the
meta-schema does not know (`example`, `nullable`, ...) are annotations there and never fail.
"""
import json
import re
import sys

from jsonschema import Draft202012Validator as DV


def slug(v):
    if isinstance(v, (dict, list)):
        return None
    t = json.dumps(v).strip('"')
    return re.sub(r"[^A-Za-z0-9._-]", "_", t)[:24]


def main():
    schemas = json.load(open(sys.argv[1]))
    meta = DV(DV.META_SCHEMA)
    out = {}
    for h, rec in schemas.items():
        errs, seen = [], set()
        for e in sorted(meta.iter_errors(rec["schema"]), key=lambda e: [str(x) for x in e.absolute_path]):
            path = list(e.absolute_path)
            kws = [p for p in path if isinstance(p, str)]
            kw = kws[-1] if kws else "<root>"
            v = slug(e.instance)
            key = (kw, v)
            if key in seen:
                continue
            seen.add(key)
            errs.append({"keyword": kw, "value": v, "pointer": "/" + "/".join(str(p) for p in path), "message": e.message[:200]})
        # the authoritative verdict: check_schema must agree with "no error listed"
        try:
            DV.check_schema(rec["schema"])
            ok = True
        except Exception:
            ok = False
        if ok != (not errs):
            errs.append({"keyword": "<disagreement>", "value": None, "pointer": "", "message": "check_schema and iter_errors disagree"})
        out[h] = errs
    json.dump(out, open(sys.argv[2], "w"))


if __name__ == "__main__":
    main()
