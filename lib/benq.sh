#!/bin/sh
# usage: benq.sh <tag> <ID:n> ...   waits for the recheck driver of sandbox <tag>, syncs the sandbox, evaluates the benign changes
tag=$1; shift
while pgrep -f "recheck_in_sandbox.py $tag " >/dev/null; do sleep 10; done
/verif/lib/sync_sandbox.sh $tag >/dev/null
cd /verif
for t in "$@"; do
  id=${t%%:*}; n=${t#*:}
  extra=""; case $id in C14) extra="C04 C02";; C12) extra="C13";; C13) extra="C12";; C03) extra="C02 C17";; esac
  python3 lib/eval_benign_sb.py $tag /tmp/n_$id $id $n $id-d$n $extra > /tmp/b_$tag/report/ben-$id-$n.log 2>&1
done
echo "benq $tag done" >> /tmp/b_$tag/report/run.log
