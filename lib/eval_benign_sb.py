#!/usr/bin/env python3
"""Evaluate the checks against a property-PRESERVING change produced by a "benign change" sub-agent (brief: lib/BENIGN_BRIEF.md).

  lib/eval_benign_sb.py <check sandbox tag> <sandbox dir /tmp/n_X> <property id> <n> <name> [extra property ids to run]

Steps: (1) in the scratch worktree: apply change<n>.diff, build with the features, run the 43-test baseline (must pass), revert;
(2) store /verif/benign/<name>/{patch.diff, meta.json}; (3) apply the patch to /repo's working tree, run ./check <id> --tier quick
(and the extra ids), record exit codes and VIOLATION lines, undo the patch.  An exit code other than 0 is an *alarm to review*: either
the change does break the statement after all (then it is not kept as benign) or the check demands more than the statement (false
alarm: correct the machinery).  The verdict of that review is written by hand into meta.json (`review`).
"""
import json, os, shutil, subprocess, sys

def sh(cmd, cwd=None, timeout=7200):
    p = subprocess.run(cmd, shell=True, cwd=cwd, stdout=subprocess.PIPE, stderr=subprocess.STDOUT, text=True, timeout=timeout)
    return p.returncode, p.stdout

tag, sandbox, pid, n, name = sys.argv[1], sys.argv[2], sys.argv[3], sys.argv[4], sys.argv[5]
extra = sys.argv[6:]
SB = f"/tmp/b_{tag}"
os.environ["OHKAMI_REPO"] = SB + "/repo"
out = os.path.join(sandbox, "out")
patch = os.path.join(out, f"change{n}.diff")
meta_in = json.load(open(os.path.join(out, f"meta{n}.json")))
wt = os.path.join(sandbox, "repo")
result = {"property": pid, **{k: meta_in.get(k) for k in ("summary", "kind", "argument", "observable", "files")}, "agent_commands": meta_in.get("commands")}

assert sh("git status --porcelain", wt)[1].strip() == "", "worktree not clean"
rc, o = sh(f"git apply --check {patch} && git apply {patch}", wt); assert rc == 0, o
rc_suite, o_suite = sh("cargo nextest run --workspace --no-fail-fast --offline 2>&1 | tail -3", wt)
if "43 passed" not in o_suite:  # upstream flake: time::test::test_now compares with /usr/bin/date and fails when a second boundary falls in between
    rc_suite, o_suite = sh("cargo nextest run --workspace --no-fail-fast --offline 2>&1 | tail -3", wt)
rc_feat, o_feat = sh("cargo check -p ohkami --features rt_tokio,sse,openapi --offline 2>&1 | tail -3", wt)
sh("git checkout -- . && git clean -fdq", wt)
result["confirmed"] = {"suite_with_change": o_suite.strip().splitlines()[-1] if o_suite.strip() else "", "suite_passes": "43 passed" in o_suite, "features_build": "error" not in o_feat}
print(json.dumps(result["confirmed"]))
if not (result["confirmed"]["suite_passes"] and result["confirmed"]["features_build"]):
    print("NOT CONFIRMED (suite or build fails) - not kept"); print(o_feat); sys.exit(1)

dst = os.path.join("/verif/benign", name)
shutil.rmtree(dst, ignore_errors=True); os.makedirs(dst)
shutil.copy(patch, os.path.join(dst, "patch.diff"))

assert sh("git status --porcelain", SB + "/repo")[1].strip() == "", "sandbox repo not clean"
rc, o = sh(f"git apply {patch}", SB + "/repo"); assert rc == 0, o
checks = {}
try:
    for cid in [pid] + extra:
        rc, o = sh(f"./check {cid} --tier quick --jobs 8", SB + "/verif")
        lines = [l for l in o.splitlines() if l.startswith("VIOLATION") or l.startswith("  class=") or l.startswith("MACHINERY") or l.startswith("KNOWN-FINDING") or l.startswith(f"[{cid}")]
        checks[cid] = {"exit": rc, "lines": lines[:14]}
        print(cid, "exit", rc); [print("   ", l[:220]) for l in lines[:10]]
finally:
    sh("git checkout -- .", SB + "/repo")
result["extra_checks"] = extra
result["checks_quick"] = checks
result["alarms"] = [c for c, v in checks.items() if v["exit"] != 0]
json.dump(result, open(os.path.join(dst, "meta.json"), "w"), indent=1)
print("stored as", dst, "alarms", result["alarms"])
