"""C16 generator: bounded attribute grammar -> type descriptors -> Rust sources of a generated crate.

A *type descriptor* is a small JSON-able dict (it is also the replayable witness):

  {"kind": "struct", "shape": "named|newtype|tuple|unit", "c": {container features}, "fields": [FIELD..]}
  {"kind": "enum",   "c": {container features}, "variants": [{"name", "kind": "unit|newtype|tuple|struct",
                                                               "fields": [FIELD..], "attr": VATTR}..]}
  FIELD = {"name": rust identifier, "ty": TYPE-KIND, "attr": FIELD-ATTR}

Container features (only non-default ones are present):
  rename_all, rename_all_fields : one of RULES          rename_all_form: "ser_de" (rename_all(serialize=..,deserialize=..))
  tagging : "internal" | "adjacent" | "untagged"        (enums; absent = externally tagged)
  rename, default, deny_unknown_fields, transparent, struct_tag, into_from : True
  openapi : "component" | "component_named"
  split : "fwd" | "rev"   (every container attribute on its own #[serde(..)] line, in canonical / reversed order)

Only serde-valid types are produced (the statement's precondition): the runner re-compiles every type whose
Schema derive is rejected *without* that derive and treats a failure there as a machinery error.

Everything here is deterministic; the enumeration order is simplest-first and identical in every process.
"""
import itertools
import json
import os
import re

RULES = ["lowercase", "UPPERCASE", "PascalCase", "camelCase", "snake_case", "SCREAMING_SNAKE_CASE",
         "kebab-case", "SCREAMING-KEBAB-CASE"]
STYLES = ["a", "user_name", "a_b_c", "x1", "URLPath", "line_2nd"]   # DESIGN section 5 + a segment that starts with a digit and goes on with a letter
STYLES_EXT = ["_lead", "dbl__us", "r#type"]                      # amendments: empty word segments, raw identifier
VSTYLES = ["Alpha", "FooBar", "URLPath", "X1"]                   # variant-name styles
FIELD_ATTRS = ["none", "rename", "default", "skip", "skip_serializing", "skip_deserializing",
               "skip_serializing_if", "flatten"]                 # DESIGN section 5
FIELD_ATTRS_EXT = ["default_path", "alias", "rename_ser_de", "rename_ser_only", "rename_de_only", "rename_kebab",
                   "rename_digit", "rename_keyword", "default+sif", "multi:default|rename", "multi:rename|default",
                   "multi:sif|default"]
FIELD_TYPES = ["String", "Option", "Vec", "Nested", "Comp"]      # DESIGN section 5: T, Option<T>, Vec<T>, nested, component
FIELD_TYPES_EXT = ["i32", "f64", "OptionPath", "OptNested", "VecNested", "NestedOpt", "EnumUnit"]
TAGGINGS = ["external", "internal", "adjacent", "untagged"]
VKINDS = ["unit", "newtype", "tuple", "struct"]
VATTRS = ["rename", "rename_all:camelCase", "skip", "skip_serializing", "skip_deserializing", "other", "alias",
          "untagged"]

RUST_TY = {
    "String": "String", "i32": "i32", "f64": "f64", "bool": "bool", "bool_sw": "bool",
    "Option": "Option<String>", "OptionPath": "std::option::Option<String>", "Vec": "Vec<String>",
    "Nested": "Inner", "Comp": "Comp", "EnumUnit": "Mode", "OptNested": "Option<Inner>", "VecNested": "Vec<Inner>", "NestedOpt": "InnerOpt",
}
FLATTENABLE = ("Nested", "Comp", "NestedOpt", "OptNested")
SIF_FN = {"String": "String::is_empty", "Option": "Option::is_none", "OptionPath": "Option::is_none",
          "Vec": "Vec::is_empty", "VecNested": "Vec::is_empty", "OptNested": "Option::is_none",
          "i32": "c16_is_zero", "Nested": "c16_inner_is_zero", "Comp": "c16_comp_is_zero"}


# ------------------------------------------------------------------------------------------------ constructors

def F(name, ty="String", attr="none"):
    return {"name": name, "ty": ty, "attr": attr}


def S(fields, shape="named", family="", **c):
    return {"kind": "struct", "shape": shape, "c": c, "fields": fields, "family": family}


def V(name, kind, fields=None, attr="none"):
    if fields is None:
        fields = {"unit": [], "newtype": [F("0", "String")], "tuple": [F("0", "String"), F("1", "i32")],
                  "struct": [F("user_name")]}[kind]
    return {"name": name, "kind": kind, "fields": fields, "attr": attr}


def E(variants, family="", **c):
    return {"kind": "enum", "c": c, "variants": variants, "family": family}


# ------------------------------------------------------------------------------------------------ validity (serde)

def field_ok(f):
    """serde-validity of attr x type (the statement's precondition restricts the generator)."""
    a, t = f["attr"], f["ty"]
    if a == "flatten":
        return t in FLATTENABLE
    if "sif" in a or a == "skip_serializing_if":
        return t in SIF_FN
    return True


def struct_ok(d):
    c = d["c"]
    if d["shape"] != "named":
        return True
    if c.get("deny_unknown_fields") and any(f["attr"] in ("flatten", "skip_deserializing") for f in d["fields"]):
        return False
    names = [f["name"] for f in d["fields"]]
    return len(set(names)) == len(names) and all(field_ok(f) for f in d["fields"])


def enum_ok(d):
    c = d["c"]
    tagging = c.get("tagging", "external")
    for v in d["variants"]:
        if tagging == "internal" and v["kind"] == "tuple":
            return False                       # serde: internally tagged enums cannot contain tuple variants
        if tagging == "internal" and v["kind"] == "newtype" and v["fields"][0]["ty"] not in ("Nested", "Comp", "NestedOpt"):
            return False                       # run-time serialization error otherwise
        if v["attr"] == "other" and not (v["kind"] == "unit" and tagging in ("internal", "adjacent")):
            return False
        if v["attr"].startswith("rename_all:") and v["kind"] != "struct":
            return False
        if v["attr"] == "untagged" and tagging == "untagged":
            return False
        if v["kind"] == "struct" and not all(field_ok(f) for f in v["fields"]):
            return False
    # variant-level `untagged` must be on the last variants
    seen_untagged = False
    for v in d["variants"]:
        if v["attr"] == "untagged":
            seen_untagged = True
        elif seen_untagged:
            return False
    if any(v["attr"] == "other" for v in d["variants"][:-1]):
        return False                           # serde: #[serde(other)] must be on the last variant
    names = [v["name"] for v in d["variants"]]
    return len(set(names)) == len(names)


def valid(d):
    return struct_ok(d) if d["kind"] == "struct" else enum_ok(d)


# ------------------------------------------------------------------------------------------------ signatures

def field_sig(f):
    s = f["name"]
    if f["ty"] != "String":
        s += ":" + f["ty"]
    if f["attr"] != "none":
        s += "#" + f["attr"]
    return s


def csig(c):
    return ",".join(f"{k}={c[k]}" if c[k] is not True else k for k in sorted(c))


def sig(d):
    """canonical, human-readable identity of a type descriptor"""
    if d["kind"] == "struct":
        body = {"named": "{%s}", "newtype": "(%s)", "tuple": "(%s)", "unit": "%s;"}[d["shape"]] % \
               ",".join(field_sig(f) for f in d["fields"])
        return f"struct[{csig(d['c'])}]{body}"
    vs = []
    for v in d["variants"]:
        s = v["name"]
        if v["kind"] == "struct":
            s += "{%s}" % ",".join(field_sig(f) for f in v["fields"])
        elif v["kind"] in ("newtype", "tuple"):
            s += "(%s)" % ",".join(f["ty"] for f in v["fields"])
        if v["attr"] != "none":
            s += "#" + v["attr"]
        vs.append(s)
    return f"enum[{csig(d['c'])}]{{{'|'.join(vs)}}}"


def strip(d):
    """descriptor without bookkeeping keys (what goes into witnesses)"""
    return {k: v for k, v in d.items() if k not in ("family", "id")}


# ------------------------------------------------------------------------------------------------ enumeration

def _add(out, seen, d):
    if not valid(d):
        return
    s = sig(d)
    if s in seen:
        return
    seen.add(s)
    out.append(d)


def sif_ty(ty):
    return ty if ty in SIF_FN else "Option"


def fam_plain(out, seen):
    fam = "plain"
    _add(out, seen, S([F("a")], family=fam))
    _add(out, seen, S([F("user_name"), F("x1", "i32")], family=fam))
    _add(out, seen, S([F("user_name"), F("a_b_c", "i32"), F("x1", "f64")], family=fam))
    for ty in FIELD_TYPES + FIELD_TYPES_EXT:
        _add(out, seen, S([F("anchor", "i32"), F("user_name", ty)], family=fam))
    _add(out, seen, S([F("flag", "bool")], family=fam))
    _add(out, seen, S([F("flag", "bool_sw")], family=fam))


def fam_rename_all_style(out, seen, styles):
    for rule in RULES:
        for st in styles:
            _add(out, seen, S([F(st)], family="rename_all×style", rename_all=rule))
    for st in styles:
        if st not in ("a", "user_name"):
            _add(out, seen, S([F(st)], family="rename_all×style"))


def fam_attr_type(out, seen, attrs, types):
    for attr in attrs:
        for ty in types:
            _add(out, seen, S([F("anchor", "i32"), F("user_name", ty, attr)], family="attr×type"))


def fam_rename_all_attr(out, seen, rules, attrs, styles=("user_name",)):
    for rule in rules:
        for attr in attrs:
            for st in styles:
                ty = {"flatten": "Nested", "skip_serializing_if": "Option", "default+sif": "Option"}.get(attr, "String")
                _add(out, seen, S([F("anchor", "i32"), F(st, ty, attr)], family="rename_all×attr", rename_all=rule))


def fam_struct_shapes(out, seen):
    fam = "struct-shape"
    _add(out, seen, S([F("0", "String")], "newtype", family=fam))
    _add(out, seen, S([F("0", "i32")], "newtype", family=fam))
    _add(out, seen, S([F("0", "Nested")], "newtype", family=fam))
    _add(out, seen, S([F("0", "Option")], "newtype", family=fam))
    _add(out, seen, S([F("0", "Vec")], "newtype", family=fam))
    _add(out, seen, S([F("0", "String")], "newtype", family=fam, transparent=True))
    _add(out, seen, S([F("user_name")], family=fam, transparent=True))
    _add(out, seen, S([F("0", "String"), F("1", "i32")], "tuple", family=fam))
    _add(out, seen, S([F("0", "String"), F("1", "String")], "tuple", family=fam))
    _add(out, seen, S([F("0", "String"), F("1", "i32"), F("2", "Nested")], "tuple", family=fam))
    _add(out, seen, S([F("0", "String"), F("1", "Option")], "tuple", family=fam))
    _add(out, seen, S([F("0", "i32"), F("1", "i32"), F("2", "i32"), F("3", "i32"), F("4", "i32")], "tuple", family=fam))
    _add(out, seen, S([], "unit", family=fam))
    _add(out, seen, S([], "named", family=fam))
    fam = "container-attr"
    base = [F("user_name"), F("x1", "i32")]
    for k in ("rename", "default", "deny_unknown_fields", "struct_tag", "into_from"):
        _add(out, seen, S(base, family=fam, **{k: True}))
    _add(out, seen, S([F("user_name"), F("note", "Option")], family=fam, default=True))
    for o in ("component", "component_named"):
        _add(out, seen, S(base, family=fam, openapi=o))
        _add(out, seen, S(base, family=fam, openapi=o, rename=True))
        _add(out, seen, S(base, family=fam, openapi=o, rename_all="camelCase"))
    _add(out, seen, S([F("user_name")], family=fam, rename_all="camelCase", rename_all_form="ser_de"))
    _add(out, seen, S([F("user_name")], family=fam, rename_all="camelCase", rename_all_form="ser_only"))


def fam_multi_attr(out, seen, rules):
    fam = "multi-serde-attr"
    for rule in rules:
        for split in ("fwd", "rev"):
            _add(out, seen, S([F("user_name")], family=fam, rename_all=rule, deny_unknown_fields=True, split=split))
            _add(out, seen, S([F("user_name")], family=fam, rename_all=rule, rename=True, split=split))
    for split in ("fwd", "rev"):
        _add(out, seen, S([F("user_name"), F("x1", "i32")], family=fam, default=True, deny_unknown_fields=True, split=split))
        for tg in ("internal", "adjacent", "untagged"):
            _add(out, seen, E([V("Alpha", "struct"), V("Beta", "unit")], family=fam, tagging=tg, rename_all="lowercase", split=split))
        _add(out, seen, E([V("Alpha", "struct"), V("Beta", "unit")], family=fam, rename_all="lowercase", rename=True, split=split))
        _add(out, seen, E([V("Alpha", "unit"), V("Beta", "unit")], family=fam, rename_all="lowercase", rename=True, split=split))
    # openapi attribute line next to serde lines
    for split in ("fwd", "rev"):
        _add(out, seen, S([F("user_name")], family=fam, rename_all="camelCase", openapi="component", split=split))


def kind_mixes(maxlen, repeat):
    out = []
    for n in range(1, maxlen + 1):
        it = itertools.combinations_with_replacement(VKINDS, n) if repeat else itertools.combinations(VKINDS, n)
        out += [list(m) for m in it]
    return out


VNAMES = ["Alpha", "Beta", "Gamma", "Delta", "Eps"]


def mk_variants(kinds, tagging, field_sets=None):
    vs = []
    for i, k in enumerate(kinds):
        fields = None
        if k == "newtype":
            fields = [F("0", "Nested" if tagging in ("internal",) else "String")]
        if k == "struct":
            # distinct field names per variant so that untagged variants cannot be confused
            fields = [F(["user_name", "a_b_c", "x1"][i % 3])]
        vs.append(V(VNAMES[i], k, fields))
    return vs


def fam_enum_tagging(out, seen, maxlen, repeat, rules=(None,)):
    for rule in rules:
        for tg in TAGGINGS:
            for kinds in kind_mixes(maxlen, repeat):
                c = {} if tg == "external" else {"tagging": tg}
                if rule:
                    c["rename_all"] = rule
                _add(out, seen, E(mk_variants(kinds, tg), family="enum:tagging×kinds", **c))


def fam_enum_newtype_payload(out, seen):
    for tg in TAGGINGS:
        for ty in ("String", "Nested", "Option", "Vec", "Comp"):
            c = {} if tg == "external" else {"tagging": tg}
            _add(out, seen, E([V("Alpha", "newtype", [F("0", ty)]), V("Beta", "unit")], family="enum:newtype-payload", **c))


def fam_enum_rename_all(out, seen, taggings, vstyles, rules=RULES):
    fam = "enum:rename_all×variant-style"
    for rule in rules:
        for st in vstyles:
            # all-unit path
            _add(out, seen, E([V(st, "unit"), V("Zed", "unit")], family=fam, rename_all=rule))
            for tg in taggings:
                c = {} if tg == "external" else {"tagging": tg}
                # mixed path; the struct variant's field must NOT be renamed by the enum's rename_all
                _add(out, seen, E([V(st, "struct", [F("user_name")]), V("Zed", "unit")], family=fam, rename_all=rule, **c))
                _add(out, seen, E([V(st, "unit"), V("Zed", "struct", [F("user_name")])], family=fam, rename_all=rule, **c))


def fam_rename_all_fields(out, seen, taggings, styles, rules=RULES):
    fam = "enum:rename_all_fields×style"
    for rule in rules:
        for st in styles:
            for tg in taggings:
                c = {} if tg == "external" else {"tagging": tg}
                _add(out, seen, E([V("Alpha", "struct", [F(st)]), V("Beta", "unit")], family=fam, rename_all_fields=rule, **c))
    for tg in taggings:
        c = {} if tg == "external" else {"tagging": tg}
        _add(out, seen, E([V("FooBar", "struct", [F("user_name")]), V("Beta", "unit")], family=fam,
                          rename_all="snake_case", rename_all_fields="camelCase", **c))
        _add(out, seen, E([V("FooBar", "struct", [F("user_name")]), V("Beta", "unit")], family=fam,
                          rename_all="camelCase", rename_all_fields="SCREAMING_SNAKE_CASE", **c))
        # variant-level rename_all overrides rename_all_fields
        _add(out, seen, E([V("Alpha", "struct", [F("user_name")], "rename_all:camelCase"), V("Beta", "struct", [F("a_b_c")])],
                          family=fam, rename_all_fields="UPPERCASE", **c))


def fam_variant_attrs(out, seen, taggings, kinds):
    fam = "enum:variant-attr"
    for tg in taggings:
        c = {} if tg == "external" else {"tagging": tg}
        for attr in VATTRS:
            for k in kinds:
                if attr in ("untagged", "other"):
                    vs = [V("Alpha", "struct", [F("a_b_c")]), V("Beta", k, mk_variants([k], tg)[0]["fields"], attr)]
                else:
                    vs = [V("Alpha", k, mk_variants([k], tg)[0]["fields"], attr), V("Beta", "struct", [F("a_b_c")])]
                _add(out, seen, E(vs, family=fam, **c))
                if k == "unit" and attr in ("rename", "skip", "alias", "skip_serializing", "skip_deserializing"):
                    _add(out, seen, E([V("Alpha", "unit", None, attr), V("Beta", "unit")], family=fam, **c))


def fam_variant_fields(out, seen, taggings, attrs, types):
    """struct-variant fields carry the same attribute grammar as struct fields"""
    fam = "enum:variant-field-attr"
    for tg in taggings:
        c = {} if tg == "external" else {"tagging": tg}
        for attr in attrs:
            for ty in types:
                _add(out, seen, E([V("Alpha", "struct", [F("anchor", "i32"), F("user_name", ty, attr)]), V("Beta", "unit")],
                                  family=fam, **c))


def fam_enum_misc(out, seen):
    fam = "enum:misc"
    _add(out, seen, E([V(n, "unit") for n in VNAMES], family=fam))
    _add(out, seen, E([V(n, "unit") for n in VNAMES[:4]], family=fam))
    _add(out, seen, E([V("Alpha", "unit"), V("Beta", "newtype"), V("Gamma", "struct"), V("Delta", "tuple")], family=fam))
    _add(out, seen, E([V("Alpha", "unit"), V("Beta", "newtype"), V("Gamma", "struct"), V("Delta", "tuple"), V("Eps", "unit")], family=fam))
    for o in ("component", "component_named"):
        _add(out, seen, E([V("Alpha", "unit"), V("Beta", "unit")], family=fam, openapi=o))
        _add(out, seen, E([V("Alpha", "struct"), V("Beta", "unit")], family=fam, openapi=o))
    _add(out, seen, E([V("Alpha", "unit"), V("Beta", "unit")], family=fam, rename=True))
    _add(out, seen, E([V("Alpha", "struct"), V("Beta", "struct", [F("user_name")])], family=fam, tagging="untagged"))
    _add(out, seen, E([V("Alpha", "newtype", [F("0", "String")]), V("Beta", "newtype", [F("0", "String")])], family=fam))
    _add(out, seen, E([V("Alpha", "tuple", [F("0", "String"), F("1", "String")]), V("Beta", "unit")], family=fam))


def fam_struct_multi(out, seen, attrs, rules):
    """2- and 3-field structs: attribute combinations (interaction between members of one container)"""
    fam = "struct:multi-field"
    names = ["user_name", "a_b_c", "x1"]

    def fld(i, attr):
        ty = {"flatten": "Nested", "skip_serializing_if": "Option"}.get(attr, "String")
        return F(names[i], ty, attr)
    for rule in rules:
        c = {"rename_all": rule} if rule else {}
        for a0, a1 in itertools.product(attrs, repeat=2):
            _add(out, seen, S([fld(0, a0), fld(1, a1)], family=fam, **c))
    for a0, a1, a2 in itertools.product(attrs[:5], repeat=3):
        _add(out, seen, S([fld(0, a0), fld(1, a1), fld(2, a2)], family=fam))


def enumerate_types(tier):
    """the complete, ordered list of type descriptors of a tier (each with 'id')"""
    out, seen = [], set()
    fam_plain(out, seen)
    fam_rename_all_style(out, seen, STYLES + STYLES_EXT)
    fam_attr_type(out, seen, FIELD_ATTRS + FIELD_ATTRS_EXT, FIELD_TYPES)
    fam_rename_all_attr(out, seen, ["camelCase", "PascalCase", "kebab-case", "SCREAMING_SNAKE_CASE"],
                        ["rename", "flatten", "skip_serializing_if", "default", "skip"])
    fam_struct_shapes(out, seen)
    fam_multi_attr(out, seen, ["camelCase"])
    fam_enum_tagging(out, seen, 3, False)
    fam_enum_tagging(out, seen, 2, True)
    fam_enum_newtype_payload(out, seen)
    fam_enum_rename_all(out, seen, ["external"], ["FooBar", "URLPath"], RULES)
    fam_rename_all_fields(out, seen, ["external"], ["user_name", "URLPath"])
    fam_variant_attrs(out, seen, ["external", "internal"], ["unit", "struct"])
    fam_enum_misc(out, seen)
    if tier == "thorough":
        # full products of the DESIGN grammar
        for rule in [None] + RULES:
            for st in STYLES + STYLES_EXT:
                for attr in FIELD_ATTRS:
                    ty = {"flatten": "Nested", "skip_serializing_if": "Option"}.get(attr, "String")
                    c = {"rename_all": rule} if rule else {}
                    _add(out, seen, S([F("anchor", "i32"), F(st, ty, attr)], family="rename_all×style×attr", **c))
        fam_attr_type(out, seen, FIELD_ATTRS + FIELD_ATTRS_EXT, FIELD_TYPES + FIELD_TYPES_EXT)
        # the complete 4-way product of DESIGN section 5 for one member: rule x style x attribute x type
        for rule in [None] + RULES:
            for st in STYLES + STYLES_EXT:
                for attr in FIELD_ATTRS:
                    for ty in FIELD_TYPES:
                        c = {"rename_all": rule} if rule else {}
                        _add(out, seen, S([F("anchor", "i32"), F(st, ty, attr)], family="rename_all×style×attr×type", **c))
        for rule in ["camelCase", "PascalCase"]:
            for attr in FIELD_ATTRS:
                for ty in FIELD_TYPES:
                    _add(out, seen, S([F("anchor", "i32"), F("user_name", ty, attr)], family="rename_all×attr×type", rename_all=rule))
        fam_struct_multi(out, seen, ["none", "default", "skip", "flatten", "skip_serializing_if", "rename", "skip_serializing",
                                     "skip_deserializing"], [None, "camelCase"])
        fam_multi_attr(out, seen, RULES)
        fam_enum_tagging(out, seen, 3, True, [None, "snake_case", "camelCase"])
        fam_enum_rename_all(out, seen, TAGGINGS, VSTYLES, RULES)
        fam_rename_all_fields(out, seen, TAGGINGS, STYLES + STYLES_EXT)
        fam_variant_attrs(out, seen, TAGGINGS, VKINDS)
        fam_variant_fields(out, seen, TAGGINGS, FIELD_ATTRS, FIELD_TYPES)
    for i, d in enumerate(out):
        d["id"] = "t%05d" % i
    return out


# ------------------------------------------------------------------------------------------------ Rust emission

HELPERS = {
    "Inner": '''#[derive(Serialize, Deserialize, Schema, Default, Clone)]
pub struct Inner { pub inner_tag: String, pub inner_id: i32 }   // (declared in non-alphabetical order on purpose: the schema keeps its properties sorted)
fn c16_inner_is_zero(v: &Inner) -> bool { v.inner_id == 0 }
''',
    "Comp": '''#[derive(Serialize, Deserialize, Schema, Default, Clone)]
#[openapi(component)]
pub struct Comp { pub comp_id: i32 }
fn c16_comp_is_zero(v: &Comp) -> bool { v.comp_id == 0 }
''',
    "InnerOpt": '''#[derive(Serialize, Deserialize, Schema, Default, Clone)]
pub struct InnerOpt { pub req_id: i32, #[serde(default, skip_serializing_if = "Option::is_none")] pub opt_note: Option<String> }
''',
    "Proxy": '''#[derive(Serialize, Deserialize, Schema, Default, Clone)]
pub struct Proxy { pub proxy_val: String }
''',
    "Mode": '''#[derive(Serialize, Deserialize, Schema, Default, Clone)]
pub enum Mode { #[default] On, Off }
''',
}


def rename_literal(f):
    """the literal used by the `rename`-family attributes of field f (None if the attribute does not rename)"""
    base = {"rename": "renamed_Key", "rename_ser_de": "renamed_Key", "rename_ser_only": "outKey", "rename_de_only": "inKey",
            "rename_kebab": "re-named", "rename_digit": "1st", "rename_keyword": "type",
            "multi:default|rename": "renamed_Key", "multi:rename|default": "renamed_Key"}.get(f["attr"])
    if base is None or f["name"] in ("user_name", "0"):
        return base
    return base + "_" + re.sub(r"[^a-z0-9]", "", f["name"].replace("r#", "").lower())


def field_attr_lines(f):
    a, ty = f["attr"], f["ty"]
    sif = 'skip_serializing_if = "%s"' % SIF_FN.get(ty, "Option::is_none")
    lit = rename_literal(f)
    rn = 'rename = "%s"' % lit
    table = {
        "none": [], "rename": [[rn]], "default": [["default"]], "skip": [["skip"]],
        "skip_serializing": [["skip_serializing"]], "skip_deserializing": [["skip_deserializing"]],
        "skip_serializing_if": [[sif]], "flatten": [["flatten"]],
        "default_path": [['default = "Default::default"']], "alias": [['alias = "aka"']],
        "rename_ser_de": [['rename(serialize = "%s", deserialize = "%s")' % (lit, lit)]],
        "rename_ser_only": [['rename(serialize = "%s")' % lit]], "rename_de_only": [['rename(deserialize = "%s")' % lit]],
        "rename_kebab": [[rn]], "rename_digit": [[rn]], "rename_keyword": [[rn]],
        "default+sif": [["default", sif]],
        "multi:default|rename": [["default"], [rn]], "multi:rename|default": [[rn], ["default"]],
        "multi:sif|default": [[sif], ["default"]],
    }
    lines = list(table[a])
    if ty == "bool_sw":
        lines = lines + [["@openapi", 'schema_with = "ohkami::openapi::bool"']]
    return lines


def attr_src(lines, indent):
    s = ""
    for items in lines:
        if items and items[0] == "@openapi":
            s += f"{indent}#[openapi({', '.join(items[1:])})]\n"
        else:
            s += f"{indent}#[serde({', '.join(items)})]\n"
    return s


def container_attr_lines(d):
    c = d["c"]
    items = []
    tg = c.get("tagging")
    if tg == "internal":
        items.append('tag = "tag"')
    elif tg == "adjacent":
        items.append('tag = "t", content = "c"')
    elif tg == "untagged":
        items.append("untagged")
    if c.get("struct_tag"):
        items.append('tag = "kind"')
    if c.get("rename_all"):
        form = c.get("rename_all_form")
        r = c["rename_all"]
        if form == "ser_de":
            items.append(f'rename_all(serialize = "{r}", deserialize = "{r}")')
        elif form == "ser_only":
            items.append(f'rename_all(serialize = "{r}")')
        else:
            items.append(f'rename_all = "{r}"')
    if c.get("rename_all_fields"):
        items.append(f'rename_all_fields = "{c["rename_all_fields"]}"')
    if c.get("rename"):
        items.append('rename = "RenamedT"')
    if c.get("default"):
        items.append("default")
    if c.get("deny_unknown_fields"):
        items.append("deny_unknown_fields")
    if c.get("transparent"):
        items.append("transparent")
    if c.get("into_from"):
        items.append('into = "Proxy", from = "Proxy"')
    oa = {"component": ["@openapi", "component"], "component_named": ["@openapi", 'component = "NamedComp"']}.get(c.get("openapi"))
    split = c.get("split")
    if split:
        lines = [[it] for it in items]
        if oa:
            lines.insert(1 if len(lines) > 1 else len(lines), oa)
        if split == "rev":
            lines.reverse()
    else:
        lines = ([items] if items else []) + ([oa] if oa else [])
    return lines


def field_states(f, m):
    """[(tag, rust expression)] - the value states of one field; `m` is a marker number unique in the type"""
    ty, a = f["ty"], f["attr"]
    sif = "sif" in a or a == "skip_serializing_if"
    s = lambda x: f'"{x}".to_string()'
    inner = lambda k: f'Inner {{ inner_id: {1000 + m + k}, inner_tag: {s("n%d" % m)} }}'
    if ty == "String":
        st = [("set", s(f"s{m}"))]
        return st + [("empty", "String::new()")] if sif else st
    if ty == "i32":
        st = [("set", str(100 + m))]
        return st + [("zero", "0")] if sif else st
    if ty == "f64":
        return [("set", f"{m}.5")]
    if ty in ("bool", "bool_sw"):
        return [("true", "true"), ("false", "false")]
    if ty in ("Option", "OptionPath"):
        return [("some", f"Some({s('o%d' % m)})"), ("none", "None")]
    if ty == "Vec":
        return [("full", f"vec![{s('v%d' % m)}]"), ("empty", "Vec::new()")]
    if ty == "Nested":
        st = [("set", inner(0))]
        return st + [("zero", "Inner { inner_id: 0, inner_tag: String::new() }")] if sif else st
    if ty == "Comp":
        st = [("set", f"Comp {{ comp_id: {2000 + m} }}")]
        return st + [("zero", "Comp { comp_id: 0 }")] if sif else st
    if ty == "OptNested":
        return [("some", f"Some({inner(0)})"), ("none", "None")]
    if ty == "VecNested":
        return [("full", f"vec![{inner(0)}, {inner(1)}]"), ("empty", "Vec::new()")]
    if ty == "EnumUnit":
        return [("on", "Mode::On"), ("off", "Mode::Off")]
    if ty == "NestedOpt":
        return [("some", f"InnerOpt {{ req_id: {3000 + m}, opt_note: Some({s('q%d' % m)}) }}"),
                ("none", f"InnerOpt {{ req_id: {3000 + m}, opt_note: None }}")]
    raise ValueError(ty)


def field_marker(vi, fi):
    """marker number of field fi of the struct (vi None) or of variant vi; every generated leaf value of that
    field is derived from it (see field_states), which lets the checker tell which key serde wrote for which
    field without modelling serde's renaming"""
    return 10 * (fi + 1) + (0 if vi is None else 100 * (vi + 1))


def marker_values(m):
    return {("s", f"s{m}"), ("n", 100 + m), ("n", m + 0.5), ("s", f"o{m}"), ("s", f"v{m}"), ("n", 1000 + m), ("n", 1001 + m),
            ("s", f"n{m}"), ("n", 2000 + m), ("n", 3000 + m), ("s", f"q{m}")}


def fill_values(d):
    """JSON literals tried for read-only keys (skip_serializing without default) when reading back"""
    return ['serde_json::json!("fill")', "serde_json::json!(7)", "serde_json::json!([])",
            'serde_json::json!({"inner_id": 1, "inner_tag": "x"})', 'serde_json::json!({"comp_id": 1})', "serde_json::Value::Null"]


MAX_VALUES_PER_SHAPE = 16


def value_exprs(d):
    """[(label, rust expression)] for every generated value of the type.  Labels of enum values start with
    'v<variant index>:' so that the checker knows the variant without modelling serde."""
    vals = []
    if d["kind"] == "struct":
        states = [field_states(f, field_marker(None, i)) for i, f in enumerate(d["fields"])]
        for combo in itertools.islice(itertools.product(*states), MAX_VALUES_PER_SHAPE):
            label = "+".join(t for t, _ in combo) or "only"
            if d["shape"] == "named":
                expr = "T { %s }" % ", ".join(f"{f['name']}: {e}" for f, (_, e) in zip(d["fields"], combo))
            elif d["shape"] == "unit":
                expr = "T"
            else:
                expr = "T(%s)" % ", ".join(e for _, e in combo)
            vals.append((label, expr))
        return vals
    for vi, v in enumerate(d["variants"]):
        if v["attr"] in ("skip", "skip_serializing"):
            continue                         # serde refuses to serialize such a variant: no value exists
        states = [field_states(f, field_marker(vi, i)) for i, f in enumerate(v["fields"])]
        for combo in itertools.islice(itertools.product(*states), MAX_VALUES_PER_SHAPE):
            label = f"v{vi}:" + ("+".join(t for t, _ in combo) or "only")
            if v["kind"] == "unit":
                expr = f"T::{v['name']}"
            elif v["kind"] == "struct":
                expr = "T::%s { %s }" % (v["name"], ", ".join(f"{f['name']}: {e}" for f, (_, e) in zip(v["fields"], combo)))
            else:
                expr = "T::%s(%s)" % (v["name"], ", ".join(e for _, e in combo))
            vals.append((label, expr))
    return vals


def all_fields(d):
    if d["kind"] == "struct":
        return list(d["fields"])
    return [f for v in d["variants"] for f in v["fields"]]


def emit_module(d, with_schema=True):
    """Rust source of the module of one type.  with_schema=False drops only the Schema derive of `T`
    (control build: the type must then compile, otherwise the generator produced a serde-invalid type)."""
    c = d["c"]
    used = set()
    for f in all_fields(d):
        rt = RUST_TY[f["ty"]]
        for h in ("InnerOpt", "Inner", "Comp", "Mode"):
            if re.search(r"\b%s\b" % h, rt):
                used.add(h)
                break
    if c.get("into_from"):
        used.add("Proxy")
    src = "// " + sig(d) + "\n"
    src += "use ohkami::serde::{Serialize, Deserialize};\nuse ohkami::openapi::Schema;\nuse crate::common;\n"
    for h in ("Inner", "Comp", "InnerOpt", "Proxy", "Mode"):
        if h in used:
            src += HELPERS[h]
    if any(f["ty"] == "i32" and ("sif" in f["attr"] or f["attr"] == "skip_serializing_if") for f in all_fields(d)):
        src += "fn c16_is_zero(v: &i32) -> bool { *v == 0 }\n"
    derives = ["Serialize", "Deserialize"] + (["Schema"] if with_schema else [])
    if c.get("default"):
        derives.append("Default")
    if c.get("into_from"):
        derives.append("Clone")
    src += "#[derive(%s)]\n" % ", ".join(derives)
    lines = container_attr_lines(d)
    if not with_schema:
        lines = [l for l in lines if not (l and l[0] == "@openapi")]
    src += attr_src(lines, "")

    def fattrs(f, indent):
        lines = field_attr_lines(f)
        if not with_schema:
            lines = [l for l in lines if not (l and l[0] == "@openapi")]
        return attr_src(lines, indent)
    if d["kind"] == "struct":
        if d["shape"] == "named":
            src += "pub struct T {\n"
            for f in d["fields"]:
                src += fattrs(f, "    ") + f"    pub {f['name']}: {RUST_TY[f['ty']]},\n"
            src += "}\n"
        elif d["shape"] == "unit":
            src += "pub struct T;\n"
        else:
            src += "pub struct T(%s);\n" % ", ".join(
                fattrs(f, "").replace("\n", " ") + "pub " + RUST_TY[f["ty"]] for f in d["fields"])
        if c.get("into_from"):
            src += ("impl From<T> for Proxy { fn from(t: T) -> Proxy { Proxy { proxy_val: t.user_name } } }\n"
                    "impl From<Proxy> for T { fn from(p: Proxy) -> T { T { user_name: p.proxy_val, x1: 0 } } }\n")
    else:
        src += "pub enum T {\n"
        for v in d["variants"]:
            a = v["attr"]
            items = {"none": [], "rename": ['rename = "renamedVar"'], "skip": ["skip"], "skip_serializing": ["skip_serializing"],
                     "skip_deserializing": ["skip_deserializing"], "other": ["other"], "alias": ['alias = "akaVar"'],
                     "untagged": ["untagged"]}.get(a)
            if items is None and a.startswith("rename_all:"):
                items = ['rename_all = "%s"' % a.split(":", 1)[1]]
            src += attr_src([items] if items else [], "    ")
            if v["kind"] == "unit":
                src += f"    {v['name']},\n"
            elif v["kind"] == "struct":
                src += f"    {v['name']} {{\n"
                for f in v["fields"]:
                    src += fattrs(f, "        ") + f"        {f['name']}: {RUST_TY[f['ty']]},\n"
                src += "    },\n"
            else:
                src += "    %s(%s),\n" % (v["name"], ", ".join(RUST_TY[f["ty"]] for f in v["fields"]))
        src += "}\n"
    vals = value_exprs(d)
    src += "pub fn run(out: &mut Vec<String>) {\n"
    src += "    let values: Vec<(&'static str, T)> = vec![\n"
    for label, expr in vals:
        src += f"        ({json.dumps(label)}, {expr}),\n"
    src += "    ];\n"
    src += "    let fills = [%s];\n" % ", ".join(fill_values(d))
    sch = "Some(common::schema_json::<T>())" if with_schema else "None"
    src += f"    out.push(common::examine::<T>({json.dumps(d['id'])}, {sch}, values, &fills));\n"
    src += "}\n"
    return src


def write_if_changed(path, content):
    try:
        with open(path) as f:
            if f.read() == content:
                return False
    except FileNotFoundError:
        pass
    os.makedirs(os.path.dirname(path), exist_ok=True)
    with open(path, "w") as f:
        f.write(content)
    return True


def emit_bin(crate_dir, bin_name, types, without_schema=()):
    """one binary = main.rs + common.rs + one module per type.  Stale modules are removed."""
    bdir = os.path.join(crate_dir, "src", "bin", bin_name)
    os.makedirs(bdir, exist_ok=True)
    keep = {"main.rs", "common.rs"}
    main = "#![allow(warnings)]\nmod common;\n"
    for d in types:
        main += f"mod {d['id']};\n"
    main += "fn main() {\n    common::quiet();\n    let mut out: Vec<String> = Vec::new();\n"
    for d in types:
        main += f"    {d['id']}::run(&mut out);\n"
    main += "    use std::io::Write;\n    let so = std::io::stdout();\n    let mut so = so.lock();\n"
    main += "    for l in out { writeln!(so, \"{}\", l).unwrap(); }\n}\n"
    write_if_changed(os.path.join(bdir, "main.rs"), main)
    with open(os.path.join(os.path.dirname(os.path.dirname(os.path.abspath(__file__))), "c16", "common.rs")) as f:
        write_if_changed(os.path.join(bdir, "common.rs"), f.read())
    for d in types:
        fn = d["id"] + ".rs"
        keep.add(fn)
        write_if_changed(os.path.join(bdir, fn), emit_module(d, d["id"] not in without_schema))
    for fn in os.listdir(bdir):
        if fn not in keep:
            os.remove(os.path.join(bdir, fn))


def emit_manifest(crate_dir, harness_dir, bin_names, pkg="c16gen"):
    """Cargo.toml = the harness manifest (same dependency table, same profiles => the artefacts in the shared
    target dir are reused, and the path of the ohkami checkout is inherited) + our bins; lock file copied."""
    with open(os.path.join(harness_dir, "Cargo.toml")) as f:
        toml = f.read()
    toml = re.sub(r'(?m)^name\s*=\s*"ohkami_verif_harness"', f'name = "{pkg}"', toml, count=1)
    toml += f"\n[profile.verif.package.{pkg}]\nopt-level = 0\ndebug = 0\ncodegen-units = 16\n"
    for b in bin_names:
        toml += f'\n[[bin]]\nname = "{b}"\npath = "src/bin/{b}/main.rs"\n'
    write_if_changed(os.path.join(crate_dir, "Cargo.toml"), toml)
    with open(os.path.join(harness_dir, "Cargo.lock")) as f:
        lock = f.read().replace('name = "ohkami_verif_harness"', f'name = "{pkg}"')
    write_if_changed(os.path.join(crate_dir, "Cargo.lock"), lock)
    cfg = os.path.join(harness_dir, ".cargo", "config.toml")
    if os.path.exists(cfg):
        with open(cfg) as f:
            write_if_changed(os.path.join(crate_dir, ".cargo", "config.toml"), f.read())
    # remove bins of an earlier layout
    bdir = os.path.join(crate_dir, "src", "bin")
    if os.path.isdir(bdir):
        import shutil
        for fn in os.listdir(bdir):
            if fn not in bin_names:
                shutil.rmtree(os.path.join(bdir, fn), ignore_errors=True)


if __name__ == "__main__":
    import sys
    tier = sys.argv[1] if len(sys.argv) > 1 else "quick"
    ts = enumerate_types(tier)
    fams = {}
    for d in ts:
        fams[d["family"]] = fams.get(d["family"], 0) + 1
    print(len(ts), "types", json.dumps(fams, indent=1))
    if len(sys.argv) > 2:
        for d in ts:
            print(d["id"], sig(d))
