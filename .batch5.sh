#!/bin/sh
cd /verif
/verif/.benign_batch2.sh C15 C17 C18
ev() { echo "=== seeded $4"; python3 lib/eval_seeded.py "$@" 2>&1 | tail -14; }
ev /tmp/r_C01 C01 1 C01-trailing-slashes-all-stripped C19
ev /tmp/r_C01 C01 2 C01-unite-child-one-level C04
ev /tmp/r_C02 C02 1 C02-query-value-cut-at-second-equals C09 C07
ev /tmp/r_C02 C02 2 C02-utf8-check-over-whole-buffer C06 C05
ev /tmp/r_C03 C03 1 C03-head-skips-complete C01
ev /tmp/r_C03 C03 2 C03-drop-content-takes-before-forget-stream C17
ev /tmp/r_C04 C04 1 C04-is-same-as-without-len C01
ev /tmp/r_C04 C04 2 C04-parent-fangses-not-passed C01
echo BATCH5-FINISHED
