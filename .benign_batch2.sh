#!/bin/sh
cd /verif
for id in "$@"; do
  for n in 1 2 3 4; do
    [ -f /tmp/n_$id/out/change$n.diff ] || continue
    extra=""
    case $id in C04) extra="C01 C14";; C05) extra="C06 C02";; C06) extra="C05 C02";; C07) extra="C09 C01";; C08) extra="C09 C10 C11";; C09) extra="C07 C08";; C10) extra="C08 C07";; C11) extra="C08";; C12) extra="C13";; C13) extra="C12";; C15) extra="C16";; C16) extra="C15";; C17) extra="C03";; C18) extra="";; C20) extra="C03";; esac
    echo "=== $id change$n"
    python3 lib/eval_benign.py /tmp/n_$id $id $n $id-${SUFFIX:-b}$n $extra 2>&1 | tail -14
  done
done
echo BATCH-FINISHED
