//! C13 — BasicAuth fang admits exactly the configured credentials (DESIGN §5 C13).
//!
//! configuration = ordered list of 1..3 distinct (user, password) pairs, installed as `BasicAuth` (length 1
//! only) or as `[BasicAuth; N]`, in front of one route `/` (GET and POST) whose handler counts its runs.
//! case = (configuration, method, Authorization header or its absence); every case goes through the real
//! read → router (fang) → send path (`app::oneshot`).
//!
//! Oracle (`expectation`): an independent strict RFC 4648 decoder (`refmodel::b64`), `str::from_utf8`,
//! split at the *first* colon, membership of the *pair* in the configured list.
//!   * header is exactly `Basic ` + canonical padded base64 of `user:password` of a configured pair → handler runs
//!   * same credentials spelled in a way HTTP treats as equivalent but the statement does not mention (scheme in
//!     another case, several blanks after the scheme, blanks around the field value, non-zero unused bits in the
//!     last base64 symbol) → not decided by the statement: counted as ambiguous
//!   * everything else → 401, a `WWW-Authenticate: Basic…` header, handler does not run

use crate::app::{self, Outcome};
use crate::core::{esc, guarded, panic_kind, strings_over, unesc, Ctx};
use crate::refmodel::b64::{self, Alphabet, B64Error, Padding};
use ohkami::__verif__::VerifRouter;
use ohkami::fang::BasicAuth;
use ohkami::prelude::*;
use serde_json::{json, Value};
use std::sync::atomic::{AtomicU64, Ordering};

static RUNS: AtomicU64 = AtomicU64::new(0);
const MARK: &str = "ran:protected";

async fn protected() -> &'static str {
    RUNS.fetch_add(1, Ordering::SeqCst);
    MARK
}

/// the pair alphabet of DESIGN §5 C13 (+ one password whose base64 contains `+` and `/`, so that the URL-safe
/// spelling differs from the standard one)
pub const PAIRS: [(&str, &str); 8] = [
    ("u", "p"), ("u", "p:q"), ("", "p"), ("u", ""), ("ü", "pä"), ("u", "pp"), ("uu", "p"), ("u", "p>>>???"),
];

#[derive(Clone, Copy, PartialEq, Eq, Debug)]
pub enum Kind { Single, Array }

fn build(kind: Kind, pairs: &[(String, String)]) -> Result<VerifRouter, String> {
    let ba = |i: usize| BasicAuth { username: pairs[i].0.clone(), password: pairs[i].1.clone() };
    guarded(|| {
        let o = match (kind, pairs.len()) {
            (Kind::Single, 1) => Ohkami::new((ba(0), "/".GET(protected).POST(protected))),
            (Kind::Array, 1) => Ohkami::new(([ba(0)], "/".GET(protected).POST(protected))),
            (Kind::Array, 2) => Ohkami::new(([ba(0), ba(1)], "/".GET(protected).POST(protected))),
            (Kind::Array, 3) => Ohkami::new(([ba(0), ba(1), ba(2)], "/".GET(protected).POST(protected))),
            _ => panic!("unsupported configuration shape"),
        };
        VerifRouter::from(o)
    })
}

/* ------------------------------------------------------------------ oracle -------------------------------- */

#[derive(Clone, Copy, PartialEq, Eq, Debug)]
pub enum Expect { Run, Refuse, Either }

pub struct Verdict {
    pub expect: Expect,
    /// shape feature of the header relative to the configuration (enters the class id)
    pub feature: String,
    /// the credential shares exactly one component with a configured pair, or holds several colons
    pub collision: bool,
}

/// relation of decoded credentials to the configured pairs
fn relation(pairs: &[(String, String)], cred: &str) -> (bool, String, bool) {
    let Some((user, pass)) = cred.split_once(':') else { return (false, "no-colon".into(), false) };
    let several_colons = pass.contains(':');
    if let Some(i) = pairs.iter().position(|(u, p)| u == user && p == pass) {
        let f = if several_colons { format!("exact-pair@{i}:colon-in-password") } else if user.is_empty() { format!("exact-pair@{i}:empty-user") }
            else if pass.is_empty() { format!("exact-pair@{i}:empty-password") } else { format!("exact-pair@{i}") };
        return (true, f, several_colons || i > 0 || user.is_empty() || pass.is_empty())
    }
    let user_known = pairs.iter().any(|(u, _)| u == user);
    let pass_known = pairs.iter().any(|(_, p)| p == pass);
    // readings a wrong split / a wrong comparison would produce
    let last_colon_match = cred.rsplit_once(':').is_some_and(|(u, p)| pairs.iter().any(|(cu, cp)| cu == u && cp == p));
    let concat_match = pairs.iter().any(|(u, p)| format!("{u}{p}") == format!("{user}{pass}"));
    let prefix = pairs.iter().any(|(u, p)| u == user && (p.starts_with(pass) || pass.starts_with(p.as_str())))
        || pairs.iter().any(|(u, p)| p == pass && (u.starts_with(user) || user.starts_with(u.as_str())));
    let f = if user_known && pass_known { "mixed-pair" } else if last_colon_match { "last-colon-pair" }
        else if user_known && prefix { "user+password-prefix" } else if pass_known && prefix { "password+user-prefix" }
        else if user_known { "user-only" } else if pass_known { "password-only" }
        else if concat_match { "moved-colon" } else { "unrelated" };
    (false, f.to_string(), several_colons || user_known || pass_known || last_colon_match || concat_match)
}

pub fn expectation(pairs: &[(String, String)], auth: Option<&[u8]>) -> Verdict {
    let refuse = |f: String, c: bool| Verdict { expect: Expect::Refuse, feature: f, collision: c };
    let Some(auth) = auth else { return refuse("no-header".into(), false) };

    // what the credentials would be under a given reading of scheme and encoding
    let creds_ok = |text: &[u8], alpha: Alphabet, pad: Padding, lenient_bits: bool| -> Option<(bool, String, bool)> {
        let bytes = if lenient_bits { b64::decode_lenient_bits(alpha, pad, text) } else { b64::decode(alpha, pad, text) }.ok()?;
        let s = std::str::from_utf8(&bytes).ok()?;
        Some(relation(pairs, s))
    };

    if let Some(text) = auth.strip_prefix(b"Basic ") {
        match b64::std_decode(text) {
            Ok(bytes) => match std::str::from_utf8(&bytes) {
                Ok(cred) => {
                    let (ok, f, c) = relation(pairs, cred);
                    return if ok { Verdict { expect: Expect::Run, feature: f, collision: c } } else { refuse(f, c) }
                }
                Err(e) => {
                    let pos = e.valid_up_to();
                    let at = if pos + 1 == bytes.len() { "last" } else if pos == 0 { "first" } else { "middle" };
                    let trunc = if e.error_len().is_none() { ":truncated-sequence" } else { "" };
                    return refuse(format!("non-utf8@{at}{trunc}"), true)
                }
            },
            Err(err) => {
                // not *the* base64 of anything; say which near-miss it is
                let f = match err {
                    B64Error::TrailingBits => {
                        if let Some((true, f, _)) = creds_ok(text, Alphabet::Standard, Padding::Required, true) {
                            return Verdict { expect: Expect::Either, feature: format!("noncanonical-bits:{f}"), collision: true }
                        }
                        "noncanonical-bits".to_string()
                    }
                    B64Error::Length | B64Error::Padding => {
                        let body: Vec<u8> = text.iter().copied().filter(|c| *c != b'=').collect();
                        let stripped_is_all = text.iter().position(|c| *c == b'=').map_or(true, |i| text[i..].iter().all(|c| *c == b'='));
                        match creds_ok(&body, Alphabet::Standard, Padding::Forbidden, false) {
                            Some((true, f, _)) if stripped_is_all => return refuse(format!("padding:{f}"), true),
                            _ => "padding".to_string(),
                        }
                    }
                    B64Error::Symbol(_) => {
                        let unpadded: Vec<u8> = text.iter().copied().filter(|c| *c != b'=').collect();
                        if let Some((true, f, _)) = creds_ok(&unpadded, Alphabet::UrlSafe, Padding::Forbidden, false) {
                            return refuse(format!("urlsafe-alphabet:{f}"), true)
                        }
                        let blanks_removed: Vec<u8> = text.iter().copied().filter(|c| !matches!(c, b' ' | b'\t')).collect();
                        if blanks_removed.len() != text.len() {
                            if let Some((true, f, _)) = creds_ok(&blanks_removed, Alphabet::Standard, Padding::Required, false) {
                                // blanks before the credentials (`Basic  dTpw`: RFC 7235 1*SP) or after them (OWS of the
                                // field) are tolerated by HTTP; blanks *inside* are not
                                let inner = text.iter().skip_while(|c| matches!(c, b' ' | b'\t')).collect::<Vec<_>>();
                                let inner: Vec<u8> = inner.into_iter().rev().skip_while(|c| matches!(c, b' ' | b'\t')).copied().collect();
                                if inner.len() == blanks_removed.len() {
                                    return Verdict { expect: Expect::Either, feature: format!("blanks-around:{f}"), collision: true }
                                }
                                return refuse(format!("blank-inside:{f}"), true)
                            }
                        }
                        "invalid-symbol".to_string()
                    }
                };
                return refuse(f, false)
            }
        }
    }
    // other spellings of the scheme
    let trimmed: &[u8] = {
        let s = auth.iter().position(|c| !matches!(c, b' ' | b'\t')).unwrap_or(auth.len());
        let e = auth.iter().rposition(|c| !matches!(c, b' ' | b'\t')).map_or(s, |i| i + 1);
        &auth[s..e]
    };
    let (scheme, rest): (&[u8], &[u8]) = match trimmed.iter().position(|c| matches!(c, b' ' | b'\t')) {
        Some(i) => (&trimmed[..i], {
            let r = &trimmed[i..];
            &r[r.iter().position(|c| !matches!(c, b' ' | b'\t')).unwrap_or(r.len())..]
        }),
        None => (trimmed, &trimmed[trimmed.len()..]),
    };
    if scheme.eq_ignore_ascii_case(b"basic") {
        if let Some((true, f, _)) = creds_ok(rest, Alphabet::Standard, Padding::Required, false) {
            let how = if scheme != b"Basic" { "scheme-case" } else { "blanks-around" };
            return Verdict { expect: Expect::Either, feature: format!("{how}:{f}"), collision: true }
        }
        return refuse(if scheme != b"Basic" { "scheme-case".into() } else if rest.is_empty() { "scheme-only".into() } else { "blanks-around".into() }, false)
    }
    // `BasicdTpw`, `Basi dTpw`, `Bearer dTpw`, bare credentials …
    let glued = auth.strip_prefix(b"Basic").and_then(|r| creds_ok(r, Alphabet::Standard, Padding::Required, false));
    if let Some((true, f, _)) = glued { return refuse(format!("no-space:{f}"), true) }
    let any_ok = creds_ok(rest, Alphabet::Standard, Padding::Required, false).is_some_and(|r| r.0)
        || creds_ok(trimmed, Alphabet::Standard, Padding::Required, false).is_some_and(|r| r.0);
    refuse(if any_ok { "other-scheme:exact-pair".into() } else { "other-scheme".into() }, any_ok)
}

/* ------------------------------------------------------------------ one case ------------------------------ */

pub struct Config { pub kind: Kind, pub pairs: Vec<(String, String)>, pub router: VerifRouter }

fn config_json(kind: Kind, pairs: &[(String, String)]) -> Value {
    json!({"kind": match kind { Kind::Single => "single", Kind::Array => "array" },
           "pairs": pairs.iter().map(|(u, p)| json!([esc(u.as_bytes()), esc(p.as_bytes())])).collect::<Vec<_>>()})
}

fn request_bytes(method: &str, auth: Option<&[u8]>) -> Vec<u8> {
    let mut v = format!("{method} / HTTP/1.1\r\nHost: h\r\n").into_bytes();
    if let Some(a) = auth { v.extend_from_slice(b"Authorization: "); v.extend_from_slice(a); v.extend_from_slice(b"\r\n"); }
    v.extend_from_slice(b"\r\n");
    v
}

fn check_case(ctx: &mut Ctx, cfg: &Config, method: &str, auth: Option<&[u8]>, family: &str) {
    let v = expectation(&cfg.pairs, auth);
    let raw = request_bytes(method, auth);
    if raw.len() > 1000 { ctx.skip(); return }
    let before = RUNS.load(Ordering::SeqCst);
    let out = app::oneshot(&cfg.router, &raw);
    let ran = RUNS.load(Ordering::SeqCst) != before;
    ctx.distinct_key(&(cfg.kind == Kind::Array, &cfg.pairs, method, auth));

    let shape = match cfg.kind { Kind::Single => "single".to_string(), Kind::Array => format!("array{}", cfg.pairs.len()) };
    let witness = |observed: String| {
        let (kind, pairs, auth, family, expect, feature) = (cfg.kind, cfg.pairs.clone(), auth.map(|a| a.to_vec()), family.to_string(), v.expect, v.feature.clone());
        let method = method.to_string();
        move || json!({"config": config_json(kind, &pairs), "method": method, "authorization": auth.as_ref().map(|a| esc(a)), "family": family,
                       "expected": match expect { Expect::Run => "handler runs (200, body `ran:protected`)", Expect::Refuse => "401 + WWW-Authenticate: Basic…, handler does not run", Expect::Either => "not decided" },
                       "feature": feature, "observed": observed})
    };
    let class = |symptom: &str| format!("C13/{}/{}/{}", v.feature_class(), shape, symptom);
    let nontrivial = auth.is_some_and(|a| a.starts_with(b"Basic ") || a.len() > 6);

    match &out {
        Outcome::Panic(stage, msg) => { ctx.violation(&class(&format!("panic@{stage}:{}", panic_kind(msg))), nontrivial, witness(out.kind())); return }
        Outcome::Stall(stage) => { ctx.violation(&class(&format!("stall@{stage}")), nontrivial, witness(out.kind())); return }
        Outcome::Closed => { ctx.violation(&class("closed-without-response"), nontrivial, witness(out.kind())); return }
        Outcome::Response { parsed: Err(e), .. } => { ctx.violation(&class("malformed-response"), nontrivial, witness(format!("malformed response: {e}"))); return }
        Outcome::Response { parsed: Ok(_), .. } => {}
    }
    let p = out.parsed().unwrap();
    let challenge = p.header_all("WWW-Authenticate");
    let observed = format!("status {} ran={} body={:?} www-authenticate={:?}", p.status, ran, String::from_utf8_lossy(&p.body), challenge);
    let echo_ok = p.status == 200 && p.body == MARK.as_bytes();
    let refusal_ok = p.status == 401 && challenge.len() == 1 && challenge[0].get(..5).is_some_and(|s| s.eq_ignore_ascii_case("basic"))
        && (challenge[0].len() == 5 || challenge[0].as_bytes()[5] == b' ');
    match v.expect {
        Expect::Run => {
            if !ran { ctx.violation(&class(&format!("refused-should-accept:{}", p.status)), nontrivial, witness(observed)) }
            else if !echo_ok { ctx.violation(&class("handler-ran-but-wrong-response"), nontrivial, witness(observed)) }
            else { ctx.pass(&format!("run:{}", v.feature_class()), nontrivial, v.collision) }
        }
        Expect::Refuse => {
            if ran { ctx.violation(&class("accepted-should-refuse"), nontrivial, witness(observed)) }
            else if p.status != 401 { ctx.violation(&class(&format!("refused-with-status:{}", p.status)), nontrivial, witness(observed)) }
            else if !refusal_ok { ctx.violation(&class("401-without-basic-challenge"), nontrivial, witness(observed)) }
            else { ctx.pass(&format!("401:{}", v.feature_class()), nontrivial, v.collision) }
        }
        Expect::Either => {
            if (ran && echo_ok) || (!ran && refusal_ok) { ctx.ambiguous(&format!("{}:{}", v.feature_class(), if ran { "ran" } else { "401" })) }
            else { ctx.violation(&class("neither-run-nor-proper-401"), nontrivial, witness(observed)) }
        }
    }
    // History of length two: whatever the request before was (and whichever error path it took), the exact credential of a
    // configured pair must be admitted right after it - state kept across requests (a scratch buffer, a cache) must not leak.
    if v.expect != Expect::Run && family != "probe-after" {
        let exact = basic(&cred(&cfg.pairs[0].0, &cfg.pairs[0].1));
        let before = RUNS.load(Ordering::SeqCst);
        let out2 = app::oneshot(&cfg.router, &request_bytes("GET", Some(&exact)));
        let ran2 = RUNS.load(Ordering::SeqCst) != before;
        ctx.transitions += 1;
        if !ran2 {
            // (the witness is the *first* request: replaying it runs the same history of two)
            let (kind, pairs, auth, feature, method, family) = (cfg.kind, cfg.pairs.clone(), auth.map(|a| a.to_vec()), v.feature.clone(), method.to_string(), family.to_string());
            ctx.violation(&format!("C13/after:{}/{}/exact-credential-refused", v.feature_class(), shape), true,
                move || json!({"config": config_json(kind, &pairs), "method": method, "authorization": auth.as_ref().map(|a| esc(a)), "family": family, "feature": feature,
                               "history": [auth.as_ref().map(|a| esc(a)), Some(esc(&exact))],
                               "expected": "the second request of the history (the exact credential of the first pair) runs the handler", "observed": out2.kind()}));
        }
    }
}

impl Verdict {
    fn feature_class(&self) -> &str { &self.feature }
}

/* --------------------------------------------------------------- header families --------------------------- */

fn cred(u: &str, p: &str) -> Vec<u8> { format!("{u}:{p}").into_bytes() }
fn basic(cred: &[u8]) -> Vec<u8> { [b"Basic ", b64::std_encode(cred).as_bytes()].concat() }

/// (family, Authorization value) — everything here is independent of the configuration except through the
/// universe of users and passwords, which is the same for all configurations (the whole pair alphabet).
fn header_alphabet(tier_quick: bool) -> Vec<(&'static str, Option<Vec<u8>>)> {
    let mut out: Vec<(&'static str, Option<Vec<u8>>)> = vec![("absent", None)];
    let mut users: Vec<&str> = PAIRS.iter().map(|p| p.0).collect(); users.sort(); users.dedup();
    let mut passes: Vec<&str> = PAIRS.iter().map(|p| p.1).collect(); passes.sort(); passes.dedup();
    users.extend(["U", "u ", "x", "p"]);   // "p" + password "u": the swapped pair
    passes.extend(["P", "p ", "q", "p:", ":p", "p:q:r", "x", "u"]);

    // every user × password, canonical and in every near-miss encoding
    for u in &users { for p in &passes {
        let c = cred(u, p);
        let canon = b64::std_encode(&c);
        out.push(("pair-product", Some(basic(&c))));
        if canon.ends_with('=') { out.push(("no-padding", Some([b"Basic ", canon.trim_end_matches('=').as_bytes()].concat()))); }
        if canon.ends_with("==") { out.push(("half-padding", Some([b"Basic ", canon[..canon.len() - 1].as_bytes()].concat()))); }
        out.push(("extra-padding", Some([b"Basic ", canon.as_bytes(), b"="].concat())));
        let url = b64::encode(Alphabet::UrlSafe, true, &c);
        if url != canon {
            out.push(("urlsafe-padded", Some([b"Basic ", url.as_bytes()].concat())));
            out.push(("urlsafe-unpadded", Some([b"Basic ", url.trim_end_matches('=').as_bytes()].concat())));
        }
        // non-canonical last symbol (unused bits set): every alternative symbol that decodes to the same bytes
        let body = canon.trim_end_matches('=');
        let pads = &canon[body.len()..];
        if !pads.is_empty() {
            let last = *body.as_bytes().last().unwrap();
            for alt in b"ABCDEFGHIJKLMNOPQRSTUVWXYZabcdefghijklmnopqrstuvwxyz0123456789+/" {
                if *alt == last { continue }
                let mut t = body.as_bytes().to_vec(); *t.last_mut().unwrap() = *alt; t.extend_from_slice(pads.as_bytes());
                if b64::decode_lenient_bits(Alphabet::Standard, Padding::Required, &t).ok().as_deref() == Some(&c[..]) {
                    out.push(("noncanonical-bits", Some([b"Basic ", &t[..]].concat())));
                }
            }
        }
    } }
    // scheme / spacing variants, around a right and around a wrong credential
    for (u, p) in [("u", "p"), ("u", "p:q"), ("ü", "pä"), ("", "p"), ("u", ""), ("x", "x")] {
        let b = b64::std_encode(&cred(u, p));
        for (fam, text) in [
            ("scheme-case", format!("basic {b}")), ("scheme-case", format!("BASIC {b}")), ("scheme-case", format!("bASIC {b}")),
            ("no-space", format!("Basic{b}")), ("two-spaces", format!("Basic  {b}")), ("tab", format!("Basic\t{b}")),
            ("trailing-space", format!("Basic {b} ")), ("leading-space", format!(" Basic {b}")),
            ("other-scheme", format!("Bearer {b}")), ("other-scheme", format!("Digest {b}")), ("other-scheme", format!("Basi {b}")),
            ("other-scheme", format!("Basicx {b}")), ("other-scheme", format!("Basic: {b}")), ("bare-credentials", b.clone()),
            ("twice", format!("Basic {b} {b}")), ("twice", format!("Basic {b}, Basic {b}")), ("twice", format!("Basic Basic {b}")),
            ("blank-inside", format!("Basic {} {}", &b[..2], &b[2..])), ("plain-credentials", format!("Basic {u}:{p}")),
            ("suffix", format!("Basic {b}A")), ("suffix", format!("Basic {b}AAAA")), ("prefix", format!("Basic AAAA{b}")),
        ] { out.push((fam, Some(text.into_bytes()))); }
    }
    for text in ["Basic", "Basic ", "Basic  ", "", " ", "Basic =", "Basic ====", "Basic !!!!", "Basic dTpw\u{e4}", "Basic Og==", "Basic OjA=", "Basic *"] {
        out.push(("degenerate", Some(text.as_bytes().to_vec())));
    }
    // credentials that are not UTF-8: one offending byte at the first / a middle / the last position, as a stray
    // continuation byte, an impossible byte and a truncated sequence
    for bad in [&[0xffu8][..], &[0x80], &[0xc3], &[0xe2, 0x82], &[0xc3, 0x28]] {
        for base in ["u:p", "u:", ":", ""] {
            let b = base.as_bytes();
            for pos in 0..=b.len() {
                let c = [&b[..pos], bad, &b[pos..]].concat();
                out.push(("non-utf8", Some(basic(&c))));
            }
        }
    }
    // every credential byte string of length <= n over a colliding alphabet
    let alpha: [&[u8]; 6] = [b"u", b"p", b":", b"q", &[0xc3, 0xbc] /* ü */, &[0xff]];
    for s in strings_over(&alpha, if tier_quick { 5 } else { 7 }) { out.push(("all-short-credentials", Some(basic(&s)))); }
    // one case per distinct header value (the first family that produced it names it)
    let mut seen = std::collections::HashSet::new();
    out.retain(|(_, a)| seen.insert(a.clone()));
    out
}

/// every single-symbol substitution of a correct header value (over base64 + `=`, ` `, `-`, `_`, `:`)
fn substitutions(value: &[u8]) -> Vec<Vec<u8>> {
    let alphabet = b"ABCDEFGHIJKLMNOPQRSTUVWXYZabcdefghijklmnopqrstuvwxyz0123456789+/=-_ :";
    let mut out = vec![];
    for i in 0..value.len() { for c in alphabet { if value[i] != *c { let mut m = value.to_vec(); m[i] = *c; out.push(m); } } }
    // deletions and insertions of one symbol at every position
    for i in 0..value.len() { let mut m = value.to_vec(); m.remove(i); out.push(m); }
    for i in 0..=value.len() { for c in [b'A', b'=', b' '] { let mut m = value.to_vec(); m.insert(i, c); out.push(m); } }
    out
}

pub fn configurations(_tier_quick: bool) -> Vec<(Kind, Vec<(String, String)>)> {
    let n = PAIRS.len();
    let own = |idx: &[usize]| idx.iter().map(|i| (PAIRS[*i].0.to_string(), PAIRS[*i].1.to_string())).collect::<Vec<_>>();
    let mut out = vec![];
    for i in 0..n { out.push((Kind::Single, own(&[i]))); out.push((Kind::Array, own(&[i]))); }
    for i in 0..n { for j in 0..n { if i != j { out.push((Kind::Array, own(&[i, j]))); } } }
    for i in 0..n { for j in 0..n { for k in 0..n {
        if i != j && j != k && i != k {
            out.push((Kind::Array, own(&[i, j, k])));
        }
    } } }
    out
}

pub fn run(ctx: &mut Ctx) {
    app::pin_clock();
    let quick = ctx.quick();
    compositions(ctx);
    let headers = header_alphabet(quick);
    let configs = configurations(quick);
    let mut n_cfg = 0u64;
    for (kind, pairs) in &configs {
        if !ctx.mine() { continue }
        if ctx.out_of_time() { break }
        let router = match build(*kind, pairs) {
            Ok(r) => r,
            Err(p) => { ctx.violation(&format!("C13/build/panic:{}", panic_kind(&p)), true, || json!({"config": config_json(*kind, pairs), "build_only": true, "observed": p})); continue }
        };
        let cfg = Config { kind: *kind, pairs: pairs.clone(), router };
        n_cfg += 1;
        for (family, auth) in &headers {
            check_case(ctx, &cfg, "GET", auth.as_deref(), family);
        }
        // POST: the right credentials of every configured pair, a mixed pair, no header
        for (u, p) in pairs { check_case(ctx, &cfg, "POST", Some(&basic(&cred(u, p))), "post"); }
        check_case(ctx, &cfg, "POST", Some(&basic(&cred(&pairs[0].0, "x"))), "post");
        check_case(ctx, &cfg, "POST", None, "post");
        // every one-symbol edit of every correct header value
        for (u, p) in pairs {
            for m in substitutions(&basic(&cred(u, p))) { check_case(ctx, &cfg, "GET", Some(&m), "one-symbol-edit"); }
        }
        if n_cfg == 1 {
            ctx.sample(|| json!({"config": config_json(*kind, pairs), "authorization": esc(&basic(&cred(&pairs[0].0, &pairs[0].1))), "expected": "handler runs"}));
            ctx.sample(|| json!({"config": config_json(*kind, pairs), "authorization": esc(&basic(&cred(&pairs[0].0, "x"))), "expected": "401 + challenge"}));
        }
    }
    ctx.extra.insert("rule".into(), json!("case = (pair list as BasicAuth or [BasicAuth; N], method, Authorization value or none); non-trivial = an Authorization header with something after the scheme; collision = the decoded credential shares exactly one component (user xor password) with a configured pair, matches a pair only under a wrong split (last colon / moved colon), holds several colons, is not UTF-8, or is a right credential in a non-canonical spelling"));
    ctx.extra.insert("bounds".into(), json!({
        "pairs": PAIRS.iter().map(|(u, p)| format!("{u}:{p}")).collect::<Vec<_>>(),
        "configurations": configs.len(), "pair_list_lengths": [1, 2, 3],
        "header_alphabet_per_configuration": headers.len(),
        "all_short_credentials_max_len": if quick { 5 } else { 7 },
        "one_symbol_edits": "every substitution over 69 symbols + every deletion + 3 insertions per position, of every configured pair's correct header",
        "methods": ["GET", "POST"],
    }));
    ctx.extra.insert("sum_configurations_built".into(), json!(n_cfg));
}

pub fn replay(ctx: &mut Ctx, case: &Value) {
    app::pin_clock();
    if case.get("composition").is_some() { return replay_composition(ctx, case) }
    let kind = if case["config"]["kind"] == "single" { Kind::Single } else { Kind::Array };
    let pairs: Vec<(String, String)> = case["config"]["pairs"].as_array().expect("config.pairs").iter().map(|p| {
        let s = |i: usize| String::from_utf8(unesc(p[i].as_str().expect("pair member"))).expect("pair is UTF-8");
        (s(0), s(1))
    }).collect();
    let router = match build(kind, &pairs) {
        Ok(r) => r,
        Err(p) => { ctx.violation(&format!("C13/build/panic:{}", panic_kind(&p)), true, || json!({"config": config_json(kind, &pairs), "build_only": true, "observed": p})); return }
    };
    if case["build_only"] == true { ctx.pass("build-ok", true, true); return }
    let cfg = Config { kind, pairs, router };
    let auth = case["authorization"].as_str().map(unesc);
    check_case(ctx, &cfg, case["method"].as_str().unwrap_or("GET"), auth.as_deref(), case["family"].as_str().unwrap_or("replay"));
}

/* ------------------------------------------------------------ compositions (fourth round) ------------------ */
// Several differently configured BasicAuth fangs in one application (sibling mounts, a parent and a child, the single and
// the array entry point side by side) and short histories over them.  Each gate is judged on its own: the handler behind
// a path runs iff every gate in front of it admits the presented credential, whatever was presented - and admitted or
// refused - before, on this path or on another one.  (A cache shared by instances, or state left by an earlier request,
// is what this part is after; single requests against one fang are the business of the part above.)

struct Comp { kind: &'static str, router: VerifRouter, paths: Vec<(&'static str, Vec<Vec<(&'static str, &'static str)>>)>,
    /// the request admitted last (rightly) on this composition in this process: the context of every witness
    last_legit: std::cell::RefCell<Option<(usize, usize)>> }

const COMP_KINDS: [&str; 4] = ["siblings", "siblings-array", "parent-and-child", "siblings-shared-user"];

fn build_comp(kind: &'static str) -> Result<Comp, String> {
    let ba = |u: &str, p: &str| BasicAuth { username: u.to_string(), password: p.to_string() };
    guarded(|| match kind {
        "siblings" => Comp { kind, router: VerifRouter::from(Ohkami::new((
                "/admin".By(Ohkami::new((ba("root", "r00t"), "/".GET(protected)))),
                "/staff".By(Ohkami::new((ba("alice", "a1"), "/".GET(protected)))),
            ))), paths: vec![("/admin", vec![vec![("root", "r00t")]]), ("/staff", vec![vec![("alice", "a1")]])], last_legit: Default::default() },
        "siblings-array" => Comp { kind, router: VerifRouter::from(Ohkami::new((
                "/admin".By(Ohkami::new((ba("root", "r00t"), "/".GET(protected)))),
                "/staff".By(Ohkami::new(([ba("alice", "a1"), ba("bob", "b2")], "/".GET(protected)))),
            ))), paths: vec![("/admin", vec![vec![("root", "r00t")]]), ("/staff", vec![vec![("alice", "a1"), ("bob", "b2")]])], last_legit: Default::default() },
        "parent-and-child" => Comp { kind, router: VerifRouter::from(Ohkami::new((
                [ba("alice", "a1"), ba("root", "r00t")], "/".GET(protected),
                "/admin".By(Ohkami::new((ba("root", "r00t"), "/".GET(protected)))),
            ))), paths: vec![("/", vec![vec![("alice", "a1"), ("root", "r00t")]]), ("/admin", vec![vec![("alice", "a1"), ("root", "r00t")], vec![("root", "r00t")]])], last_legit: Default::default() },
        "siblings-shared-user" => Comp { kind, router: VerifRouter::from(Ohkami::new((
                "/x".By(Ohkami::new((ba("u", "p"), "/".GET(protected)))),
                "/y".By(Ohkami::new((ba("u", "pp"), "/".GET(protected)))),
            ))), paths: vec![("/x", vec![vec![("u", "p")]]), ("/y", vec![vec![("u", "pp")]])], last_legit: Default::default() },
        _ => unreachable!(),
    })
}

fn comp_menu(c: &Comp) -> Vec<(String, Option<Vec<u8>>)> {
    let mut creds: Vec<(&str, &str)> = vec![];
    for (_, gates) in &c.paths { for g in gates { for pr in g { if !creds.contains(pr) { creds.push(*pr) } } } }
    let mut out: Vec<(String, Option<Vec<u8>>)> = vec![("absent".into(), None)];
    for (u, p) in &creds { out.push((format!("exact:{u}"), Some(basic(&cred(u, p))))) }
    // mixed pairs across instances, a wrong password, an unpadded spelling of an exact credential, garbage
    for (u, _) in &creds { for (_, p) in &creds { if !creds.contains(&(*u, *p)) { out.push((format!("mixed:{u}+{p}"), Some(basic(&cred(u, p))))) } } }
    out.push(("wrong-password".into(), Some(basic(&cred(creds[0].0, "nope")))));
    let exact0 = basic(&cred(creds[0].0, creds[0].1));
    let unpadded: Vec<u8> = exact0.iter().copied().filter(|b| *b != b'=').collect();
    if unpadded != exact0 { out.push(("exact-unpadded".into(), Some(unpadded))) }
    out.push(("garbage".into(), Some(b"Basic !!!".to_vec())));
    out
}

fn run_comp_history(ctx: &mut Ctx, c: &Comp, menu: &[(String, Option<Vec<u8>>)], hist: &[(usize, usize)]) {
    let mut readable: Vec<Value> = vec![];
    let context: Option<(usize, usize)> = *c.last_legit.borrow();
    for (k, &(pi, mi)) in hist.iter().enumerate() {
        let (path, gates) = &c.paths[pi];
        let auth = menu[mi].1.as_deref();
        let verdicts: Vec<Verdict> = gates.iter().map(|g| expectation(&g.iter().map(|(u, p)| (u.to_string(), p.to_string())).collect::<Vec<_>>(), auth)).collect();
        let expect = if verdicts.iter().any(|v| v.expect == Expect::Refuse) { Expect::Refuse } else if verdicts.iter().all(|v| v.expect == Expect::Run) { Expect::Run } else { Expect::Either };
        let mut raw = format!("GET {path} HTTP/1.1\r\nHost: h\r\n").into_bytes();
        if let Some(a) = auth { raw.extend_from_slice(b"Authorization: "); raw.extend_from_slice(a); raw.extend_from_slice(b"\r\n") }
        raw.extend_from_slice(b"\r\n");
        let before = RUNS.load(Ordering::SeqCst);
        let out = app::oneshot(&c.router, &raw);
        let ran = RUNS.load(Ordering::SeqCst) != before;
        ctx.transitions += 1;
        readable.push(json!({"path": path, "authorization": menu[mi].0}));
        let last = k + 1 == hist.len();
        let feature = format!("{}{}", if hist.len() > 1 { format!("after:{}>", menu[hist[0].1].0.split(':').next().unwrap_or("")) } else { String::new() }, menu[mi].0.split(':').next().unwrap_or(""));
        let class = |symptom: &str| format!("C13/composition:{}/{}/{}", c.kind, feature, symptom);
        let witness = |observed: String, expected: &str| {
            let w = json!({"composition": c.kind, "history": hist.iter().map(|(p, m)| json!([p, m])).collect::<Vec<_>>(), "context_last_rightly_admitted": context.map(|(p, m)| json!([p, m])), "history_readable": readable.clone(), "step": k,
                           "expected": expected, "observed": observed});
            move || w
        };
        let Some(p) = out.parsed() else { ctx.violation(&class("no-response"), true, witness(out.kind(), "a response")); return };
        let observed = format!("status {} ran={} www-authenticate={:?}", p.status, ran, p.header("www-authenticate"));
        match expect {
            Expect::Run => {
                if !ran { ctx.violation(&class(&format!("refused-should-accept:{}", p.status)), true, witness(observed, "every gate on the path holds this pair: handler runs")); return }
                *c.last_legit.borrow_mut() = Some((pi, mi));
                if last { ctx.pass("composition:ran", true, hist.len() > 1) }
            }
            Expect::Refuse => {
                if ran { ctx.violation(&class("accepted-should-refuse"), true, witness(observed, "a gate on the path does not hold this pair: 401 + challenge, handler does not run")); return }
                if p.status != 401 || !p.header("www-authenticate").is_some_and(|v| v.to_ascii_lowercase().starts_with("basic")) {
                    ctx.violation(&class(&format!("refusal-without-challenge:{}", p.status)), true, witness(observed, "401 and WWW-Authenticate: Basic")); return
                }
                if last { ctx.pass("composition:401", true, hist.len() > 1) }
            }
            Expect::Either => { if last { ctx.ambiguous(&format!("composition:{}", if ran { "ran" } else { "refused" })) } }
        }
    }
    ctx.states += 1;
    ctx.distinct_key(&(c.kind, hist.to_vec()));
}

pub fn compositions(ctx: &mut Ctx) {
    let quick = ctx.quick();
    let mut n = 0u64;
    for kind in COMP_KINDS {
        if !ctx.mine() { continue }
        let c = match build_comp(kind) {
            Ok(c) => c,
            Err(p) => { ctx.violation(&format!("C13/composition:{kind}/build/panic:{}", panic_kind(&p)), true, || json!({"composition": kind, "build_only": true, "observed": p})); continue }
        };
        let menu = comp_menu(&c);
        let reqs: Vec<(usize, usize)> = (0..c.paths.len()).flat_map(|p| (0..menu.len()).map(move |m| (p, m))).collect();
        for a in &reqs { run_comp_history(ctx, &c, &menu, &[*a]); n += 1 }
        for a in &reqs { for b in &reqs { if ctx.out_of_time() { return } run_comp_history(ctx, &c, &menu, &[*a, *b]); n += 1 } }
        if !quick { for a in &reqs { for b in &reqs { for d in &reqs { if ctx.out_of_time() { return } run_comp_history(ctx, &c, &menu, &[*a, *b, *d]); n += 1 } } } }
    }
    ctx.extra.insert("sum_composition_histories".into(), json!(n));
    ctx.extra.insert("compositions".into(), json!({"kinds": COMP_KINDS, "menu": "absent, the exact credential of every configured pair of every instance, every mixed pair across instances, a wrong password, an unpadded spelling, garbage",
        "histories": if quick { "all single requests and all ordered pairs over (path, credential)" } else { "all histories of length <= 3 over (path, credential)" }}));
}

pub fn replay_composition(ctx: &mut Ctx, case: &Value) {
    let kind = COMP_KINDS.iter().copied().find(|k| Some(*k) == case["composition"].as_str()).expect("known composition");
    let c = match build_comp(kind) {
        Ok(c) => c,
        Err(p) => { ctx.violation(&format!("C13/composition:{kind}/build/panic:{}", panic_kind(&p)), true, || json!({"composition": kind, "build_only": true, "observed": p})); return }
    };
    if case["build_only"] == true { ctx.pass("build-ok", true, true); return }
    let menu = comp_menu(&c);
    let hist: Vec<(usize, usize)> = case["history"].as_array().expect("history").iter().map(|h| (h[0].as_u64().unwrap() as usize, h[1].as_u64().unwrap() as usize)).collect();
    if let Some(h) = case["context_last_rightly_admitted"].as_array() {
        let before = ctx.violations.len();
        run_comp_history(ctx, &c, &menu, &[(h[0].as_u64().unwrap() as usize, h[1].as_u64().unwrap() as usize)]);
        if ctx.violations.len() != before { return }
    }
    run_comp_history(ctx, &c, &menu, &hist);
}
