//! C03 — responses on the wire are well-formed and never overrun their buffer (DESIGN §5 C03).
//!
//! A history is a list of public `Response` operations applied inside a real handler; the response then
//! goes through the real `Router::handle` (`complete()`, HEAD rule) and `Response::send` into memory.
//! Histories are explored breadth-first up to a depth; with `dedup` two histories are merged only when the
//! fingerprint of the *implementation's complete state* (hook H5) is identical (equal state ⇒ equal futures).
//! Oracle: boring model (ordered map of live headers + body) vs the bytes re-parsed by an independent parser.

use crate::app::{self, Outcome, CLOCK_IMF};
use crate::core::{panic_kind, Ctx};
use ohkami::__verif__::VerifRouter;
use ohkami::header::append;
use ohkami::{Ohkami, Response, Route, Status};
use serde_json::{json, Value};
use std::cell::RefCell;
use std::collections::HashSet;

#[derive(Clone, Copy, Debug, PartialEq, Eq, Hash)]
pub enum Op {
    // standard headers
    Set(Std, &'static str), Append(Std, &'static str), Remove(Std),
    // custom headers
    SetX(&'static str, &'static str), AppendX(&'static str, &'static str), RemoveX(&'static str),
    // cookies: (value, with directives)
    Cookie(&'static str, bool),
    // content
    Text(&'static str), Json, Html, Payload, DropContent,
    /// `set_stream` with a one-message stream (server-sent events: chunked coding instead of a length)
    Stream,
}
#[derive(Clone, Copy, Debug, PartialEq, Eq, Hash)]
pub enum Std { Server, Vary, ContentType, ContentEncoding }
impl Std {
    fn wire_name(self) -> &'static str { match self { Std::Server => "Server", Std::Vary => "Vary", Std::ContentType => "Content-Type", Std::ContentEncoding => "Content-Encoding" } }
}

pub fn alphabet() -> Vec<Op> {
    use Op::*; use Std::*;
    vec![
        Set(Server, "x"), Set(Server, "yy"), Append(Server, "z"), Remove(Server),
        Set(Vary, "x"), Append(Vary, "z"), Remove(Vary),
        Set(ContentType, "x/y"), Remove(ContentType),
        Set(ContentEncoding, "gzip"),
        SetX("X-A", "x"), SetX("X-A", "yy"), AppendX("X-A", "z"), RemoveX("X-A"),
        SetX("X-B", "b"), RemoveX("X-B"),
        // the by-name API given the name of a header the framework also knows as a standard one (and which no typed
        // operation of this alphabet touches): to the user it is a header like any other - set, appended to, removed by name
        SetX("Retry-After", "120"), AppendX("Retry-After", "9"), RemoveX("Retry-After"),
        Cookie("v", false), Cookie("a b;", true),
        Text(""), Text("hi"), Json, Html, Payload, DropContent, Stream,
    ]
}

fn op_name(op: &Op) -> String { format!("{op:?}") }
fn op_from_name(name: &str) -> Option<Op> { alphabet().into_iter().find(|o| op_name(o) == name) }

const PAYLOAD: &[u8] = b"\x00\xff\r\n\r\nHTTP/1.1 200 OK\r\n";

fn apply(res: &mut Response, op: &Op) {
    use Op::*;
    match *op {
        Set(h, v) => { match h { Std::Server => res.headers.set().Server(v), Std::Vary => res.headers.set().Vary(v), Std::ContentType => res.headers.set().ContentType(v), Std::ContentEncoding => res.headers.set().ContentEncoding(v) }; }
        Append(h, v) => { match h { Std::Server => res.headers.set().Server(append(v)), Std::Vary => res.headers.set().Vary(append(v)), Std::ContentType => res.headers.set().ContentType(append(v)), Std::ContentEncoding => res.headers.set().ContentEncoding(append(v)) }; }
        Remove(h) => { match h { Std::Server => res.headers.set().Server(None), Std::Vary => res.headers.set().Vary(None), Std::ContentType => res.headers.set().ContentType(None), Std::ContentEncoding => res.headers.set().ContentEncoding(None) }; }
        SetX(n, v) => { res.headers.set().x(n, v); }
        AppendX(n, v) => { res.headers.set().x(n, append(v)); }
        RemoveX(n) => { res.headers.set().x(n, None); }
        Cookie(v, dirs) => { if dirs { res.headers.set().SetCookie("c", v, |d| d.Path("/p").Secure().MaxAge(60)); } else { res.headers.set().SetCookie("c", v, |d| d); } }
        Text(t) => res.set_text(t),
        Json => res.set_json(serde_json::json!({"a": 1})),
        Html => res.set_html("<p>\u{e9}</p>"),
        Payload => res.set_payload("application/octet-stream", PAYLOAD),
        DropContent => { let _ = res.drop_content(); }
        Stream => res.set_stream(One(Some("m".to_string()))),
    }
}

/// a stream of exactly one message
struct One(Option<String>);
impl ohkami::util::Stream for One {
    type Item = String;
    fn poll_next(mut self: std::pin::Pin<&mut Self>, _cx: &mut std::task::Context<'_>) -> std::task::Poll<Option<String>> { std::task::Poll::Ready(self.0.take()) }
}

/* ---------------- model ---------------- */

#[derive(Clone, Debug, Default, PartialEq)]
struct Model {
    /// live headers in no particular order: (wire name, value)
    headers: Vec<(String, String)>,
    cookies: usize,
    body: Option<Vec<u8>>,
    /// the content is a stream: chunked coding instead of Content-Length
    stream: bool,
}
impl Model {
    fn set(&mut self, n: &str, v: String) { match self.headers.iter_mut().find(|(k, _)| k == n) { Some(e) => e.1 = v, None => self.headers.push((n.into(), v)) } }
    fn append(&mut self, n: &str, v: &str) { match self.headers.iter_mut().find(|(k, _)| k == n) { Some(e) => { e.1.push_str(", "); e.1.push_str(v) } None => self.headers.push((n.into(), v.into())) } }
    fn remove(&mut self, n: &str) { self.headers.retain(|(k, _)| k != n) }
    fn apply(&mut self, op: &Op) {
        use Op::*;
        match *op {
            Set(h, v) => self.set(h.wire_name(), v.into()),
            Append(h, v) => self.append(h.wire_name(), v),
            Remove(h) => self.remove(h.wire_name()),
            SetX(n, v) => self.set(n, v.into()),
            AppendX(n, v) => self.append(n, v),
            RemoveX(n) => self.remove(n),
            Cookie(..) => self.cookies += 1,
            Text(t) => { self.set("Content-Type", "text/plain; charset=UTF-8".into()); self.body = Some(t.as_bytes().to_vec()); self.stream = false }
            Json => { self.set("Content-Type", "application/json".into()); self.body = Some(br#"{"a":1}"#.to_vec()); self.stream = false }
            Html => { self.set("Content-Type", "text/html; charset=UTF-8".into()); self.body = Some("<p>\u{e9}</p>".as_bytes().to_vec()); self.stream = false }
            Payload => { self.set("Content-Type", "application/octet-stream".into()); self.body = Some(PAYLOAD.to_vec()); self.stream = false }
            DropContent => { self.remove("Content-Type"); self.body = None; self.stream = false }
            Stream => { self.set("Content-Type", "text/event-stream".into()); self.set("Cache-Control", "no-cache, must-revalidate".into()); self.body = Some(b"data: m\n\n".to_vec()); self.stream = true }
        }
    }
}

/* ---------------- driving the real code ---------------- */

thread_local! {
    static CURRENT: RefCell<(u16, Vec<Op>)> = const { RefCell::new((200, Vec::new())) };
    static LAST_STATE: RefCell<Option<(Vec<u8>, usize)>> = const { RefCell::new(None) };
}

thread_local! { static BIG: std::cell::Cell<Option<(usize, u8)>> = const { std::cell::Cell::new(None) }; }

/// body of phase 4: n bytes that cannot be confused with framing when shifted (no CR/LF, position-dependent)
fn big_body(n: usize, kind: u8) -> Vec<u8> { (0..n).map(|i| if kind == 0 { b'a' + (i % 23) as u8 } else { ((i * 7 + i / 251) % 256) as u8 }).collect() }

fn build_response() -> Response {
    CURRENT.with(|c| {
        let (status, ops) = &*c.borrow();
        let mut res = Response::new(Status::from(*status));
        for op in ops { apply(&mut res, op) }
        if let Some((n, kind)) = BIG.with(|b| b.get()) {
            match kind {
                0 => res.set_text(String::from_utf8(big_body(n, 0)).unwrap()),
                1 => res.set_payload("application/octet-stream", big_body(n, 1)),
                _ => res.set_html(String::from_utf8(big_body(n, 0)).unwrap()),
            }
        }
        let mut fp = res.headers.__verif_fingerprint();
        let (kind, bytes) = res.__verif_content();
        fp.push(kind); fp.extend_from_slice(bytes);
        LAST_STATE.with(|s| *s.borrow_mut() = Some((fp, res.__verif_declared_len())));
        res
    })
}

fn router() -> VerifRouter {
    VerifRouter::from(Ohkami::new("/".GET(|| async { build_response() })))
}

/// the last op that touched the header `name` (class feature)
fn last_pattern(history: &[Op], name: &str) -> String {
    let touches = |op: &Op| -> Option<&'static str> {
        use Op::*;
        match *op {
            Set(h, _) if h.wire_name().eq_ignore_ascii_case(name) => Some("set"),
            Append(h, _) if h.wire_name().eq_ignore_ascii_case(name) => Some("append"),
            Remove(h) if h.wire_name().eq_ignore_ascii_case(name) => Some("remove"),
            SetX(n, _) if n.eq_ignore_ascii_case(name) => Some("set"),
            AppendX(n, _) if n.eq_ignore_ascii_case(name) => Some("append"),
            RemoveX(n) if n.eq_ignore_ascii_case(name) => Some("remove"),
            Text(_) | Json | Html | Payload if name.eq_ignore_ascii_case("Content-Type") || name.eq_ignore_ascii_case("Content-Length") => Some("payload"),
            Stream if name.eq_ignore_ascii_case("Content-Type") || name.eq_ignore_ascii_case("Content-Length") || name.eq_ignore_ascii_case("Cache-Control") => Some("stream"),
            DropContent if name.eq_ignore_ascii_case("Content-Type") || name.eq_ignore_ascii_case("Content-Length") => Some("drop"),
            _ => None,
        }
    };
    let t: Vec<&str> = history.iter().filter_map(touches).collect();
    let tail = &t[t.len().saturating_sub(3)..];
    if tail.is_empty() { "untouched".into() } else { tail.join(">") }
}

fn status_class(s: u16) -> &'static str { match s { 204 => "204", 200..=299 => "2xx", 400..=499 => "4xx", _ => "5xx" } }

/// Evaluate one (history, status, method) case.  Returns the implementation-state fingerprint (for dedup).
fn check_case(ctx: &mut Ctx, router: &VerifRouter, history: &[Op], status: u16, method: &str) -> Option<Vec<u8>> {
    CURRENT.with(|c| *c.borrow_mut() = (status, history.to_vec()));
    LAST_STATE.with(|s| *s.borrow_mut() = None);
    ctx.transitions += 1;
    let out = app::oneshot(router, &app::request(method, "/", &[("Host", "h")], b""));
    let state = LAST_STATE.with(|s| s.borrow_mut().take());
    let mut model = Model::default();
    for op in history { model.apply(op) }
    let sc = status_class(status);
    let witness = |problem: &str, detail: String| json!({"history": history.iter().map(op_name).collect::<Vec<_>>(), "status": status, "method": method,
        "problem": problem, "detail": detail, "observed": match &out { Outcome::Response { raw, .. } => crate::core::esc(raw), o => o.kind() }});
    let removed_then_set = { let p: Vec<String> = ["Server", "Vary", "Content-Type", "Content-Length", "X-A", "X-B", "Retry-After"].iter().map(|h| last_pattern(history, h)).collect(); p.iter().any(|x| x.contains("remove>") || x.contains("drop>")) };
    let (raw, parsed) = match &out {
        Outcome::Response { raw, parsed, .. } => (raw, parsed),
        Outcome::Panic(stage, msg) => {
            let kind = if msg.contains("push_unchecked overruns") { "overrun".to_string() } else { format!("panic:{}", panic_kind(msg)) };
            let feature = if removed_then_set { "after-remove-then-set" } else { "plain" };
            ctx.violation(&format!("C03/{stage}/{feature}/{kind}"), true, || witness("panic", msg.clone()));
            return state.map(|s| s.0)
        }
        other => { ctx.violation(&format!("C03/{}/broken", other.kind()), true, || witness("no response", String::new())); return state.map(|s| s.0) }
    };
    let mut problems: Vec<(String, String)> = vec![];
    if let Some((_, declared)) = &state {
        // `declared` was measured before complete(); the serializer reserves status line + headers.size (+ payload): never more bytes than reserved
        let _ = declared;
    }
    match parsed {
        Err(e) => {
            let sym = if e.contains("after the end of the message") { "bytes-after-declared-end".to_string() } else if e.contains("body bytes follow") { "body-shorter-than-content-length".into() } else { format!("malformed:{}", panic_kind(e)) };
            problems.push((format!("framing/{}/{sym}", last_pattern(history, "Content-Length")), e.clone()));
        }
        Ok(p) => {
            if p.status != status { problems.push(("status-line/wrong-status".into(), format!("{}", p.status))) }
            // every live header exactly once with its latest value
            for (name, value) in &model.headers {
                if name == "Content-Type" && (status == 204) { continue } // 204 carries no content; whether Content-Type stays is not stated
                let lines = p.header_all(name);
                let pat = last_pattern(history, name);
                if lines.is_empty() {
                    // the wire name might be misspelled: look for the value under another name
                    let other = p.headers.iter().find(|(k, v)| v == value && !model.headers.iter().any(|(n, _)| n.eq_ignore_ascii_case(k)) && !["Date", "Content-Length", "Set-Cookie"].iter().any(|n| n.eq_ignore_ascii_case(k)));
                    match other { Some((k, _)) => problems.push((format!("header/{name}/wrong-name"), format!("sent as `{k}`"))),
                                  None => problems.push((format!("header/{pat}/missing"), format!("{name}"))) }
                } else if lines.len() > 1 { problems.push((format!("header/{pat}/duplicate-line"), format!("{name}: {lines:?}"))) }
                else if lines[0] != value { problems.push((format!("header/{pat}/stale-or-wrong-value"), format!("{name}: `{}` expected `{value}`", lines[0]))) }
            }
            // nothing removed or unknown
            for (k, v) in &p.headers {
                let known = model.headers.iter().any(|(n, _)| n.eq_ignore_ascii_case(k)) || ["Date", "Content-Length", "Set-Cookie", "Transfer-Encoding"].iter().any(|n| n.eq_ignore_ascii_case(k));
                if !known && !(k.eq_ignore_ascii_case("Content-Type") && status == 204) {
                    let wrong_name = problems.iter().any(|(c, d)| c.ends_with("/wrong-name") && d.contains(k.as_str()));
                    if !wrong_name { problems.push((format!("header/{}/removed-header-sent", last_pattern(history, k)), format!("{k}: {v}"))) }
                }
            }
            let dates = p.header_all("Date");
            if dates != vec![CLOCK_IMF] { problems.push(("header/date".into(), format!("{dates:?}"))) }
            if p.header_all("Set-Cookie").len() != model.cookies { problems.push(("header/set-cookie-count".into(), format!("{} lines for {} cookies", p.header_all("Set-Cookie").len(), model.cookies))) }
            // framing
            let cl = p.header_all("Content-Length");
            let body_expected: &[u8] = model.body.as_deref().unwrap_or(b"");
            let clpat = last_pattern(history, "Content-Length");
            if status == 204 {
                if !cl.is_empty() { problems.push(("framing/204/content-length-present".into(), format!("{cl:?}"))) }
                if raw.len() != p.consumed { problems.push(("framing/204/body-present".into(), String::new())) }
                // "a well-formed HTTP/1.1 message": a 204 has no content, so no coding of it either (RFC 9112 6.1: a server MUST NOT
                // send Transfer-Encoding in a 204) - a client that honours the header waits for chunks that never come
                if !p.header_all("Transfer-Encoding").is_empty() { problems.push(("framing/204/transfer-encoding-present".into(), format!("{:?}", p.header_all("Transfer-Encoding")))) }
            } else if method == "HEAD" {
                if raw.len() != p.consumed { problems.push(("framing/HEAD/body-present".into(), String::new())) }
                if cl.len() > 1 { problems.push((format!("framing/{clpat}/duplicate-content-length"), format!("{cl:?}"))) }
            } else {
                use crate::refmodel::http::Framing;
                let te = p.header_all("Transfer-Encoding");
                if model.stream && p.framing != Framing::Chunked { problems.push((format!("framing/{clpat}/stream-not-chunked"), format!("{te:?}"))) }
                if !model.stream && !te.is_empty() { problems.push((format!("framing/{clpat}/transfer-encoding-left-on-non-stream"), format!("{te:?} with Content-Length {cl:?}"))) }
                match p.framing {
                    Framing::ContentLength => {
                        if cl.len() != 1 { problems.push((format!("framing/{clpat}/duplicate-content-length"), format!("{cl:?}"))) }
                        if p.body != body_expected { problems.push((format!("framing/{clpat}/wrong-body"), format!("{} bytes, expected {}", p.body.len(), body_expected.len()))) }
                    }
                    Framing::Chunked => if p.body != body_expected { problems.push((format!("framing/{clpat}/wrong-body"), "chunked".into())) },
                    Framing::UntilClose => problems.push((format!("framing/{clpat}/no-declared-length"), format!("status {status}, {} body bytes", p.body.len()))),
                    Framing::NoBody => {}
                }
            }
        }
    }
    if problems.is_empty() {
        let collision = removed_then_set || history.iter().any(|o| matches!(o, Op::DropContent));
        ctx.pass(&format!("{method}:{sc}:{}", if model.body.is_some() { "body" } else { "nobody" }), !history.is_empty(), collision);
    } else {
        let n = problems.len() as u64;
        for (cls, detail) in &problems { ctx.violation(&format!("C03/{sc}/{cls}"), true, || witness(cls, detail.clone())); }
        ctx.evaluations -= n - 1; ctx.nontrivial -= n - 1;
    }
    state.map(|s| s.0)
}

const STATUSES: [u16; 4] = [200, 204, 404, 500];
const METHODS: [&str; 2] = ["GET", "HEAD"];

pub fn run(ctx: &mut Ctx) {
    app::pin_clock();
    let router = router();
    let alpha = alphabet();
    let (plain_depth, dedup_depth) = if ctx.quick() { (4usize, 5usize) } else { (5, 7) };
    // Phase 1: every history up to plain_depth, no merging at all.
    // Phase 2: breadth-first up to dedup_depth, merging histories whose complete implementation state is identical.
    // Work is sharded by the first operation (the empty history belongs to shard 0's first unit).
    phase4(ctx, &router);
    let mut seen_total = 0u64;
    for (fi, first) in alpha.iter().enumerate() {
        if !ctx.mine() { continue }
        if fi == 0 || ctx.nshards <= 1 && fi == 0 {
            for s in STATUSES { for m in METHODS { check_case(ctx, &router, &[], s, m); } }
            ctx.states += 1;
        }
        // phase 1
        let mut frontier: Vec<Vec<Op>> = vec![vec![*first]];
        for depth in 1..=plain_depth {
            let mut next = vec![];
            for h in &frontier {
                for s in STATUSES { for m in METHODS { check_case(ctx, &router, h, s, m); } }
                ctx.states += 1;
                if depth < plain_depth { for op in &alpha { let mut n = h.clone(); n.push(*op); next.push(n); } }
            }
            frontier = next;
            if ctx.out_of_time() { break }
        }
        // phase 2 (states beyond plain_depth only count when new)
        let mut seen: HashSet<Vec<u8>> = HashSet::new();
        let mut frontier: Vec<Vec<Op>> = vec![vec![*first]];
        for depth in 1..=dedup_depth {
            let mut next = vec![];
            for h in &frontier {
                // the fingerprint is status-independent: take it from one run, then run the other combinations only for new states
                CURRENT.with(|c| *c.borrow_mut() = (200, h.clone()));
                let fp = crate::core::guarded(|| { let _ = build_response(); LAST_STATE.with(|s| s.borrow_mut().take()).map(|s| s.0) }).ok().flatten();
                let Some(fp) = fp else { continue };
                if !seen.insert(fp) { continue }
                if depth > plain_depth {
                    for s in STATUSES { for m in METHODS { check_case(ctx, &router, h, s, m); } }
                    ctx.states += 1;
                }
                if depth < dedup_depth { for op in &alpha { let mut n = h.clone(); n.push(*op); next.push(n); } }
            }
            frontier = next;
            if ctx.out_of_time() { break }
        }
        seen_total += seen.len() as u64;
    }
    // Phase 3: long runs.  Phases 1/2 bound the *depth*; a defect that needs many repetitions on one Response (a table that
    // only grows, an 8-bit index that wraps) is out of their reach, and the implementation state of such a defect is never
    // merged by the fingerprint (it differs after every repetition).  So: every cycle w of 1..=cycle_len operations, repeated
    // k = 1..=reps times on one Response; (200, GET) is checked after every repetition, all statuses / methods after the last.
    let (cycle_len, reps) = if ctx.quick() { (2usize, 300usize) } else { (3, 300) };
    let mut cycles: Vec<Vec<Op>> = alpha.iter().map(|o| vec![*o]).collect();
    let mut layer = cycles.clone();
    for _ in 1..cycle_len {
        let mut next = vec![];
        for w in &layer { for op in &alpha { let mut n = w.clone(); n.push(*op); next.push(n); } }
        cycles.extend(next.iter().cloned());
        layer = next;
    }
    let mut cycles_run = 0u64;
    for w in &cycles {
        if !ctx.mine() { continue }
        if ctx.out_of_time() { break }
        // a cycle that never removes or replaces anything cannot grow a table: one header / cookie more per repetition is
        // a different (legitimate) long response; it is run too, the reference model handles it
        let mut h: Vec<Op> = Vec::with_capacity(w.len() * reps);
        for k in 1..=reps {
            h.extend_from_slice(w);
            if k == reps { for s in STATUSES { for m in METHODS { check_case(ctx, &router, &h, s, m); } } }
            else { check_case(ctx, &router, &h, 200, "GET"); }
        }
        ctx.states += 1;
        cycles_run += 1;
    }
    ctx.extra.insert("long_run_cycles".into(), json!(cycles_run));
    ctx.extra.insert("sum_distinct_impl_states".into(), json!(seen_total));
    ctx.extra.insert("rule".into(), json!("case = (history of public Response operations, status, request method); phase 1 runs every history up to the plain depth; phase 2 continues breadth-first to the dedup depth, merging two histories only when the fingerprint of the implementation's complete header state (slot table, value vector incl. dead entries, size, custom map, cookie list) and content are identical; non-trivial = non-empty history; collision = a header was removed (or content dropped) and touched again, or content dropped - the histories in which stale slots / under-counted sizes can arise"));
    ctx.extra.insert("bounds".into(), json!({"operations": alpha.iter().map(op_name).collect::<Vec<_>>(), "statuses": STATUSES, "methods": METHODS, "plain_depth": plain_depth, "dedup_depth": dedup_depth,
        "long_runs": format!("every cycle of 1..={cycle_len} operations repeated 1..={reps} times on one Response, checked after every repetition")}));
    ctx.traces_validated = ctx.transitions;
    ctx.sample(|| json!({"history": ["Set(Server, \"x\")", "Remove(Server)", "Set(Server, \"yy\")"], "status": 200, "method": "GET"}));
}

/* ---------------- phase 4: payload sizes x what the connection takes per write ---------------- */

const BIG_SIZES: [usize; 17] = [0, 1, 100, 1023, 1024, 1025, 4095, 4096, 4097, 8192, 16384, 65535, 65536, 65537, 100_000, 262_144, 300_001];
fn big_writers(n: usize) -> Vec<(crate::sio::WriterMode, &'static str)> {
    use crate::sio::WriterMode::*;
    let mut v = vec![(All, "all"), (PendingOnce, "pending-once"), (AtMost(65536), "atmost65536"), (AtMost(4096), "atmost4096"), (AtMost(1000), "atmost1000")];
    if n <= 16384 { v.push((AtMost(7), "atmost7")) }
    if n <= 4097 { v.push((AtMost(1), "atmost1")) }
    v
}
fn writer_by_name(name: &str) -> crate::sio::WriterMode {
    use crate::sio::WriterMode::*;
    match name { "all" => All, "pending-once" => PendingOnce, "atmost65536" => AtMost(65536), "atmost4096" => AtMost(4096), "atmost1000" => AtMost(1000), "atmost7" => AtMost(7), "atmost1" => AtMost(1), o => panic!("writer {o}") }
}

fn check_big(ctx: &mut Ctx, router: &VerifRouter, n: usize, kind: u8, writer: &str, method: &str, pre: &[Op]) {
    CURRENT.with(|c| *c.borrow_mut() = (200, pre.to_vec()));
    BIG.with(|b| b.set(Some((n, kind))));
    ctx.transitions += 1;
    let out = app::oneshot_with_writer(router, &app::request(method, "/", &[("Host", "h")], b""), writer_by_name(writer));
    BIG.with(|b| b.set(None));
    let size_class = if n == 0 { "empty" } else if n < 1024 { "small" } else if n <= 65536 { "medium" } else { "large" };
    let class = |sym: &str| format!("C03/send/payload-{size_class}/writer:{}/{sym}", writer.trim_end_matches(char::is_numeric));
    let witness = |detail: String| { let w = json!({"big": {"size": n, "kind": kind, "writer": writer, "method": method, "pre": pre.iter().map(op_name).collect::<Vec<_>>()}, "detail": detail}); move || w };
    let (raw, parsed) = match &out {
        Outcome::Response { raw, parsed, .. } => (raw, parsed),
        Outcome::Panic(stage, msg) => { ctx.violation(&class(&format!("panic@{stage}:{}", panic_kind(msg))), true, witness(msg.clone())); return }
        other => { ctx.violation(&class(&format!("no-response:{}", other.kind())), true, witness(String::new())); return }
    };
    let want = big_body(n, if kind == 1 { 1 } else { 0 });
    match parsed {
        Err(e) => ctx.violation(&class("malformed-or-truncated"), true, witness(format!("{e}; {} bytes written", raw.len()))),
        Ok(p) => {
            let declared = p.header("content-length").and_then(|v| v.parse::<usize>().ok());
            // "Content-Length equal to the body length, or chunked coding": a declared length must be the right one; chunked is as good
            let chunked = p.framing == crate::refmodel::http::Framing::Chunked;
            if !chunked && declared != Some(n) && !(method == "HEAD" && declared.is_none() && p.header("transfer-encoding").is_some()) { ctx.violation(&class("content-length"), true, witness(format!("Content-Length {declared:?}, payload of {n} bytes"))) }
            else if method == "HEAD" { if p.body.is_empty() { ctx.pass("big:head", n > 0, n > 65536) } else { ctx.violation(&class("head-with-body"), true, witness(format!("{} body bytes", p.body.len()))) } }
            else if p.body != want {
                let at = p.body.iter().zip(want.iter()).position(|(a, b)| a != b).unwrap_or(p.body.len().min(want.len()));
                ctx.violation(&class("wrong-body-bytes"), true, witness(format!("{} body bytes, first difference at {at}", p.body.len())))
            } else { ctx.pass(&format!("big:{size_class}"), n > 0, n > 65536) }
        }
    }
    ctx.states += 1;
}

fn phase4(ctx: &mut Ctx, router: &VerifRouter) {
    let pres: [&[Op]; 3] = [&[], &[Op::SetX("X-A", "x"), Op::Cookie("v", false)], &[Op::Stream]];
    let mut n_cases = 0u64;
    for &n in &BIG_SIZES { for kind in 0..3u8 {
        if !ctx.mine() { continue }
        for (_, wname) in big_writers(n) { for method in ["GET", "HEAD"] { for pre in pres {
            if ctx.quick() && n > 100_000 && (wname == "atmost1000" || kind == 2) { continue }
            check_big(ctx, router, n, kind, wname, method, pre); n_cases += 1;
        } } }
    } }
    ctx.extra.insert("sum_phase4_cases".into(), json!(n_cases));
    ctx.extra.insert("phase4".into(), json!({"sizes": BIG_SIZES, "kinds": ["text", "payload", "html"], "writers": "all / pending-once / at most 65536, 4096, 1000 (7 up to 16 KiB, 1 up to 4 KiB) bytes per write", "before": ["nothing", "a custom header and a cookie", "a stream that the payload replaces"]}));
}

pub fn replay(ctx: &mut Ctx, case: &Value) {
    app::pin_clock();
    let router = router();
    if let Some(b) = case.get("big") {
        let pre: Vec<Op> = b["pre"].as_array().map(|a| a.iter().map(|n| op_from_name(n.as_str().unwrap()).expect("unknown op")).collect()).unwrap_or_default();
        check_big(ctx, &router, b["size"].as_u64().unwrap() as usize, b["kind"].as_u64().unwrap() as u8, b["writer"].as_str().unwrap(), b["method"].as_str().unwrap_or("GET"), &pre);
        return
    }
    let history: Vec<Op> = case["history"].as_array().expect("history").iter().map(|n| op_from_name(n.as_str().unwrap()).expect("unknown op")).collect();
    let status = case["status"].as_u64().unwrap_or(200) as u16;
    let method = case["method"].as_str().unwrap_or("GET").to_string();
    check_case(ctx, &router, &history, status, &method);
}
