//! C02 — HTTP/1.1 request bytes are parsed faithfully, malformed bytes are refused (DESIGN §5 C02).
//!
//! Deviation-bounded enumeration: deviation 0 = every well-formed request of a product of small menus;
//! deviation 1 = every single edit (structural edit or truncation point) on every base; deviation 2 = every
//! pair on a reduced base set.  Each byte string is the first read of a fresh connection through the real
//! `Request::read`; afterwards every public accessor is called.  Oracle: independent reference parser of
//! exactly the subset the statement names (refmodel/httpreq.rs).

use crate::core::{guarded, panic_kind, Ctx};
use crate::exec::{Driver, RunResult};
use crate::refmodel::http::parse_response;
use crate::refmodel::httpreq::{parse_request, pct_decode, Parse, RefRequest, METHODS};
use crate::sio::{ScriptedReader, ScriptedWriter, WriterMode};
use ohkami::__verif__::{send, RawConn};
use serde_json::{json, Value};

/* ---------------- bases ---------------- */

#[derive(Clone, Debug)]
pub struct Base { pub method: &'static str, pub target: Vec<u8>, pub headers: Vec<(&'static str, &'static str)>, pub body: Vec<u8>, pub with_cl: bool }

const HEADER_MENU: [(&str, &str); 13] = [
    ("X-Custom", "v3"),
    ("Host", "h.example"), ("host", "lower.example"), ("Content-type", "text/plain"),
    ("X-Custom", "v1"), ("x-custom", "v2"), ("Accept", "a, b"), ("Accept", "c"),
    ("X-Empty", ""), ("X-Sp", "a b: c"), ("Connection", "close"), ("Cookie", "a=1"), ("Cookie", "b=2"),
];
const TARGET_MENU: [&str; 13] = ["/", "/a", "/a/", "/a/b", "/a?x=1", "/a?x=1&y=%20", "/a?", "/%41", "/a%2Fb", "/%C3%A9", "/a?k=%C3%A9&e=", "/%FF", "/a?t=YQ==&n=/b?c=d"];

fn header_selections(max: usize, menu: usize) -> Vec<Vec<usize>> {
    let mut out = vec![vec![]];
    let mut frontier = vec![vec![]];
    for _ in 0..max {
        let mut next = vec![];
        for s in &frontier { for i in 0..menu { if !s.contains(&i) { let mut n: Vec<usize> = s.clone(); n.push(i); next.push(n) } } }
        out.extend(next.iter().cloned());
        frontier = next;
    }
    out
}

impl Base {
    pub fn head(&self) -> Vec<u8> {
        let mut v = Vec::new();
        v.extend_from_slice(self.method.as_bytes()); v.push(b' '); v.extend_from_slice(&self.target); v.extend_from_slice(b" HTTP/1.1\r\n");
        for (k, val) in &self.headers { v.extend_from_slice(k.as_bytes()); v.extend_from_slice(b": "); v.extend_from_slice(val.as_bytes()); v.extend_from_slice(b"\r\n"); }
        if self.with_cl { v.extend_from_slice(format!("Content-Length: {}\r\n", self.body.len()).as_bytes()); }
        v.extend_from_slice(b"\r\n");
        v
    }
    pub fn bytes(&self) -> Vec<u8> { let mut v = self.head(); v.extend_from_slice(&self.body); v }
}

/// body variants relative to the head: none, 1 byte, NUL-leading, 5 bytes, exactly the rest of the 1 KiB buffer, one more, 2 KiB
fn bodies(head_len_without_cl: usize, full: bool) -> Vec<Vec<u8>> {
    let mut v: Vec<Vec<u8>> = vec![vec![], b"x".to_vec(), b"\0x".to_vec(), b"hello".to_vec()];
    // "Content-Length: NNN\r\n" adds 18 + digits bytes to the head
    for extra in [0isize, 1] {
        let mut n = 1024isize - head_len_without_cl as isize - 18 - 3 + extra;
        if n > 0 { if n < 100 { n += 1 } v.push((0..n).map(|i| b'a' + (i % 26) as u8).collect()); }
    }
    if full { v.push((0..2048).map(|i| b'A' + (i % 26) as u8).collect()); v.push(b"a\0b".to_vec()); }
    // "bodies of any ... content": a payload is opaque - bytes that are not UTF-8 (arriving in the same read as the head), and
    // text whose multi-byte characters lie across the end of the buffer whatever the parity of the head length
    v.push(b"\xff\xd8\xff\xe0\x00\x10JFIF\x80".to_vec());
    for pad in [0usize, 1] { let mut t = vec![b'x'; pad]; for _ in 0..600 { t.extend_from_slice("\u{e9}".as_bytes()) } v.push(t); }
    v
}

/* ---------------- edits ---------------- */

#[derive(Clone, Debug, PartialEq)]
pub enum Edit { S(&'static str), Trunc(usize) }

pub const STRUCTURAL: [&str; 36] = [
    "ver:http10", "ver:lf-only", "ver:http2", "method:lower", "method:unknown", "no-second-sp", "double-sp", "target:absolute", "target:asterisk",
    "hdr:no-space", "hdr:space-before-colon", "hdr:bare-lf", "hdr:no-colon", "hdr:obs-fold", "hdr:two-spaces",
    "cl:abc", "cl:-1", "cl:+1", "cl:1 2", "cl:20digits", "cl:40digits", "cl:two-differing", "cl:Mixed-Case-Name", "cl:larger-than-body",
    "te:chunked",
    "nul:target", "x80:target", "xff:target", "nul:name", "x80:name", "xff:name", "nul:value", "x80:value", "xff:value",
    "leading-crlf", "body:nul-first",
];

/// Apply a structural edit to the byte string of a base (None: not applicable to this base).
fn apply_structural(b: &Base, e: &str) -> Option<Vec<u8>> {
    let mut m = b.method.as_bytes().to_vec();
    let mut target = b.target.clone();
    let mut version: Vec<u8> = b" HTTP/1.1\r\n".to_vec();
    let mut sp1: Vec<u8> = b" ".to_vec();
    let mut lines: Vec<Vec<u8>> = b.headers.iter().map(|(k, v)| format!("{k}: {v}\r\n").into_bytes()).collect();
    let mut cl_line: Option<Vec<u8>> = b.with_cl.then(|| format!("Content-Length: {}\r\n", b.body.len()).into_bytes());
    let mut body = b.body.clone();
    let mut prefix: Vec<u8> = vec![];
    let first_line = |lines: &mut Vec<Vec<u8>>| -> usize { if lines.is_empty() { lines.push(b"X-Edit: v\r\n".to_vec()) } 0 };
    let ins = |v: &mut Vec<u8>, at: usize, byte: u8| { let at = at.min(v.len()); v.insert(at, byte) };
    match e {
        "ver:http10" => version = b" HTTP/1.0\r\n".to_vec(),
        "ver:lf-only" => version = b" HTTP/1.1\n".to_vec(),
        "ver:http2" => version = b" HTTP/2\r\n".to_vec(),
        "method:lower" => m = m.to_ascii_lowercase(),
        "method:unknown" => m = b"FOO".to_vec(),
        "no-second-sp" => version = b"\r\n".to_vec(),
        "double-sp" => sp1 = b"  ".to_vec(),
        "target:absolute" => { let mut t = b"http://h.example".to_vec(); t.extend_from_slice(&target); target = t }
        "target:asterisk" => target = b"*".to_vec(),
        "hdr:no-space" => { let i = first_line(&mut lines); let l = &mut lines[i]; let c = l.iter().position(|x| *x == b':')?; l.remove(c + 1); }
        "hdr:space-before-colon" => { let i = first_line(&mut lines); let l = &mut lines[i]; let c = l.iter().position(|x| *x == b':')?; l.insert(c, b' '); }
        "hdr:bare-lf" => { let i = first_line(&mut lines); let l = &mut lines[i]; let n = l.len(); l.remove(n - 2); }
        "hdr:no-colon" => { let i = first_line(&mut lines); let l = &mut lines[i]; let c = l.iter().position(|x| *x == b':')?; l.drain(c..c + 2); }
        "hdr:obs-fold" => { let i = first_line(&mut lines); lines.insert(i + 1, b" folded\r\n".to_vec()); }
        "hdr:two-spaces" => { let i = first_line(&mut lines); let l = &mut lines[i]; let c = l.iter().position(|x| *x == b':')?; l.insert(c + 1, b' '); }
        "cl:abc" => cl_line = Some(b"Content-Length: abc\r\n".to_vec()),
        "cl:-1" => cl_line = Some(b"Content-Length: -1\r\n".to_vec()),
        "cl:+1" => { cl_line = Some(b"Content-Length: +1\r\n".to_vec()); if body.is_empty() { body = b"x".to_vec() } }
        "cl:1 2" => cl_line = Some(b"Content-Length: 1 2\r\n".to_vec()),
        "cl:20digits" => cl_line = Some(b"Content-Length: 99999999999999999999\r\n".to_vec()),
        "cl:40digits" => cl_line = Some(b"Content-Length: 1000000000000000000000000000000000000000\r\n".to_vec()),
        "cl:two-differing" => { if body.is_empty() { body = b"xy".to_vec() } cl_line = Some(format!("Content-Length: {}\r\nContent-Length: {}\r\n", body.len(), body.len() - 1).into_bytes()) }
        "cl:Mixed-Case-Name" => { if body.is_empty() { body = b"xy".to_vec() } cl_line = Some(format!("Content-length: {}\r\n", body.len()).into_bytes()) }
        "cl:larger-than-body" => cl_line = Some(format!("Content-Length: {}\r\n", body.len() + 3).into_bytes()),
        "te:chunked" => { cl_line = Some(b"Transfer-Encoding: chunked\r\n".to_vec()); body = b"1\r\nx\r\n0\r\n\r\n".to_vec() }
        "nul:target" => ins(&mut target, 1, 0), "x80:target" => ins(&mut target, 1, 0x80), "xff:target" => ins(&mut target, 1, 0xff),
        "nul:name" => { let i = first_line(&mut lines); ins(&mut lines[i], 1, 0) }
        "x80:name" => { let i = first_line(&mut lines); ins(&mut lines[i], 1, 0x80) }
        "xff:name" => { let i = first_line(&mut lines); ins(&mut lines[i], 1, 0xff) }
        "nul:value" => { let i = first_line(&mut lines); let n = lines[i].len(); ins(&mut lines[i], n - 2, 0) }
        "x80:value" => { let i = first_line(&mut lines); let n = lines[i].len(); ins(&mut lines[i], n - 2, 0x80) }
        "xff:value" => { let i = first_line(&mut lines); let n = lines[i].len(); ins(&mut lines[i], n - 2, 0xff) }
        "leading-crlf" => prefix = b"\r\n".to_vec(),
        "body:nul-first" => { body = b"\0abc".to_vec(); cl_line = Some(b"Content-Length: 4\r\n".to_vec()) }
        _ => return None,
    }
    let mut v = prefix;
    v.extend_from_slice(&m); v.extend_from_slice(&sp1); v.extend_from_slice(&target); v.extend_from_slice(&version);
    for l in &lines { v.extend_from_slice(l) }
    if let Some(l) = &cl_line { v.extend_from_slice(l) }
    v.extend_from_slice(b"\r\n");
    v.extend_from_slice(&body);
    Some(v)
}

/// truncation points of a byte string: every prefix of the first 96 bytes, around the end of the head, and the last bytes
fn trunc_points(bytes: &[u8], dense: bool) -> Vec<usize> {
    let n = bytes.len();
    let head_end = bytes.windows(4).position(|w| w == b"\r\n\r\n").map(|p| p + 4).unwrap_or(n);
    let mut v: Vec<usize> = (0..n.min(if dense { 96 } else { 40 })).collect();
    for d in 0..6 { if head_end > d { v.push(head_end - d) } if head_end + d < n { v.push(head_end + d) } if n > d + 1 { v.push(n - 1 - d) } }
    v.retain(|p| *p < n);
    v.sort(); v.dedup();
    v
}

/* ---------------- running the implementation ---------------- */

#[derive(Debug, Clone, PartialEq)]
pub struct Fields {
    method: String,
    path: Result<String, String>,
    query: Result<Vec<(String, String)>, String>,
    payload: Option<Vec<u8>>,
    /// (lookup spelling, result)
    lookups: Vec<(String, Result<Option<String>, String>)>,
    typed: Vec<(&'static str, Result<Option<String>, String>)>,
}

#[derive(Debug, Clone, PartialEq)]
pub enum Obs { Accepted(Fields), Refused(Vec<u8>), Closed, Panic(&'static str, String), Stall }

fn title_case(name: &str) -> String {
    let mut out = String::new(); let mut up = true;
    for c in name.chars() { if up { out.push(c.to_ascii_uppercase()) } else { out.push(c.to_ascii_lowercase()) } up = c == '-'; }
    out
}

pub fn run_impl(bytes: &[u8], lookup_names: &[String]) -> Obs { run_impl_env(bytes, lookup_names, false) }

/// `peer_closes`: the environment answers the read after the last delivered byte with end-of-stream instead of "nothing yet"
pub fn run_impl_env(bytes: &[u8], lookup_names: &[String], peer_closes: bool) -> Obs {
    let mut conn = RawConn::init();
    let mut reader = ScriptedReader::new(vec![bytes.to_vec()], peer_closes);
    reader.deliver_next();
    let mut d = Driver::new();
    let read = guarded(|| {
        let fut = conn.read(&mut reader);
        let mut fut = std::pin::pin!(fut);
        match d.run(fut.as_mut(), 1000) { RunResult::Ready(r) => Some(r), _ => None }
    });
    match read {
        Err(p) => Obs::Panic("read", p),
        Ok(None) => Obs::Stall,
        Ok(Some(Ok(None))) => Obs::Closed,
        Ok(Some(Err(res))) => {
            let mut w = ScriptedWriter::new(WriterMode::All);
            match guarded(|| { let fut = send(res, &mut w); let mut fut = std::pin::pin!(fut); matches!(d.run(fut.as_mut(), 1000), RunResult::Ready(_)) }) {
                Ok(true) => Obs::Refused(w.written),
                Ok(false) => Obs::Stall,
                Err(p) => Obs::Panic("send", p),
            }
        }
        Ok(Some(Ok(Some(())))) => {
            let req = conn.request();
            let g = |f: &dyn Fn() -> Option<String>| guarded(|| f());
            let fields = Fields {
                method: format!("{}", req.method),
                path: guarded(|| req.path.str().into_owned()),
                query: guarded(|| req.query.iter().map(|(k, v)| (k.into_owned(), v.into_owned())).collect()),
                payload: req.payload().map(|p| p.to_vec()),
                lookups: lookup_names.iter().map(|n| (n.clone(), g(&|| req.headers.get(n).map(str::to_string)))).collect(),
                typed: vec![
                    ("Host", g(&|| req.headers.Host().map(str::to_string))),
                    ("Content-Length", g(&|| req.headers.ContentLength().map(str::to_string))),
                    ("Content-Type", g(&|| req.headers.ContentType().map(str::to_string))),
                    ("Accept", g(&|| req.headers.Accept().map(str::to_string))),
                    ("Connection", g(&|| req.headers.Connection().map(str::to_string))),
                    ("Cookie", g(&|| req.headers.Cookie().map(str::to_string))),
                ],
            };
            Obs::Accepted(fields)
        }
    }
}

const STD_NAMES: [&str; 6] = ["Host", "Content-Length", "Content-Type", "Accept", "Connection", "Cookie"];

fn name_kind(written: &[&str]) -> &'static str {
    let is_std = STD_NAMES.iter().any(|s| s.eq_ignore_ascii_case(written[0]));
    let repeated = written.len() > 1;
    let spell = |w: &str| if !is_std { "custom" } else if STD_NAMES.contains(&w) { "std-canonical" } else if w.chars().all(|c| !c.is_ascii_uppercase()) { "std-lower" } else { "std-mixed-case" };
    let mut kinds: Vec<&str> = written.iter().map(|w| spell(w)).collect(); kinds.sort(); kinds.dedup();
    match (kinds.as_slice(), repeated) {
        (["custom"], false) => "custom", (["custom"], true) => if written.iter().any(|w| *w != written[0]) { "custom-repeated-other-case" } else { "custom-repeated" },
        (["std-canonical"], false) => "std-canonical", (["std-lower"], false) => "std-lower", (["std-mixed-case"], false) => "std-mixed-case",
        (_, true) if kinds.contains(&"std-mixed-case") => "std-repeated-mixed-case", (_, true) => "std-repeated", _ => "other",
    }
}

/// Compare one case.  `dev` names the deviation(s) for the witness; `edit_feature` enters the class id.
pub fn check_bytes(ctx: &mut Ctx, bytes: &[u8], dev: &str, edit_feature: &str) {
    ctx.transitions += 1;
    let reference = parse_request(bytes);
    // header names to look up: every name of the reference request in three spellings
    let mut lookup_names: Vec<String> = vec![];
    if let Parse::Complete(r) = &reference {
        for (n, _) in &r.headers { for s in [n.clone(), n.to_ascii_lowercase(), title_case(n)] { if !lookup_names.contains(&s) { lookup_names.push(s) } } }
    }
    let obs = run_impl(bytes, &lookup_names);
    let witness = |problem: &str, detail: String| json!({"input": crate::core::esc(bytes), "deviation": dev, "reference": match &reference { Parse::Complete(r) => format!("complete(consumed {}, head {})", r.consumed, r.head_len), o => format!("{o:?}") },
        "problem": problem, "detail": detail, "observed": match &obs { Obs::Accepted(f) => format!("accepted {} {:?} payload {:?}", f.method, f.path, f.payload.as_ref().map(|p| crate::core::esc(&p[..p.len().min(40)]))), Obs::Refused(r) => format!("refused: {}", crate::core::esc(&r[..r.len().min(60)])), o => format!("{o:?}") }});
    let okind = match &obs { Obs::Accepted(_) => "accepted", Obs::Refused(_) => "refused", Obs::Closed => "closed", Obs::Panic(..) => "panic", Obs::Stall => "stall" };
    // a refusal must itself be a well-formed error response
    if let Obs::Refused(raw) = &obs {
        match parse_response(raw, false) {
            // (C03: "whose end the client can determine without waiting for the connection to close" holds for every response the
            //  framework sends, the parser's refusals included - they do not pass through Response::complete())
            Ok(p) if p.status >= 400 && p.consumed == raw.len() && p.framing == crate::refmodel::http::Framing::UntilClose && !matches!(p.status, 100..=199 | 204 | 304) => {
                ctx.violation(&format!("C02/refusal/{edit_feature}/no-declared-length({})", p.status), true, || witness("the refusal declares neither Content-Length nor chunked coding", String::new())); return }
            Ok(p) if p.status >= 400 && p.consumed == raw.len() => {}
            Ok(p) => { ctx.violation(&format!("C02/refusal/{edit_feature}/bad-error-response({})", p.status), true, || witness("refusal is not an error response", String::new())); return }
            Err(e) => { ctx.violation(&format!("C02/refusal/{edit_feature}/malformed-error-response"), true, || witness("refusal is malformed", e.clone())); return }
        }
    }
    if let Obs::Panic(stage, msg) = &obs {
        let stage_ref = match &reference { Parse::Complete(_) => "well-formed", Parse::Incomplete(s) => s, Parse::Invalid(_, r) => r };
        ctx.violation(&format!("C02/{stage}/{stage_ref}/panic:{}", panic_kind(msg)), true, || witness("panic", msg.clone()));
        return
    }
    // Environment deviation: the peer closes the connection after these bytes (the read after the last byte answers
    // end-of-stream instead of Pending).  A complete request must come out as without it; anything else must end in a
    // refusal or a close - a server cannot wait for a closed peer, and must not panic or invent a request.
    {
        ctx.transitions += 1;
        let obs_eof = run_impl_env(bytes, &lookup_names, true);
        let stage_ref = match &reference { Parse::Complete(_) => "well-formed", Parse::Incomplete(s) => s, Parse::Invalid(_, r) => r };
        let w2 = |problem: &str, detail: String| { let mut w = witness(problem, detail); w["environment"] = json!("peer closes after the last byte"); w["observed_when_peer_closes"] = json!(match &obs_eof { Obs::Accepted(f) => format!("accepted {} {:?}", f.method, f.path), Obs::Refused(r) => format!("refused: {}", crate::core::esc(&r[..r.len().min(60)])), o => format!("{o:?}") }); w };
        match (&reference, &obs_eof) {
            (_, Obs::Panic(stage, msg)) => { ctx.violation(&format!("C02/{stage}/{stage_ref}/peer-closes/panic:{}", panic_kind(msg)), true, || w2("panic when the peer closes", msg.clone())); return }
            (Parse::Complete(_), o) => if *o != obs && !matches!(obs, Obs::Panic(..)) {
                ctx.violation(&format!("C02/well-formed/{edit_feature}/peer-closes/result-differs"), true, || w2("a complete request is treated differently when the peer closes after it", String::new())); return
            },
            (_, Obs::Stall) => { ctx.violation(&format!("C02/{stage_ref}/{edit_feature}/peer-closes/stall"), true, || w2("waits although the peer has closed", String::new())); return }
            (Parse::Incomplete(stage), Obs::Accepted(_)) => { ctx.violation(&format!("C02/incomplete-{stage}/{edit_feature}/peer-closes/accepted-incomplete-request"), true, || w2("a proper prefix of a request was accepted as a request", String::new())); return }
            (Parse::Invalid(stage, reason), Obs::Accepted(_)) => { ctx.violation(&format!("C02/{stage}/{reason}/peer-closes/accepted-should-refuse"), true, || w2("accepted", String::new())); return }
            _ => {}
        }
    }
    match &reference {
        Parse::Invalid(stage, reason) => match &obs {
            Obs::Refused(_) | Obs::Closed => ctx.pass(&format!("invalid:{stage}:{okind}"), true, true),
            Obs::Accepted(_) => ctx.violation(&format!("C02/{stage}/{reason}/accepted-should-refuse"), true, || witness("accepted", String::new())),
            // the end of the head (CRLF CRLF) has not arrived: waiting for it is not "a wait for input that already arrived",
            // whatever the bytes so far look like (a server may validate a head only once it is complete)
            Obs::Stall if !bytes.windows(4).any(|w| w == b"\r\n\r\n") => ctx.pass(&format!("invalid:{stage}:waits-for-end-of-head"), true, true),
            Obs::Stall => ctx.violation(&format!("C02/{stage}/{reason}/stall"), true, || witness("waits although a complete head was delivered and the input can never become a valid request", String::new())),
            Obs::Panic(..) => unreachable!(),
        },
        Parse::Incomplete(stage) => match &obs {
            Obs::Stall | Obs::Refused(_) | Obs::Closed => ctx.pass(&format!("incomplete:{stage}:{okind}"), true, true),
            Obs::Accepted(_) => ctx.violation(&format!("C02/incomplete-{stage}/{edit_feature}/accepted-incomplete-request"), true, || witness("a proper prefix of a request was accepted as a request", String::new())),
            Obs::Panic(..) => unreachable!(),
        },
        Parse::Complete(r) => {
            let oversized = r.head_len > 1024;
            let open = !r.open.is_empty();
            match &obs {
                Obs::Refused(_) | Obs::Closed => {
                    if oversized || open { ctx.ambiguous(if oversized { "head-larger-than-buffer" } else { r.open[0] }) }
                    else { ctx.violation(&format!("C02/well-formed/{edit_feature}/refused-should-accept"), true, || witness("refused", String::new())) }
                }
                Obs::Stall => {
                    let f = if r.body.first() == Some(&0) { "body-starts-with-nul" } else if oversized { "head-larger-than-buffer" } else { edit_feature };
                    ctx.violation(&format!("C02/well-formed/{f}/stall"), true, || witness("waits for input that already arrived", String::new()))
                }
                Obs::Accepted(f) => compare_fields(ctx, r, f, edit_feature, oversized || open, &witness),
                Obs::Panic(..) => unreachable!(),
            }
        }
    }
}

fn compare_fields(ctx: &mut Ctx, r: &RefRequest, f: &Fields, edit_feature: &str, lenient: bool, witness: &dyn Fn(&str, String) -> Value) {
    let mut problems: Vec<(String, String)> = vec![];
    if f.method != r.method { problems.push(("method/wrong-value".into(), f.method.clone())) }
    // path
    match (&f.path, pct_decode(&r.raw_path).and_then(|d| String::from_utf8(d).ok())) {
        (Err(p), decoded) => problems.push((format!("accessor:path.str/{}/panic:{}", if decoded.is_some() { "decodable" } else { "non-utf8-escape" }, panic_kind(p)), p.clone())),
        (Ok(got), Some(want)) => { let stripped = if want.len() > 1 { want.strip_suffix('/').unwrap_or(&want).to_string() } else { want.clone() };
            if *got != want && *got != stripped { problems.push(("path/wrong-value".into(), format!("`{got}` expected `{want}`"))) } }
        (Ok(_), None) => {}
    }
    // query
    match (&f.query, r.query_pairs()) {
        (Err(p), _) => problems.push((format!("accessor:query.iter/panic:{}", panic_kind(p)), p.clone())),
        (Ok(got), Some(want)) => {
            let want: Vec<(String, String)> = want.into_iter().map(|(k, v)| (String::from_utf8_lossy(&k).into_owned(), String::from_utf8_lossy(&v).into_owned())).collect();
            if *got != want { problems.push(("query/wrong-pairs".into(), format!("{got:?} expected {want:?}"))) }
        }
        _ => {}
    }
    // payload
    let want_payload = &r.body;
    match &f.payload {
        None => if !want_payload.is_empty() { problems.push((format!("payload/{}/missing", if r.headers.iter().any(|(n, _)| n == "Content-Length" || n == "content-length") { "plain" } else { "content-length-in-mixed-case" }), format!("{} bytes expected", want_payload.len()))) },
        Some(p) => if p != want_payload {
            let feat = if want_payload.first() == Some(&0) { "body-starts-with-nul" } else if r.head_len + r.body.len() > 1024 { "spans-buffer" } else { "plain" };
            problems.push((format!("payload/{feat}/wrong-bytes"), format!("{} bytes, expected {}", p.len(), want_payload.len())))
        },
    }
    // header lookups
    let mut names: Vec<String> = vec![];
    for (n, _) in &r.headers { if !names.iter().any(|x| x.eq_ignore_ascii_case(n)) { names.push(n.clone()) } }
    for n in &names {
        let written: Vec<&str> = r.headers.iter().filter(|(k, _)| k.eq_ignore_ascii_case(n)).map(|(k, _)| k.as_str()).collect();
        let kind = name_kind(&written);
        let want = r.joined(n);
        let want_s: Vec<String> = want.iter().map(|w| String::from_utf8_lossy(w).into_owned()).collect();
        for (spelling_name, spelling) in [("as-written", n.clone()), ("lower", n.to_ascii_lowercase()), ("title", title_case(n))] {
            if let Some((_, res)) = f.lookups.iter().find(|(l, _)| *l == spelling) {
                match res {
                    Err(p) => problems.push((format!("accessor:headers.get/{kind}/panic:{}", panic_kind(p)), p.clone())),
                    Ok(None) => problems.push((format!("header-lookup/{kind}/{spelling_name}/missing"), format!("get({spelling:?}) = None, expected {want_s:?}"))),
                    Ok(Some(v)) => if !want_s.contains(v) { problems.push((format!("header-lookup/{kind}/{spelling_name}/wrong-value"), format!("get({spelling:?}) = {v:?}, expected {want_s:?}"))) },
                }
            }
        }
        if let Some((tn, res)) = f.typed.iter().find(|(t, _)| t.eq_ignore_ascii_case(n)) {
            match res {
                Err(p) => problems.push((format!("accessor:typed/{kind}/panic:{}", panic_kind(p)), p.clone())),
                Ok(None) => problems.push((format!("typed-accessor/{kind}/missing"), format!("{tn}() = None, expected {want_s:?}"))),
                Ok(Some(v)) => if !want_s.contains(v) { problems.push((format!("typed-accessor/{kind}/wrong-value"), format!("{tn}() = {v:?}, expected {want_s:?}"))) },
            }
        }
    }
    // typed accessors must not invent headers
    for (tn, res) in &f.typed { if let Ok(Some(v)) = res { if !names.iter().any(|n| n.eq_ignore_ascii_case(tn)) { problems.push(("typed-accessor/invented".into(), format!("{tn}() = {v:?}"))) } } }
    if problems.is_empty() {
        ctx.pass(&format!("complete:accepted:{}h:{}", names.len().min(3), if r.body.is_empty() { "nobody" } else { "body" }), true, names.len() > 0 || !r.body.is_empty());
    } else if lenient {
        ctx.ambiguous("open-or-oversized");
    } else {
        let n = problems.len() as u64;
        for (cls, detail) in &problems { ctx.violation(&format!("C02/well-formed/{cls}"), true, || witness(cls, detail.clone())); }
        ctx.evaluations -= n - 1; ctx.nontrivial -= n - 1;
        let _ = edit_feature;
    }
}

/* ---------------- exploration ---------------- */

fn bases(full: bool) -> Vec<Base> {
    let methods: Vec<&'static str> = if full { METHODS.to_vec() } else { vec!["GET", "POST", "HEAD"] };
    let targets: Vec<&str> = if full { TARGET_MENU.to_vec() } else { TARGET_MENU.iter().copied().filter(|t| ["/", "/a/", "/a?x=1&y=%20", "/a?", "/a%2Fb", "/%C3%A9", "/%FF", "/a?t=YQ==&n=/b?c=d"].contains(t)).collect() };
    let sels = header_selections(if full { 3 } else { 2 }, HEADER_MENU.len());
    let mut out = vec![];
    for m in &methods { for t in &targets { for s in &sels {
        let headers: Vec<(&'static str, &'static str)> = s.iter().map(|&i| HEADER_MENU[i]).collect();
        let probe = Base { method: m, target: t.as_bytes().to_vec(), headers: headers.clone(), body: vec![], with_cl: false };
        let hl = probe.head().len();
        for body in bodies(hl, full) {
            let with_cl = !body.is_empty();
            out.push(Base { method: m, target: t.as_bytes().to_vec(), headers: headers.clone(), body, with_cl });
        }
    } } }
    // targets that make the head end within one byte of the 1 KiB buffer boundary
    for m in ["GET", "POST"] { for delta in [-1isize, 0, 1] { for body in [&b""[..], &b"xyz"[..]] {
        let fixed = Base { method: m, target: b"/".to_vec(), headers: vec![("Host", "h")], body: body.to_vec(), with_cl: !body.is_empty() }.head().len();
        let fill = (1024isize + delta - fixed as isize) as usize;
        let mut target = b"/".to_vec(); target.extend(std::iter::repeat(b'p').take(fill));
        out.push(Base { method: m, target, headers: vec![("Host", "h")], body: body.to_vec(), with_cl: !body.is_empty() });
    } } }
    out
}

pub fn run(ctx: &mut Ctx) {
    crate::app::pin_clock();
    let quick = ctx.quick();
    let all = bases(!quick);
    let reduced_stride = if quick { 2 } else { 1 };
    ctx.extra.insert("bases".into(), json!(all.len()));
    let mut dev_counts = [0u64; 3];
    for (bi, b) in all.iter().enumerate() {
        if !ctx.mine() { continue }
        if ctx.out_of_time() { break }
        ctx.states += 1;
        let bytes = b.bytes();
        // deviation 0
        check_bytes(ctx, &bytes, "none", "well-formed"); dev_counts[0] += 1;
        // deviation 1: every structural edit, every truncation point  (quick: on every 2nd base / thorough: every base)
        let dev1 = !quick || bi % reduced_stride == 0 || b.target.len() > 900;
        if dev1 {
            for e in STRUCTURAL { if let Some(v) = apply_structural(b, e) { check_bytes(ctx, &v, e, e); dev_counts[1] += 1; } }
            for p in trunc_points(&bytes, !quick) { check_bytes(ctx, &bytes[..p], &format!("trunc@{p}"), "truncated"); dev_counts[1] += 1; }
        }
        // deviation 2 (thorough): every pair of structural edits and every structural edit followed by a truncation, on a reduced base set
        if !quick && bi % 5 == 0 {
            for e1 in STRUCTURAL { if let Some(v1) = apply_structural(b, e1) {
                for p in trunc_points(&v1, false) { check_bytes(ctx, &v1[..p], &format!("{e1}+trunc@{p}"), e1); dev_counts[2] += 1; }
                // second structural edit applied to the same base fields where they commute (different parts): re-apply on a base rebuilt from the first edit is not possible in general,
                // so pairs are formed by applying e2 to the base and splicing: only pairs touching different parts are generated
                for e2 in STRUCTURAL { if e1 < e2 && part_of(e1) != part_of(e2) { if let Some(v) = apply_pair(b, e1, e2) { check_bytes(ctx, &v, &format!("{e1}+{e2}"), e1); dev_counts[2] += 1; } } }
            } }
        }
    }
    ctx.extra.insert("sum_dev0".into(), json!(dev_counts[0])); ctx.extra.insert("sum_dev1".into(), json!(dev_counts[1])); ctx.extra.insert("sum_dev2".into(), json!(dev_counts[2]));
    ctx.extra.insert("rule".into(), json!("case = byte string presented as the first read of a fresh connection; deviation 0 = product of menus (methods x targets x ordered header selections x bodies incl. bodies ending exactly at / one past the 1 KiB buffer, and heads ending within one byte of it); deviation 1 = one structural edit (36 kinds) or one truncation point; deviation 2 = pairs; non-trivial = every case (each is classified by the reference parser and compared); collision = the input is malformed/incomplete, or well-formed with headers or a body (the paths on which lookups, joins and payload slicing happen)"));
    ctx.extra.insert("bounds".into(), json!({"methods": if quick { 3 } else { 7 }, "targets": if quick { 8 } else { TARGET_MENU.len() }, "header_menu": HEADER_MENU.len(), "header_lines": if quick { "0..2" } else { "0..3" },
        "structural_edits": STRUCTURAL.len(), "deviation_completed": if quick { "1 (on every 2nd base), 0 on all" } else { "1 on all bases, 2 on every 5th base" }}));
    ctx.traces_validated = ctx.transitions;
    ctx.sample(|| json!({"input": "GET /a?x=1 HTTP/1.1\\r\\nHost: h.example\\r\\n\\r\\n", "deviation": "none"}));
    ctx.sample(|| json!({"input": "GET /a\\r\\nHost: h.example\\r\\n\\r\\n", "deviation": "no-second-sp"}));
}

fn part_of(e: &str) -> &'static str {
    if e.starts_with("ver:") || e == "no-second-sp" { "version" } else if e.starts_with("method:") || e == "double-sp" { "method" }
    else if e.starts_with("target:") || e.ends_with(":target") { "target" } else if e.starts_with("hdr:") || e.ends_with(":name") || e.ends_with(":value") { "header" }
    else if e.starts_with("cl:") || e.starts_with("te:") || e.starts_with("body:") { "length" } else { "prefix" }
}

/// two structural edits on different parts: apply e1, then transplant the part e2 changes
fn apply_pair(b: &Base, e1: &str, e2: &str) -> Option<Vec<u8>> {
    // Both edits are defined on the base's fields; since they touch different parts, applying e2 to a base whose e1-part was
    // already rewritten equals rewriting both parts.  We emulate by textual substitution of the differing region.
    let orig = b.bytes();
    let v1 = apply_structural(b, e1)?;
    let v2 = apply_structural(b, e2)?;
    // common prefix/suffix of (orig, v2) delimit e2's change; apply the same replacement inside v1 if the region is intact there
    let pre = orig.iter().zip(&v2).take_while(|(a, c)| a == c).count();
    let suf = orig[pre..].iter().rev().zip(v2[pre..].iter().rev()).take_while(|(a, c)| a == c).count();
    let (old_mid, new_mid) = (&orig[pre..orig.len() - suf], &v2[pre..v2.len() - suf]);
    // locate the same context in v1: the suffix after the change is the anchor
    let anchor = &orig[orig.len() - suf..];
    if !v1.ends_with(anchor) && suf > 0 {
        // e1 changed the tail (e.g. the body): try prefix anchoring
        if v1.len() >= pre + old_mid.len() && v1[..pre] == orig[..pre] && &v1[pre..pre + old_mid.len()] == old_mid {
            let mut out = v1[..pre].to_vec(); out.extend_from_slice(new_mid); out.extend_from_slice(&v1[pre + old_mid.len()..]); return Some(out)
        }
        return None
    }
    let end = v1.len() - suf;
    if end < old_mid.len() || &v1[end - old_mid.len()..end] != old_mid { return None }
    let mut out = v1[..end - old_mid.len()].to_vec(); out.extend_from_slice(new_mid); out.extend_from_slice(&v1[end..]);
    Some(out)
}

pub fn replay(ctx: &mut Ctx, case: &Value) {
    crate::app::pin_clock();
    let bytes = crate::core::unesc(case["input"].as_str().expect("input"));
    let dev = case["deviation"].as_str().unwrap_or("replay").to_string();
    let feature = if dev.starts_with("trunc@") { "truncated".to_string() } else { dev.split('+').next().unwrap_or("replay").to_string() };
    let feature = if dev == "none" { "well-formed".to_string() } else { feature };
    check_bytes(ctx, &bytes, &dev, &feature);
}
