//! C05 — requests on a keep-alive connection are handled independently and in order (DESIGN §5 C05).
//!
//! History space: all sequences (length ≤ 4 quick / ≤ 6 thorough) over a request alphabet chosen so that
//! anything surviving from an earlier request becomes visible in a later echo; one segment per request.
//! Oracle (differential, no expected values written by hand): response k must be byte-identical to the response
//! the same request gets as the only request on a fresh connection.  The loop model is bound to the real
//! `Session::manage` by replaying short histories over loopback TCP.

use crate::core::{esc, Ctx};
use crate::wire::{self, End};
use serde_json::{json, Value};

pub struct Req { pub name: &'static str, pub bytes: Vec<u8>, pub head: bool, pub closes: bool, pub kind: &'static str }

fn filler(n: usize) -> Vec<u8> { (0..n).map(|i| b'a' + (i % 26) as u8).collect() }

pub fn alphabet() -> Vec<Req> {
    let r = |name, bytes: Vec<u8>, kind| Req { name, head: bytes.starts_with(b"HEAD "), closes: false, bytes, kind };
    let post = |body: &[u8]| { let mut v = format!("POST /e HTTP/1.1\r\nHost: h\r\nContent-Type: text/plain\r\nContent-Length: {}\r\n\r\n", body.len()).into_bytes(); v.extend_from_slice(body); v };
    // a body that ends exactly at the end of the 1 KiB buffer / one byte past it
    let head_len = post(b"").len() + 2; // "0" -> 3 digits
    let exact = filler(1024 - head_len);
    let over = filler(1024 - head_len + 1);
    let mut nul_mid = b"abcde\0".to_vec(); nul_mid.extend(filler(60)); nul_mid.extend_from_slice(b"\0tail-after-second-nul");
    let mut long_query = b"GET /e?q=".to_vec(); long_query.extend(filler(600)); long_query.extend_from_slice(b" HTTP/1.1\r\nHost: h\r\nX-Long: ");
    long_query.extend(filler(200)); long_query.extend_from_slice(b"\r\n\r\n");
    let mut v = vec![
        r("get-hit", b"GET /e HTTP/1.1\r\nHost: h\r\n\r\n".to_vec(), "plain"),
        r("get-404", b"GET /missing HTTP/1.1\r\nHost: h\r\n\r\n".to_vec(), "plain"),
        r("get-params", b"GET /p/xx/yy HTTP/1.1\r\nHost: h\r\n\r\n".to_vec(), "param"),
        r("post-3", post(b"abc"), "payload"),
        r("post-nul-first", post(b"\0ab"), "payload"),
        r("post-nul-mid", post(&nul_mid), "payload"),
        r("post-buffer-exact", post(&exact), "payload"),
        r("post-buffer+1", post(&over), "payload"),
        r("post-2k", post(&filler(2048)), "payload"),
        r("get-headers", b"GET /e?k=v HTTP/1.1\r\nHost: h\r\nX-A: 1\r\nx-a: 2\r\nAccept: a\r\nAccept: b\r\nCookie: c=1\r\nUser-Agent: ua\r\n\r\n".to_vec(), "header"),
        r("get-set-context", b"GET /e HTTP/1.1\r\nHost: h\r\nX-Set-Ctx: secret-ctx\r\n\r\n".to_vec(), "context"),
        r("head-hit", b"HEAD /e HTTP/1.1\r\nHost: h\r\n\r\n".to_vec(), "plain"),
        r("get-long", long_query, "buffer"),
        r("malformed-version", b"GET /e HTTP/1.0\r\nHost: h\r\n\r\n".to_vec(), "malformed"),
        r("put-short", b"PUT /e HTTP/1.1\r\n\r\n".to_vec(), "plain"),
        // requests that are refused *after* parts of them were stored (query, header lines): what they leave behind must not
        // reach later requests either
        r("refused-transfer-encoding", b"POST /e?stale=te HTTP/1.1\r\nHost: refused\r\nX-Stale: 1\r\nTransfer-Encoding: chunked\r\n\r\n".to_vec(), "refused"),
        r("refused-content-length", b"POST /e HTTP/1.1\r\nHost: refused\r\nUser-Agent: stale-ua\r\nContent-Length: 5x\r\n\r\n".to_vec(), "refused"),
        r("refused-version-after-query", b"GET /e?stale=version HTTP/1.0\r\nHost: h\r\n\r\n".to_vec(), "refused"),
        // no query of its own, but `=` inside the bytes that a stale query slice of a longer predecessor would cover
        r("get-cookie-no-query", b"GET /e HTTP/1.1\r\nHost: h\r\nCookie: z=1\r\n\r\n".to_vec(), "header"),
        // only application-defined header fields, none of the known names (they live in a table of their own)
        // methods "without payload semantics" that carry a payload all the same: it belongs to them, not to the next request
        r("get-with-payload", b"GET /e HTTP/1.1\r\nHost: h\r\nContent-Length: 14\r\n\r\n{\"q\":\"ohkami\"}".to_vec(), "payload"),
        r("get-with-payload-looking-like-a-request", b"GET /e HTTP/1.1\r\nHost: h\r\nContent-Length: 28\r\n\r\nGET /e?smuggled HTTP/1.1\r\n\r\n".to_vec(), "payload"),
        r("get-only-custom", b"GET /e HTTP/1.1\r\nX-Api-Key: alice-secret\r\nX-Trace: t1\r\n\r\n".to_vec(), "header"),
    ];
    // refused because the head does not fit the buffer: the rest of that head is still on the connection when the refusal is
    // sent (one buffer + a bit / more than two buffers) - it must not be taken for the next request
    let oversized = |pad: usize| { let mut v = b"GET /e HTTP/1.1\r\nHost: h\r\nX-Pad: ".to_vec(); v.extend(filler(pad)); v.extend_from_slice(b"\r\n\r\n"); v };
    v.push(r("refused-head-1100", oversized(1100 - 37), "refused"));
    v.push(r("refused-head-2100", oversized(2100 - 37), "refused"));
    // `Connection: close` on a request whose hop-by-hop headers a (proxy-style) fang removes before the handler runs: what the
    // client sent decides, not what application code left in the header table
    v.push(Req { name: "get-close-stripped-by-fang", bytes: b"GET /e HTTP/1.1\r\nHost: h\r\nX-Strip-Hop-By-Hop: 1\r\nConnection: close\r\n\r\n".to_vec(), head: false, closes: true, kind: "close" });
    v.push(Req { name: "get-close", bytes: b"GET /e HTTP/1.1\r\nHost: h\r\nConnection: close\r\n\r\n".to_vec(), head: false, closes: true, kind: "close" });
    v
}

pub fn check_history(ctx: &mut Ctx, router: &ohkami::__verif__::VerifRouter, alpha: &[Req], fresh: &[Vec<u8>], hist: &[usize]) {
    ctx.transitions += hist.len() as u64;
    let segments: Vec<Vec<u8>> = hist.iter().map(|&i| alpha[i].bytes.clone()).collect();
    let obs = wire::run_mem(router, &segments);
    // A request that the *parser* refuses may end the session after its error response (C02: "answered with an error response
    // or by closing the connection"; after a refusal the server cannot know where the next request starts).  Both readings are
    // admitted: the session goes on and serves the following requests as fresh ones, or it ends right after the refusal.
    // (whether the parser refuses an input of the alphabet is observed on its fresh connection, not assumed: with a larger
    // buffer `refused-head-1100` is an ordinary request)
    let refusal_at = hist.iter().position(|&i| matches!(alpha[i].kind, "refused" | "malformed") && wire::status_of(&fresh[i]) >= 400);
    let strict = problems_of(alpha, fresh, hist, &obs, None);
    let (problems, closed_at, expected) = match (strict.0.is_empty(), refusal_at) {
        (true, _) | (false, None) => strict,
        (false, Some(r)) => { let lenient = problems_of(alpha, fresh, hist, &obs, Some(r));
            if lenient.0.is_empty() || matches!(obs.end, End::ServerClosed { .. }) { lenient } else { strict } }
    };
    let heads: Vec<bool> = hist.iter().map(|&i| alpha[i].head).collect();
    let (got, leftover) = wire::split_responses(&obs.written, &heads);
    let names: Vec<&str> = hist.iter().map(|&i| alpha[i].name).collect();
    let witness = |problem: &str, k: usize| json!({"history": names, "problem": problem, "at_request": k,
        "expected": expected.get(k).map(|e| esc(&e[..e.len().min(400)])), "observed": got.get(k).map(|e| esc(&e[..e.len().min(400)])), "end": format!("{:?}", obs.end), "leftover": esc(&leftover[..leftover.len().min(100)])});
    if problems.is_empty() {
        let collision = hist.len() >= 2 && hist.windows(2).any(|w| alpha[w[0]].kind != "plain" || alpha[w[0]].bytes.len() > alpha[w[1]].bytes.len());
        let how = match closed_at { Some(k) if alpha[hist[k]].closes => "closed", Some(_) => "ended-after-refusal", None => "kept" };
        ctx.pass(&format!("len{}:{how}", hist.len()), hist.len() >= 2, collision);
    } else {
        let (cls, k) = problems[0].clone();
        // the first violation of every class is confirmed on the real session (a model artefact must never become a verdict)
        let first_of_class = !ctx.violations.contains_key(&format!("C05/{cls}")) && !ctx.outcomes.contains_key(&format!("model-artefact:{cls}"));
        if first_of_class {
            let tcp = wire::TcpBinding::new();
            let tcp_fresh: Vec<Vec<u8>> = hist.iter().map(|&i| tcp.run(router, &[alpha[i].bytes.clone()]).map(|o| o.written).unwrap_or_default()).collect();
            // (fresh responses indexed like the alphabet: only the entries of this history are needed)
            let mut tf: Vec<Vec<u8>> = fresh.to_vec(); for (j, &i) in hist.iter().enumerate() { tf[i] = tcp_fresh[j].clone(); }
            let before = ctx.violations.len();
            let real_violates = check_history_tcp(ctx, router, &tcp, alpha, &tf, hist);
            if !real_violates { ctx.capped = true; *ctx.outcomes.entry(format!("model-artefact:{cls}")).or_insert(0) += 1;
                ctx.extra.insert("model_nonconforming".into(), json!(format!("history {names:?}: the model shows `{cls}`, the real session satisfies the oracle"))); return }
            let _ = before;
        } else if ctx.outcomes.contains_key(&format!("model-artefact:{cls}")) { *ctx.outcomes.entry(format!("model-artefact:{cls}")).or_insert(0) += 1; return }
        ctx.violation(&format!("C05/{cls}"), true, || witness(&cls, k));
    }
}

/// The oracle on one observed session.  `ends_at`: the request after whose (error) response the session is taken to end
/// (besides the first `Connection: close`).  Returns (problems, index of the request that ended the session, expected responses).
fn problems_of<'a>(alpha: &[Req], fresh: &'a [Vec<u8>], hist: &[usize], obs: &wire::SessionObs, ends_at: Option<usize>) -> (Vec<(String, usize)>, Option<usize>, Vec<&'a Vec<u8>>) {
    // expected: fresh responses up to and including the first closing request
    let mut expected: Vec<&Vec<u8>> = vec![];
    let mut closed_at = None;
    for (k, &i) in hist.iter().enumerate() { expected.push(&fresh[i]); if alpha[i].closes || ends_at == Some(k) { closed_at = Some(k); break } }
    let heads: Vec<bool> = hist.iter().map(|&i| alpha[i].head).collect();
    let (got, leftover) = wire::split_responses(&obs.written, &heads);
    let pair_feature = |k: usize| -> String { let prev = if k == 0 { "first" } else { alpha[hist[k - 1]].kind }; format!("{}>{}", prev, alpha[hist[k]].kind) };
    let mut problems: Vec<(String, usize)> = vec![];
    if !leftover.is_empty() { problems.push((format!("{}/malformed-response", pair_feature(got.len().min(hist.len() - 1))), got.len())) }
    for k in 0..expected.len().max(got.len()) {
        match (expected.get(k), got.get(k)) {
            (Some(e), Some(g)) if *e == g => {}
            (Some(e), Some(g)) => {
                // what leaked? look for material of earlier requests in the observed echo
                let mut leak = "differs";
                if wire::status_of(g) != wire::status_of(e) { leak = "status" }
                else { for &j in &hist[..k] {
                    if alpha[j].kind == "context" && find(g, b"secret-ctx") && !find(e, b"secret-ctx") { leak = "context" }
                    else if alpha[j].kind == "header" && (find(g, b"User-Agent") || find(g, b"X-A")) && !find(e, b"X-A") { leak = "header" }
                    else if alpha[j].kind == "param" && find(g, b"xx") && !find(e, b"xx") { leak = "param" }
                    else if alpha[j].kind == "payload" && find(g, b"payload=Some") && !find(e, b"payload=Some") { leak = "payload" }
                } }
                problems.push((format!("{}/response-{leak}", pair_feature(k)), k));
                break
            }
            (Some(_), None) => { problems.push((format!("{}/missing-response", pair_feature(k)), k)); break }
            (None, Some(_)) => { problems.push((if closed_at.is_some() { "after-close/extra-response".to_string() } else { "extra-response".to_string() }, k)); break }
            (None, None) => {}
        }
    }
    // how the session ended
    match (&obs.end, closed_at) {
        (End::ServerClosed { .. }, Some(_)) => {}
        (End::EndedOnClientClose, None) => {}
        (End::EndedOnClientClose, Some(k)) => problems.push(("close/session-continued-after-connection-close".into(), k)),
        (End::ServerClosed { .. }, None) => if problems.is_empty() { problems.push((format!("{}/session-closed-early", pair_feature(hist.len() - 1)), hist.len() - 1)) },
        (End::WaitingMidRequest(_), _) => if problems.is_empty() { problems.push((format!("{}/stall-at-request-boundary", pair_feature(got.len().min(hist.len() - 1))), got.len())) },
        (End::Panic(p), _) => problems.push((format!("{}/panic:{p}", pair_feature(got.len().min(hist.len() - 1))), got.len())),
        (End::Livelock, _) => problems.push(("livelock".into(), 0)),
    }
    (problems, closed_at, expected)
}

/// The oracle applied to the real `Session::manage` over loopback TCP.  Returns true if a violation was reported.
pub fn check_history_tcp(ctx: &mut Ctx, router: &ohkami::__verif__::VerifRouter, tcp: &wire::TcpBinding, alpha: &[Req], fresh: &[Vec<u8>], hist: &[usize]) -> bool {
    let segments: Vec<Vec<u8>> = hist.iter().map(|&i| alpha[i].bytes.clone()).collect();
    let real = match tcp.run(router, &segments) { Ok(r) => r, Err(e) => { ctx.machinery_error(format!("tcp run failed: {e}")); return true } };
    let heads: Vec<bool> = hist.iter().map(|&i| alpha[i].head).collect();
    let (got, leftover) = wire::split_responses(&real.written, &heads);
    let names: Vec<&str> = hist.iter().map(|&i| alpha[i].name).collect();
    // as in `check_history`: the session may go on after a parser refusal, or end right after it
    let refusal_at = hist.iter().position(|&i| matches!(alpha[i].kind, "refused" | "malformed") && wire::status_of(&fresh[i]) >= 400);
    let judge = |ends_at: Option<usize>| {
        let mut expected: Vec<&Vec<u8>> = vec![];
        let mut closed_at = None;
        for (k, &i) in hist.iter().enumerate() { expected.push(&fresh[i]); if alpha[i].closes || ends_at == Some(k) { closed_at = Some(k); break } }
        let k = (0..expected.len().max(got.len())).find(|&k| expected.get(k).map(|e| e.as_slice()) != got.get(k).map(|g| g.as_slice()));
        let end_ok = real.server_closed_first == closed_at.is_some();
        (k, end_ok, expected)
    };
    let (mut k, mut end_ok, mut expected) = judge(None);
    if !(k.is_none() && leftover.is_empty() && end_ok) { if let Some(r) = refusal_at {
        let lenient = judge(Some(r));
        if (lenient.0.is_none() && lenient.1) || real.server_closed_first { (k, end_ok, expected) = lenient }
    } }
    if k.is_none() && leftover.is_empty() && end_ok { return false }
    let k = k.unwrap_or(got.len().min(hist.len() - 1));
    let prev = if k == 0 { "first" } else { alpha[hist[(k - 1).min(hist.len() - 1)]].kind };
    let cur = alpha[hist[k.min(hist.len() - 1)]].kind;
    let symptom = match (expected.get(k), got.get(k)) {
        (Some(e), Some(g)) => if wire::status_of(e) != wire::status_of(g) { "response-status" } else { "response-differs" },
        (Some(_), None) => "missing-response", (None, Some(_)) => "extra-response",
        (None, None) => if !end_ok { "close-behaviour" } else { "malformed-response" },
    };
    ctx.transitions += hist.len() as u64;
    ctx.violation(&format!("C05/tcp/{prev}>{cur}/{symptom}"), true, || json!({"history": names, "transport": "tcp", "at_request": k,
        "expected": expected.get(k).map(|e| esc(&e[..e.len().min(300)])), "observed": got.get(k).map(|e| esc(&e[..e.len().min(300)])), "server_closed_first": real.server_closed_first}));
    true
}

fn find(hay: &[u8], needle: &[u8]) -> bool { hay.windows(needle.len()).any(|w| w == needle) }

fn fresh_responses(router: &ohkami::__verif__::VerifRouter, alpha: &[Req]) -> Vec<Vec<u8>> {
    alpha.iter().map(|r| wire::run_mem(router, &[r.bytes.clone()]).written).collect()
}

pub fn run(ctx: &mut Ctx) {
    crate::app::pin_clock();
    let router = wire::echo_router();
    let alpha = alphabet();
    let fresh = fresh_responses(&router, &alpha);
    let quick = ctx.quick();
    let max_len = if quick { 4 } else { 6 };
    let conform_len = if quick { 2 } else { 3 };
    // sanity of the differential baseline: a fresh response must be one well-formed message
    for (i, r) in alpha.iter().enumerate() {
        let (got, left) = wire::split_responses(&fresh[i], &[r.head]);
        if got.len() != 1 || !left.is_empty() { ctx.violation(&format!("C05/fresh/{}/not-one-response", r.kind), true, || json!({"history": [r.name], "observed": esc(&fresh[i][..fresh[i].len().min(300)])})); }
    }
    // binding the loop model to the code (runs before the enumeration; a mismatch blocks every verdict)
    let n = alpha.len();
    let tcp = wire::TcpBinding::new();
    let mut hists: Vec<Vec<usize>> = vec![];
    for len in 1..=conform_len { let total = n.pow(len as u32); for mut code in 0..total { let mut h = vec![]; for _ in 0..len { h.push(code % n); code /= n; } hists.push(h); } }
    // The real session is judged by the property's own oracle first (its responses against fresh *real* connections);
    // only a real session that satisfies the oracle is then compared with the model - so a defect in the real loop is a
    // VIOLATION, and only a harness/model discrepancy is a machinery failure.
    let tcp_fresh: Vec<Vec<u8>> = alpha.iter().map(|r| tcp.run(&router, &[r.bytes.clone()]).map(|o| o.written).unwrap_or_default()).collect();
    // The in-memory loop model is Request::read + Router::handle + Response::send in the shape of Session::manage.  If the real
    // session does something the model cannot know (it adds a header, ends sessions on other grounds ...), the model is no
    // basis for verdicts: the property is then decided on the real session alone, over loopback TCP, to a smaller depth.
    let model_conforms = alpha.iter().enumerate().all(|(i, _)| tcp_fresh[i] == fresh[i]);
    if !model_conforms {
        let which: Vec<&str> = alpha.iter().enumerate().filter(|(i, _)| tcp_fresh[*i] != fresh[*i]).map(|(_, r)| r.name).collect();
        let tcp_len = if quick { 3 } else { 4 };
        for len in 1..=tcp_len {
            let total = n.pow(len as u32);
            for code0 in 0..total {
                let mut code = code0; let mut h = vec![]; for _ in 0..len { h.push(code % n); code /= n; }
                if !ctx.mine() { continue }
                if ctx.out_of_time() { break }
                if !check_history_tcp(ctx, &router, &tcp, &alpha, &tcp_fresh, &h) {
                    let collision = h.len() >= 2 && h.windows(2).any(|w| alpha[w[0]].kind != "plain" || alpha[w[0]].bytes.len() > alpha[w[1]].bytes.len());
                    ctx.pass(&format!("real-session-only:len{}", h.len()), h.len() >= 2, collision);
                }
                ctx.states += 1; ctx.traces_validated += 1;
            }
        }
        ctx.extra.insert("mode".into(), json!(format!("real session only: the in-memory session model does not reproduce the real session on fresh connections ({which:?}); every history up to length {tcp_len} was run against Session::manage over loopback TCP")));
        ctx.extra.insert("rule".into(), json!("case = sequence of requests on one real connection (loopback TCP, lock-step), one segment per request; non-trivial = length >= 2"));
        ctx.extra.insert("bounds".into(), json!({"alphabet": alpha.iter().map(|r| r.name).collect::<Vec<_>>(), "max_length": tcp_len, "transport": "tcp only"}));
        return
    }
    for h in &hists {
        if h.len() == 3 && (h[0] + 2 * h[1] + 3 * h[2]) % 5 != 0 { continue } // thorough: one fifth of the length-3 histories
        if !ctx.mine() { continue }
        if check_history_tcp(ctx, &router, &tcp, &alpha, &tcp_fresh, h) { continue }
        let segments: Vec<Vec<u8>> = h.iter().map(|&i| alpha[i].bytes.clone()).collect();
        match wire::conform(&router, &tcp, &segments) {
            Ok(()) => ctx.traces_validated += 1,
            // the real session satisfied the oracle on this history and the model behaves differently: the model (not the code) is off.
            // Model-based verdicts beyond the TCP-checked lengths are then not claimed (capped), violations are confirmed on the real session.
            Err(e) => { ctx.capped = true; ctx.extra.insert("model_nonconforming".into(), json!(format!("history {:?}: {e}", h.iter().map(|&i| alpha[i].name).collect::<Vec<_>>()))); }
        }
    }
    // the enumeration
    for len in 1..=max_len {
        let total = n.pow(len as u32);
        let chunk = n.pow((len as u32).saturating_sub(2).max(0)).max(1);
        let mut start = 0;
        while start < total {
            if ctx.mine() {
                for mut code in start..(start + chunk).min(total) {
                    let mut h = vec![]; for _ in 0..len { h.push(code % n); code /= n; }
                    check_history(ctx, &router, &alpha, &fresh, &h);
                    ctx.states += 1;
                }
            }
            start += chunk;
            if ctx.out_of_time() { break }
        }
    }
    // Long runs: a defect that needs many requests on ONE connection (a per-connection table that only grows, a counter that
    // wraps, a buffer that creeps) is out of reach of any depth bound.  Every cycle of 1..=2 requests that keeps the session
    // alive is repeated `reps` times on one connection; every response is compared with the fresh one as above.
    let reps = if quick { 150 } else { 400 };
    let keeps = |i: usize| !alpha[i].closes && !(matches!(alpha[i].kind, "refused" | "malformed") && wire::status_of(&fresh[i]) >= 400);
    let mut cycles: Vec<Vec<usize>> = (0..n).filter(|&i| keeps(i)).map(|i| vec![i]).collect();
    for a in 0..n { for b in 0..n { if a != b && keeps(a) && keeps(b) { cycles.push(vec![a, b]) } } }
    let mut long_runs = 0u64;
    for w in &cycles {
        if !ctx.mine() { continue }
        if ctx.out_of_time() { break }
        let h: Vec<usize> = w.iter().copied().cycle().take(w.len() * reps).collect();
        check_history(ctx, &router, &alpha, &fresh, &h);
        ctx.states += 1; long_runs += 1;
    }
    ctx.extra.insert("long_runs".into(), json!(format!("{long_runs} cycles of 1..=2 requests in this shard, each repeated {reps} times on one connection")));
    ctx.extra.insert("rule".into(), json!("case = sequence of requests on one connection, one segment per request; non-trivial = length >= 2; collision = an earlier request carries material that could leak (payload, params, headers, context, long buffer contents) or is longer than its successor (stale buffer bytes)"));
    ctx.extra.insert("bounds".into(), json!({"alphabet": alpha.iter().map(|r| r.name).collect::<Vec<_>>(), "max_length": max_len, "tcp_conformance_length": conform_len}));
    ctx.sample(|| json!({"history": ["post-nul-mid", "put-short", "get-hit"]}));
    ctx.sample(|| json!({"history": ["get-set-context", "get-hit"]}));
}

pub fn replay(ctx: &mut Ctx, case: &Value) {
    crate::app::pin_clock();
    let router = wire::echo_router();
    let alpha = alphabet();
    let fresh = fresh_responses(&router, &alpha);
    let hist: Vec<usize> = case["history"].as_array().expect("history").iter().map(|n| alpha.iter().position(|r| r.name == n.as_str().unwrap()).expect("unknown request")).collect();
    if case["transport"].as_str() == Some("tcp") {
        let tcp = wire::TcpBinding::new();
        let tcp_fresh: Vec<Vec<u8>> = alpha.iter().map(|r| tcp.run(&router, &[r.bytes.clone()]).map(|o| o.written).unwrap_or_default()).collect();
        if !check_history_tcp(ctx, &router, &tcp, &alpha, &tcp_fresh, &hist) { ctx.pass("tcp-replay-ok", true, true) }
        return
    }
    check_history(ctx, &router, &alpha, &fresh, &hist);
}
