//! C14 — the CORS fang applies the configured policy to every response and preflight (DESIGN §5 C14).
//!
//! configuration = policy × route set (with method subsets) × declaration shape × registration order;
//! requests = simple requests with every method on hit / miss paths + preflights with every requested
//! method (and with/without requested headers).  Oracle: reference CORS model fed with the policy and
//! the route table (union of the methods registered anywhere for a route).

use crate::app;
use crate::appgen::{self, AppDesc, CorsDesc, FangDesc};
use crate::core::{combinations, Ctx};
use crate::engines::c01::{all_routes, orders, route_str, shapes, RouteSpec};
use crate::refmodel::http::ParsedResponse;
use crate::refmodel::router::{admissible, is_param, Entry, Match};
use serde_json::{json, Value};
use std::collections::BTreeSet;

const ORIGIN: &str = "https://o.example";
const FIVE: [&str; 5] = ["GET", "PUT", "POST", "PATCH", "DELETE"];

pub fn policies() -> Vec<CorsDesc> {
    let mut v = vec![];
    // allow-headers: not configured (the requested ones are echoed), two entries, configured with zero entries (usize::MAX)
    for origin in ["*", ORIGIN] { for credentials in [false, true] { for ah in [0usize, 2, usize::MAX] { for eh in [0usize, 1] { for ma in [None, Some(600u32)] {
        v.push(CorsDesc { origin: origin.into(), credentials, allow_headers_configured_empty: ah == usize::MAX,
            allow_headers: ["Content-Type", "X-Custom"][..if ah == usize::MAX { 0 } else { ah }].iter().map(|s| s.to_string()).collect(),
            expose_headers: ["X-Exposed"][..eh].iter().map(|s| s.to_string()).collect(), max_age: ma });
    } } } } }
    v
}

fn list(v: Option<&str>) -> Option<BTreeSet<String>> {
    v.map(|s| s.split(',').map(|x| x.trim().to_string()).filter(|x| !x.is_empty()).collect())
}

struct Req { method: &'static str, path: String, acrm: Option<&'static str>, acrh: Option<&'static str>,
    /// spelling of the request's CORS header names: 0 canonical, 1 lower case, 2 upper case, 3 only the first letter upper (field names are case-insensitive)
    spelling: u8 }

fn spell(name: &str, k: u8) -> String {
    match k { 1 => name.to_ascii_lowercase(), 2 => name.to_ascii_uppercase(), 3 => { let l = name.to_ascii_lowercase(); l[..1].to_ascii_uppercase() + &l[1..] } _ => name.to_string() }
}

fn requests(set: &[RouteSpec]) -> Vec<Req> {
    let mut paths: Vec<String> = vec!["/".into(), "/zz".into()];
    for r in set {
        let inst: Vec<String> = r.segs.iter().map(|s| if is_param(s) { "v".to_string() } else { s.clone() }).collect();
        for k in 1..=inst.len() { let p: String = inst[..k].iter().map(|s| format!("/{s}")).collect(); if !paths.contains(&p) { paths.push(p) } }
        if !inst.is_empty() { let p: String = inst.iter().map(|s| format!("/{s}")).collect::<String>() + "/zz"; if !paths.contains(&p) { paths.push(p) } }
    }
    let mut out = vec![];
    for p in &paths {
        for m in ["GET", "PUT", "POST", "PATCH", "DELETE", "HEAD", "OPTIONS"] { out.push(Req { method: m, path: p.clone(), acrm: None, acrh: None, spelling: 0 }) }
        // requested methods: the seven real ones, an unknown token, and near-misses of real ones (strict prefix / suffix, other
        // case, two names joined as the advertised list joins them, the bare separator) - none of the latter is a registered method
        for acrm in ["GET", "PUT", "POST", "PATCH", "DELETE", "HEAD", "OPTIONS", "FOO", "GE", "OST", "get", "GET, POST", "PUT, DELETE", ", ", "TIONS"] { for acrh in [None, Some("X-Req, X-Other")] {
            if acrh.is_some() && acrm.len() != 3 && !["POST", "OPTIONS"].contains(&acrm) { continue }
            out.push(Req { method: "OPTIONS", path: p.clone(), acrm: Some(acrm), acrh, spelling: 0 });
            // the same preflight with its header names in other spellings (real requested methods only)
            if acrh.is_some() && ["GET", "PUT", "POST"].contains(&acrm) { for k in 1..=3u8 { out.push(Req { method: "OPTIONS", path: p.clone(), acrm: Some(acrm), acrh, spelling: k }) } }
        } }
        out.push(Req { method: "GET", path: p.clone(), acrm: None, acrh: None, spelling: 1 });
    }
    out
}

/// route (as string) that the path denotes, by the all-routes reading; None = open (greedy vs backtracking differ)
fn route_at(set: &[RouteSpec], path: &str) -> Option<Option<Vec<String>>> {
    let table: Vec<Entry> = set.iter().map(|r| Entry { segs: r.segs.clone(), method: "ANY".into(), hid: route_str(&r.segs) }).collect();
    let adm = admissible(&table, "ANY", path);
    if adm.len() != 1 { return None }
    Some(match adm.into_iter().next().unwrap() {
        Match::Handler { hid, .. } => Some(appgen::split_route(&hid)),
        Match::NoHandler => None,
    })
}

fn norm(segs: &[String]) -> Vec<String> { segs.iter().map(|s| if is_param(s) { ":".into() } else { s.clone() }).collect() }

fn shape_kind(shape: &str) -> &'static str {
    if shape == "flat" { "flat" } else if shape == "split" { "split" } else if shape == "split-mount" { "split-mount" } else if shape == "inline" { "inline" } else { "mounted" }
}

/// what the policy owes on *every* response, whoever produced it
fn every_response_problems(policy: &CorsDesc, p: &ParsedResponse) -> Vec<String> {
    let mut problems: Vec<String> = vec![];
    if p.header_all("Access-Control-Allow-Origin") != vec![policy.origin.as_str()] { problems.push("allow-origin".into()) }
    let want_cred = policy.credentials && policy.origin != "*";
    let cred = p.header_all("Access-Control-Allow-Credentials");
    if want_cred && cred != vec!["true"] { problems.push("allow-credentials:missing".into()) }
    if !want_cred && !cred.is_empty() { problems.push("allow-credentials:extra".into()) }
    let want_expose: BTreeSet<String> = policy.expose_headers.iter().cloned().collect();
    let got_expose = list(p.header("Access-Control-Expose-Headers")).unwrap_or_default();
    if want_expose != got_expose { problems.push("expose-headers".into()) }
    problems
}

/* ---- responses produced by other fangs inside the CORS fang (fourth round) ----
   The policy is owed on every response of the application that carries the fang - also on the refusal of a guard that
   belongs to a mounted application, also when the route under that mount comes from somewhere else (declared on the root
   under the mount's prefix, or by a third application mounted below it): such nodes take over the fangs in effect at the
   mount point, and where those end up relative to the root's CORS fang decides whether the refusal carries the headers. */

const GUARD_TREES: [&str; 5] = ["guarded-child", "guarded-child+root-route-below", "guarded-child+third-app-below", "guarded-child+both", "guard-local-to-handler"];

fn guard_tree(kind: &str, policy: &CorsDesc) -> AppDesc {
    let m = |method: &str, hid: &str, local: Vec<FangDesc>| appgen::MethodDesc { method: method.into(), hid: hid.into(), n_params: 0, local_fangs: local };
    let route = |path: &str, hid: &str| appgen::ItemDesc::Route { path: path.into(), methods: vec![m("GET", hid, vec![]), m("POST", hid, vec![])] };
    let child = AppDesc { fangs: vec![FangDesc::Block("guard".into())], with_form: false, items: vec![route("/", "child-root"), route("/x", "child-x")] };
    let third = AppDesc { fangs: vec![], with_form: false, items: vec![route("/", "third-root"), route("/y", "third-y")] };
    let mut items = vec![route("/", "root"), route("/open", "open")];
    match kind {
        "guard-local-to-handler" => items.push(appgen::ItemDesc::Route { path: "/a".into(), methods: vec![m("GET", "local", vec![FangDesc::Block("guard".into())]), m("POST", "plain", vec![])] }),
        _ => {
            items.push(appgen::ItemDesc::Mount { prefix: "/a".into(), app: child });
            if kind.contains("root-route-below") || kind.contains("both") { items.push(route("/a/r", "root-below")) }
            if kind.contains("third-app-below") || kind.contains("both") { items.push(appgen::ItemDesc::Mount { prefix: "/a/t".into(), app: third }) }
        }
    }
    AppDesc { fangs: vec![FangDesc::Cors(policy.clone())], with_form: false, items }
}

fn check_guard_tree(ctx: &mut Ctx, policy: &CorsDesc, kind: &'static str, only: Option<(usize, &str, &str)>) {
    let base = guard_tree(kind, policy);
    for (oi, d) in orders(&base, true).into_iter().enumerate() {
        if let Some((o, _, _)) = only { if o != oi { continue } }
        let router = match appgen::build(&d) { Ok(r) => r, Err(_) => { ctx.skip(); continue } };
        ctx.states += 1;
        for path in ["/", "/open", "/a", "/a/", "/a/x", "/a/zz", "/a/r", "/a/r/zz", "/a/t", "/a/t/y", "/a/t/zz", "/zz"] {
            for method in ["GET", "POST", "PUT", "HEAD", "OPTIONS"] {
                if let Some((_, m, p)) = only { if m != method || p != path { continue } }
                ctx.transitions += 1;
                let out = app::oneshot(&router, &app::request(method, path, &[("Host", "h"), ("Origin", "https://any.example")], b""));
                let witness = |observed: Value, problems: Vec<String>| { let w = json!({"guard_tree": kind, "policy": policy, "order": oi, "app": d, "method": method, "path": path, "observed": observed, "problems": problems}); move || w };
                match out.parsed() {
                    None => ctx.violation(&format!("C14/inner-guard:{kind}/broken:{}", out.kind()), true, witness(json!(out.kind()), vec![])),
                    Some(p) => {
                        let problems = every_response_problems(policy, p);
                        let who = if p.status == 403 { "refusal-of-inner-guard" } else if p.status == 404 { "not-found" } else { "other" };
                        if problems.is_empty() { ctx.pass(&format!("inner-guard:{who}:{}", p.status), true, p.status == 403) }
                        else { for pr in &problems { ctx.violation(&format!("C14/inner-guard:{kind}/{who}/{pr}"), true, witness(json!({"status": p.status, "headers": p.headers.iter().filter(|(k, _)| k.starts_with("Access-Control")).collect::<Vec<_>>()}), problems.clone())); }
                            ctx.evaluations -= problems.len() as u64 - 1; }
                    }
                }
            }
        }
    }
}

fn check_response(ctx: &mut Ctx, policy: &CorsDesc, set: &[RouteSpec], shape: &str, desc: &AppDesc, r: &Req, p: &ParsedResponse) {
    let kind = shape_kind(shape);
    let reqkind = if r.acrm.is_some() { if r.spelling == 0 { "preflight" } else { "preflight-names-in-other-case" } } else if r.method == "OPTIONS" { "options" } else { "simple" };
    let mut problems: Vec<String> = every_response_problems(policy, p);

    // --- preflight ---
    let mut ambiguous = false;
    let mut collision = false;
    if let Some(acrm) = r.acrm {
        match route_at(set, &r.path) {
            None => ambiguous = true,
            Some(route) => {
                let registered: BTreeSet<&str> = match &route {
                    Some(rt) => set.iter().filter(|x| norm(&x.segs) == norm(rt)).flat_map(|x| x.methods.iter().map(|m| m.as_str())).collect(),
                    None => BTreeSet::new(),
                };
                collision = registered.len() >= 2;
                if acrm == "OPTIONS" && !registered.is_empty() { ambiguous = true }
                let should_succeed = match acrm { "HEAD" => registered.contains("GET"), m => registered.contains(m) };
                if !ambiguous {
                    let ok2xx = (200..300).contains(&p.status);
                    if should_succeed {
                        if !ok2xx { problems.push(format!("preflight:refused({})-should-succeed", p.status)) }
                        else {
                            if !p.body.is_empty() { problems.push("preflight:body".into()) }
                            let mut want: BTreeSet<String> = registered.iter().map(|s| s.to_string()).collect();
                            if registered.contains("GET") { want.insert("HEAD".into()); }
                            want.insert("OPTIONS".into());
                            let got = list(p.header("Access-Control-Allow-Methods")).unwrap_or_default();
                            if got != want {
                                let missing = want.difference(&got).count(); let extra = got.difference(&want).count();
                                problems.push(format!("preflight:allow-methods:{}{}", if missing > 0 { "missing" } else { "" }, if extra > 0 { "extra" } else { "" }));
                            }
                            let got_ah = list(p.header("Access-Control-Allow-Headers"));
                            if !policy.allow_headers.is_empty() {
                                if got_ah != Some(policy.allow_headers.iter().cloned().collect()) { problems.push("preflight:allow-headers:configured".into()) }
                            } else if policy.allow_headers_configured_empty {
                                // configured, with no entry: nothing is advertised (an empty header or none) - in particular not the request's list
                                if got_ah.as_ref().is_some_and(|s| !s.is_empty()) { problems.push("preflight:allow-headers:configured-empty".into()) }
                            } else if let Some(h) = r.acrh {
                                if got_ah != list(Some(h)) { problems.push("preflight:allow-headers:echo".into()) }
                            }
                            match (policy.max_age, p.header("Access-Control-Max-Age")) {
                                (Some(m), Some(g)) if g == m.to_string() => {}
                                (None, None) => {}
                                _ => problems.push("preflight:max-age".into()),
                            }
                        }
                    } else if !(400..500).contains(&p.status) {
                        problems.push(format!("preflight:status({})-should-be-4xx", p.status));
                    }
                }
            }
        }
    }
    let witness = || json!({"policy": policy, "set": set.iter().map(|x| json!({"route": route_str(&x.segs), "methods": x.methods})).collect::<Vec<_>>(),
        "shape": shape, "app": desc, "method": r.method, "path": r.path, "acrm": r.acrm, "acrh": r.acrh, "spelling": r.spelling,
        "observed_status": p.status, "observed_headers": p.headers.iter().filter(|(k, _)| k.starts_with("Access-Control") || k == "Vary").collect::<Vec<_>>(), "problems": problems});
    if !problems.is_empty() {
        for pr in &problems { ctx.violation(&format!("C14/{kind}/{reqkind}/{pr}"), true, witness); }
        // a case counts once
        ctx.evaluations -= problems.len() as u64 - 1;
    } else if ambiguous {
        ctx.ambiguous(&format!("{reqkind}:{}", p.status));
    } else {
        ctx.pass(&format!("{reqkind}:{}:{}", p.status, if r.acrm.is_some() { "pf" } else { "-" }), reqkind != "simple" || p.status != 404, collision);
    }
}

fn check_set(ctx: &mut Ctx, policy: &CorsDesc, set: &[RouteSpec], only_shape: Option<&str>, only: Option<&Req>) {
    let reqs_all = requests(set);
    for (name, desc) in shapes(set) {
        if let Some(s) = only_shape { if s != name { continue } }
        for (oi, mut d) in orders(&desc, false).into_iter().enumerate() {
            if oi > 1 && !name.starts_with("split") { continue }
            d.fangs = vec![FangDesc::Cors(policy.clone())];
            let router = match appgen::build(&d) { Ok(r) => r, Err(_) => { ctx.skip(); continue } };
            ctx.states += 1;
            let reqs: Vec<&Req> = match only { Some(r) => vec![r], None => reqs_all.iter().collect() };
            for r in reqs {
                ctx.transitions += 1;
                let (n_origin, n_acrm, n_acrh) = (spell("Origin", r.spelling), spell("Access-Control-Request-Method", r.spelling), spell("Access-Control-Request-Headers", r.spelling));
                let mut headers: Vec<(&str, &str)> = vec![("Host", "h"), (&n_origin, "https://any.example")];
                if let Some(m) = r.acrm { headers.push((&n_acrm, m)) }
                if let Some(h) = r.acrh { headers.push((&n_acrh, h)) }
                let out = app::oneshot(&router, &app::request(r.method, &r.path, &headers, b""));
                match out.parsed() {
                    Some(p) => check_response(ctx, policy, set, &name, &d, r, p),
                    None => ctx.violation(&format!("C14/{}/broken:{}", shape_kind(&name), out.kind()), true,
                        || json!({"policy": policy, "set": set.iter().map(|x| json!({"route": route_str(&x.segs), "methods": x.methods})).collect::<Vec<_>>(), "shape": name, "app": d, "method": r.method, "path": r.path, "acrm": r.acrm, "acrh": r.acrh, "spelling": r.spelling, "observed": out.kind()})),
                }
            }
            ctx.sample(|| json!({"policy": policy, "app": d, "requests": reqs_all.len()}));
        }
    }
}

pub fn run(ctx: &mut Ctx) {
    app::pin_clock();
    let quick = ctx.quick();
    let pols = policies();
    let routes = all_routes(2);
    // single routes with all 31 method subsets (quick: one policy per (route, subset), rotating through all 32; thorough: all policies)
    for (ri, r) in routes.iter().enumerate() {
        for mask in 1u32..32 {
            for (pi, pol) in pols.iter().enumerate() {
                if quick && pi != (ri * 31 + mask as usize) % pols.len() { continue }
                if !ctx.mine() { continue }
                if ctx.out_of_time() { return }
                let methods: Vec<String> = FIVE.iter().enumerate().filter(|(i, _)| mask & (1 << i) != 0).map(|(_, m)| m.to_string()).collect();
                check_set(ctx, pol, &[RouteSpec { segs: r.clone(), methods }], None, None);
            }
        }
    }
    // responses of inner guards: every tree x every policy (quick: every 4th policy, rotating) x every registration order
    for (ki, kind) in GUARD_TREES.iter().enumerate() { for (pi, pol) in pols.iter().enumerate() {
        if quick && pi % 4 != ki % 4 { continue }
        if !ctx.mine() { continue }
        check_guard_tree(ctx, pol, kind, None);
    } }
    // pairs with a menu of method subsets (quick: one rotating policy per set; thorough: 8 policies per set)
    let menu: Vec<Vec<&str>> = vec![vec!["GET"], vec!["POST"], vec!["GET", "POST"], vec!["PUT", "DELETE"], vec!["GET", "PUT", "POST", "PATCH", "DELETE"]];
    let mut k = 0usize;
    for combo in combinations(routes.len(), 2) {
        for (ai, a) in menu.iter().enumerate() { for (bi, b) in menu.iter().enumerate() {
            if quick && (ai + bi) % 2 == 1 { continue }
            k += 1;
            for (pi, pol) in pols.iter().enumerate() {
                if quick && pi != k % pols.len() { continue }
                if !quick && pi % 4 != k % 4 { continue }
                if !ctx.mine() { continue }
                if ctx.out_of_time() { return }
                let set = vec![RouteSpec { segs: routes[combo[0]].clone(), methods: a.iter().map(|s| s.to_string()).collect() },
                               RouteSpec { segs: routes[combo[1]].clone(), methods: b.iter().map(|s| s.to_string()).collect() }];
                check_set(ctx, pol, &set, None, None);
            }
        } }
    }
    ctx.extra.insert("rule".into(), json!("case = (policy, route set with method subsets, declaration shape, registration order, request); non-trivial = a preflight, an OPTIONS request or a non-404 simple request; collision = a preflight to a route for which two or more methods are registered (the allowed-method list is assembled per registration and overridden on merge, so several registrations for one route are what can go wrong)"));
    ctx.extra.insert("bounds".into(), json!({"policies": pols.len(), "routes": "depth<=2 over {a,ab,b,:p}", "single-route method subsets": "all 31", "policies per single-route set": if quick { "1 (rotating through all 32)" } else { "all 32" },
        "pair method menu": menu, "policies per pair set": if quick { "1 (rotating)" } else { "8 (rotating)" }, "shapes": "as C01 (flat, split, mount1, mount2, nested, inline, mount-one), first two orders (all orders for split)",
        "header_name_spellings": "preflights with requested headers for GET/PUT/POST also with all CORS request header names in lower / upper / first-letter-upper case", "inner_guard_trees": GUARD_TREES, "requests": "7 methods + 23 preflight variants (7 real requested methods, FOO, 7 near-misses of real ones; with/without requested headers) on every route instance, every proper prefix of it, one path below it, / and /zz"}));
    ctx.traces_validated = ctx.transitions;
}

pub fn replay(ctx: &mut Ctx, case: &Value) {
    app::pin_clock();
    let policy: CorsDesc = serde_json::from_value(case["policy"].clone()).expect("policy");
    if let Some(k) = case["guard_tree"].as_str() {
        let kind = GUARD_TREES.iter().copied().find(|g| *g == k).expect("known guard tree");
        check_guard_tree(ctx, &policy, kind, Some((case["order"].as_u64().unwrap_or(0) as usize, case["method"].as_str().unwrap_or("GET"), case["path"].as_str().unwrap_or("/"))));
        return
    }
    let set: Vec<RouteSpec> = case["set"].as_array().unwrap().iter().map(|r| RouteSpec {
        segs: appgen::split_route(r["route"].as_str().unwrap()),
        methods: r["methods"].as_array().unwrap().iter().map(|m| m.as_str().unwrap().to_string()).collect() }).collect();
    fn st(s: Option<&str>) -> Option<&'static str> { s.map(|x| &*Box::leak(x.to_string().into_boxed_str())) }
    let r = Req { method: st(case["method"].as_str()).unwrap_or("GET"), path: case["path"].as_str().unwrap_or("/").to_string(), acrm: st(case["acrm"].as_str()), acrh: st(case["acrh"].as_str()), spelling: case["spelling"].as_u64().unwrap_or(0) as u8 };
    check_set(ctx, &policy, &set, case["shape"].as_str(), Some(&r));
}
