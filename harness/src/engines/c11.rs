//! C11 — cookies survive the trip (DESIGN §5 C11).
//!
//! Request side.  One case = (jar, target) or (jar, iterator).  A jar is an ordered list of 1..3 cookies with distinct
//! names; a cookie is (name, value, wire form) where the wire form is one of the encodings RFC 6265 allows for that
//! value (`refmodel::cookie::Enc`).  The header text is decoded by the real `ohkami_lib::serde_cookie::from_str` into
//! 8 struct shapes, and sent as a real request whose handler reads `req.headers.Cookies()` (read → router → send).
//!
//! Response side.  One case = a response with 1 (or 2) cookies set through `headers.set().SetCookie(name, value,
//! |d| …)` with one directive combination.  The emitted line is read three ways: `headers.iter()` + the independent
//! RFC 6265 parser, the crate's own `headers.SetCookie()`, and the bytes written by the real `send`.

use super::c10::{fork_run, isolate_unit, merge_report, record_violation, signal_name, ForkResult, Progress};
use crate::core::{guarded, panic_kind, Ctx, Tier};
use std::collections::BTreeSet;
use crate::refmodel::cookie::{self as ck, Enc};
use ohkami_lib::serde_cookie::from_str;
use serde::Deserialize;
use serde_json::{json, Value};

/* =============================== alphabets =============================== */

const NAMES: &[&str] = &["a", "B1", "x-y", "_z", "!#$"];
/// DESIGN's ten values plus `&b` (the `Option` visitor of the decoder looks for `&` at the front of the input)
const VALUES: &[&str] = &["a", "", "a b", "é", "a=b", "a;b", "\"q\"", "%41", "a,b", "😀", "&b"];

#[derive(Clone, Debug)]
struct Cookie { name: &'static str, value: String, enc: Enc, wire: String }

/// every (value, distinct wire form) × name; simplest first, the name varies fastest
fn cookie_alphabet(names: &[&'static str], values: &[&str]) -> Vec<Cookie> {
    let mut v = Vec::new();
    for val in values {
        let mut seen: Vec<String> = Vec::new();
        for enc in Enc::ALL {
            let Some(wire) = ck::encode_value(val, enc) else { continue };
            if seen.contains(&wire) { continue }
            seen.push(wire.clone());
            for n in names { v.push(Cookie { name: n, value: val.to_string(), enc, wire: wire.clone() }) }
        }
    }
    v
}

fn inner(wire: &str) -> &str { if wire.len() >= 2 && wire.starts_with('"') && wire.ends_with('"') { &wire[1..wire.len() - 1] } else { wire } }

/// (rank, feature) of a cookie for class ids; smaller rank = more likely what a decoder trips over
fn cookie_feature(c: &Cookie) -> (u8, &'static str) {
    let i = inner(&c.wire);
    if i.contains('=') { return (1, "eq") }
    if i.starts_with('&') { return (2, "amp-first") }
    if i.is_empty() { return (3, "empty") }
    if !c.enc.is_pct() && ck::has_pct_triplet(&c.value) { return (4, "pct-literal") }
    if !c.value.is_ascii() { return (5, "non-ascii") }
    if c.value.contains([' ', ';', ',', '"', '\\']) { return (5, "separator") }
    if c.value.contains('%') { return (5, "percent") }
    if c.value.bytes().any(|b| !b.is_ascii_alphanumeric()) { return (5, "punct") }
    (6, "simple")
}
fn cookie_tag(c: &Cookie) -> String { format!("{}:{}", c.enc.tag(), cookie_feature(c).1) }

/// the values a wire form may stand for: the value itself; for a *plain/quoted* form that contains a `%XX` triplet also
/// its percent-decoding (the statement does not say whether `%41` sent as-is means `%41` or `A`)
fn admissible_values(c: &Cookie) -> Vec<String> {
    let mut v = vec![c.value.clone()];
    if !c.enc.is_pct() && ck::has_pct_triplet(&c.value) { if let Ok(d) = ck::pct_decode(&c.value) { if d != c.value { v.push(d) } } }
    v
}

/* =============================== typed targets =============================== */

#[derive(Clone, Debug, PartialEq, Eq)]
enum FV { Str(String), Opt(Option<String>), Char(char) }
type Obs = Vec<FV>;

#[derive(Clone, Copy, Debug, PartialEq, Eq)]
enum FK { Str, Opt, Borrowed, Char, Newtype, OptNewtype }
impl FK { fn name(self) -> &'static str { match self { FK::Str => "string", FK::Opt => "opt-string", FK::Borrowed => "borrowed-str", FK::Char => "char", FK::Newtype => "newtype", FK::OptNewtype => "opt-newtype" } } }

struct TargetDesc { id: &'static str, fields: &'static [(&'static str, FK)], decode: fn(&str) -> Result<Obs, String> }

#[derive(Deserialize)] struct Val(String);
#[derive(Deserialize)] struct A0 { a: String }
#[derive(Deserialize)] struct A1 { a: String, #[serde(rename = "B1")] b1: String }
#[derive(Deserialize)] struct A2 { #[serde(rename = "x-y")] xy: String, a: String }
#[derive(Deserialize)] struct A3 { a: Option<String>, #[serde(rename = "B1")] b1: Option<String>, #[serde(rename = "x-y")] xy: Option<String>, _z: Option<String>, #[serde(rename = "!#$")] sym: Option<String> }
#[derive(Deserialize)] struct A4<'r> { a: &'r str }
#[derive(Deserialize)] struct A5 { a: char }
#[derive(Deserialize)] struct A6 { _z: Option<String>, #[serde(rename = "!#$")] sym: String }
#[derive(Deserialize)] struct A7 { a: Val, #[serde(rename = "B1")] b1: Option<Val> }

macro_rules! dec { ($T:ty, |$t:ident| $obs:expr) => { |s: &str| from_str::<$T>(s).map(|$t| $obs).map_err(|e| e.to_string()) } }

static TARGETS: &[TargetDesc] = &[
    TargetDesc { id: "A0{a:String}", fields: &[("a", FK::Str)], decode: dec!(A0, |t| vec![FV::Str(t.a)]) },
    TargetDesc { id: "A1{a:String,B1:String}", fields: &[("a", FK::Str), ("B1", FK::Str)], decode: dec!(A1, |t| vec![FV::Str(t.a), FV::Str(t.b1)]) },
    TargetDesc { id: "A2{x-y:String,a:String}", fields: &[("x-y", FK::Str), ("a", FK::Str)], decode: dec!(A2, |t| vec![FV::Str(t.xy), FV::Str(t.a)]) },
    TargetDesc { id: "A3{all five: Option<String>}", fields: &[("a", FK::Opt), ("B1", FK::Opt), ("x-y", FK::Opt), ("_z", FK::Opt), ("!#$", FK::Opt)],
        decode: dec!(A3, |t| vec![FV::Opt(t.a), FV::Opt(t.b1), FV::Opt(t.xy), FV::Opt(t._z), FV::Opt(t.sym)]) },
    TargetDesc { id: "A4{a:&str}", fields: &[("a", FK::Borrowed)], decode: dec!(A4, |t| vec![FV::Str(t.a.to_string())]) },
    TargetDesc { id: "A5{a:char}", fields: &[("a", FK::Char)], decode: dec!(A5, |t| vec![FV::Char(t.a)]) },
    TargetDesc { id: "A6{_z:Option<String>,!#$:String}", fields: &[("_z", FK::Opt), ("!#$", FK::Str)], decode: dec!(A6, |t| vec![FV::Opt(t._z), FV::Str(t.sym)]) },
    TargetDesc { id: "A7{a:Val(String),B1:Option<Val>}", fields: &[("a", FK::Newtype), ("B1", FK::OptNewtype)], decode: dec!(A7, |t| vec![FV::Str(t.a.0), FV::Opt(t.b1.map(|v| v.0))]) },
];

#[derive(Clone, Debug, PartialEq)]
enum Alt { Err, Val(FV) }

/// What the statement admits for one field given the cookie of that name in the jar (names are distinct).
fn field_alts(kind: FK, c: Option<&Cookie>) -> Vec<Alt> {
    let Some(c) = c else {
        return match kind { FK::Opt | FK::OptNewtype => vec![Alt::Val(FV::Opt(None))], _ => vec![Alt::Err] }   // a required field without its cookie does not fit
    };
    let mut alts = Vec::new();
    for v in admissible_values(c) {
        match kind {
            FK::Str | FK::Newtype => alts.push(Alt::Val(FV::Str(v))),
            FK::Borrowed => alts.push(Alt::Val(FV::Str(v))),
            FK::Opt | FK::OptNewtype => {
                if v.is_empty() { alts.push(Alt::Val(FV::Opt(None))) }   // empty value ↔ absent: silent
                alts.push(Alt::Val(FV::Opt(Some(v))));
            }
            FK::Char => { let mut it = v.chars(); match (it.next(), it.next()) { (Some(ch), None) => alts.push(Alt::Val(FV::Char(ch))), _ => alts.push(Alt::Err) } }
        }
    }
    // a `&str` cannot hold text that had to be percent-decoded: an error is as good as the value
    if kind == FK::Borrowed && inner(&c.wire).contains('%') { alts.push(Alt::Err) }
    alts.dedup();
    alts
}

enum Verdict { Pass { ambiguous: bool, key: String }, Violation { field: Option<usize>, symptom: String } }

#[derive(Clone, Debug)]
enum Observed { Val(Obs), Err(String), Panic(String) }
impl Observed {
    fn brief(&self) -> String { match self { Observed::Val(v) => format!("Ok({v:?})"), Observed::Err(e) => format!("Err({e})"), Observed::Panic(p) => format!("panic: {p}") } }
}

fn judge(fields: &[Vec<Alt>], obs: &Observed, t: &TargetDesc) -> Verdict {
    let tid = &t.id[..2];
    match obs {
        Observed::Panic(p) => Verdict::Violation { field: None, symptom: format!("panic:{}", panic_kind(p)) },
        Observed::Err(_) => {
            let must = fields.iter().any(|a| a.iter().all(|x| *x == Alt::Err));
            let may = must || fields.iter().any(|a| a.contains(&Alt::Err));
            if !may { return Verdict::Violation { field: None, symptom: "refused-should-accept".into() } }
            Verdict::Pass { ambiguous: !must, key: format!("de:err:{tid}") }
        }
        Observed::Val(v) => {
            if v.len() != fields.len() { return Verdict::Violation { field: None, symptom: "wrong-field-count".into() } }
            let mut ambiguous = false;
            for (i, (alts, o)) in fields.iter().zip(v).enumerate() {
                let vals: Vec<&FV> = alts.iter().filter_map(|a| match a { Alt::Val(x) => Some(x), Alt::Err => None }).collect();
                if vals.is_empty() { return Verdict::Violation { field: Some(i), symptom: "accepted-should-refuse".into() } }
                if !vals.contains(&o) {
                    let symptom = match (vals[0], o) {
                        (FV::Opt(Some(_)), FV::Opt(None)) => "absent-should-be-present",
                        (FV::Opt(None), FV::Opt(Some(_))) => "present-should-be-absent",
                        _ => "wrong-value",
                    };
                    return Verdict::Violation { field: Some(i), symptom: symptom.into() }
                }
                if alts.len() > 1 { ambiguous = true }
            }
            Verdict::Pass { ambiguous, key: format!("de:val:{tid}") }
        }
    }
}

/// For class ids only (never for a verdict): which cookie makes the whole header fail?  Each cookie is decoded alone
/// into the all-optional target; among those that fail alone (or among all, if none does) the most suspicious wire form wins.
fn culprit<'a>(jar: &[&'a Cookie]) -> &'a Cookie {
    let alone: Vec<&Cookie> = jar.iter().copied().filter(|c| !matches!(guarded(|| (TARGETS[3].decode)(&header_of(&[*c]))), Ok(Ok(_)))).collect();
    let pool = if alone.is_empty() { jar.to_vec() } else { alone };
    pool.into_iter().min_by_key(|c| cookie_feature(c).0).expect("jars are never empty")
}

fn jar_json(jar: &[&Cookie]) -> Value { json!(jar.iter().map(|c| json!({"name": c.name, "value": c.value, "enc": c.enc.tag()})).collect::<Vec<_>>()) }
fn header_of(jar: &[&Cookie]) -> String { ck::encode_cookie_header(&jar.iter().map(|c| (c.name, c.wire.as_str())).collect::<Vec<_>>()) }

fn check_typed(ctx: &mut Ctx, jar: &[&Cookie], header: &str, ti: usize, encoded: bool) {
    let t = &TARGETS[ti];
    let fields: Vec<Vec<Alt>> = t.fields.iter().map(|(n, k)| field_alts(*k, jar.iter().copied().find(|c| c.name == *n))).collect();
    let obs = match guarded(|| (t.decode)(header)) { Ok(Ok(v)) => Observed::Val(v), Ok(Err(e)) => Observed::Err(e), Err(p) => Observed::Panic(p) };
    let declared = jar.iter().any(|c| t.fields.iter().any(|(n, _)| c.name == *n));
    // "decodes to the same names and values": the names in a jar are distinct, so what a typed struct gets cannot depend on the
    // order of the cookies in the header.  The reversed header must give the same result (value for value, or an error both times).
    if jar.len() >= 2 {
        let rev: Vec<&Cookie> = jar.iter().rev().copied().collect();
        let header_rev = header_of(&rev);
        let obs_rev = match guarded(|| (t.decode)(&header_rev)) { Ok(Ok(v)) => Observed::Val(v), Ok(Err(e)) => Observed::Err(e), Err(p) => Observed::Panic(p) };
        let same = match (&obs, &obs_rev) { (Observed::Val(a), Observed::Val(b)) => a == b, (Observed::Err(_), Observed::Err(_)) => true, (Observed::Panic(_), _) | (_, Observed::Panic(_)) => true /* reported below / by its own case */, _ => false };
        if !same {
            let blamed = culprit(jar);
            record_violation(ctx, &format!("C11/de/order-dependence/{}/{}", cookie_tag(blamed), if matches!(obs, Observed::Err(_)) || matches!(obs_rev, Observed::Err(_)) { "refused-in-one-order" } else { "other-value-in-other-order" }), declared,
                || json!({"part": "de", "jar": jar_json(jar), "target": t.id, "header": header, "observed": obs.brief(), "reversed_header": header_rev, "observed_reversed": obs_rev.brief()}));
            return
        }
    }
    match judge(&fields, &obs, t) {
        Verdict::Pass { ambiguous: false, key } => ctx.pass(&key, declared, declared && encoded),
        Verdict::Pass { ambiguous: true, key } => ctx.ambiguous(&key),
        Verdict::Violation { field, symptom } => {
            // blame: the cookie of the failing field; for whole-header failures the cookie with the most suspicious wire form
            let blamed: &Cookie = match field.and_then(|i| jar.iter().copied().find(|c| c.name == t.fields[i].0)) {
                Some(c) => c,
                None => culprit(jar),
            };
            let kind = match field { Some(i) => t.fields[i].1.name(),
                None => t.fields.iter().find(|(n, _)| *n == blamed.name).map(|(_, k)| k.name()).unwrap_or("undeclared") };
            let tag = match (field, jar.iter().any(|c| c.name == field.map(|i| t.fields[i].0).unwrap_or(""))) { (Some(_), false) => "no-cookie".to_string(), _ => cookie_tag(blamed) };
            let class = format!("C11/de/{kind}/{tag}/{symptom}");
            record_violation(ctx, &class, declared, || json!({"part": "de", "jar": jar_json(jar), "target": t.id, "header": header,
                "expected": format!("{fields:?}"), "observed": obs.brief()}));
        }
    }
}

/* =============================== the request's cookie iterator =============================== */

struct IterApp { router: ohkami::__verif__::VerifRouter }
impl IterApp {
    fn new() -> Self {
        use ohkami::{Ohkami, Route};
        async fn dump(req: &ohkami::Request) -> String {
            json!({"raw": req.headers.Cookie(), "pairs": req.headers.Cookies().map(|(n, v)| json!([n, v])).collect::<Vec<_>>()}).to_string()
        }
        crate::app::pin_clock();
        IterApp { router: ohkami::__verif__::VerifRouter::from(Ohkami::new(("/".GET(dump),))) }
    }
    /// Ok((raw header as the request holds it, pairs from the iterator))
    fn observe(&self, header: &str) -> Result<(Option<String>, Vec<(String, String)>), String> {
        let raw = crate::app::request("GET", "/", &[("Host", "h"), ("Cookie", header)], b"");
        match crate::app::oneshot(&self.router, &raw) {
            crate::app::Outcome::Response { raw, .. } => {
                let (status, _, body) = split_response(&raw).ok_or("response is not an HTTP/1.1 message with a Content-Length body")?;
                if status != 200 { return Err(format!("status {status}")) }
                let v: Value = serde_json::from_slice(body).map_err(|e| format!("handler output unreadable: {e}"))?;
                let pairs = v["pairs"].as_array().ok_or("no pairs")?.iter().map(|p| (p[0].as_str().unwrap_or("").to_string(), p[1].as_str().unwrap_or("").to_string())).collect();
                Ok((v["raw"].as_str().map(str::to_string), pairs))
            }
            other => Err(other.kind()),
        }
    }
}

/// (status, header lines, body) of what the subject wrote.  Minimal on purpose (C03 owns response well-formedness).
fn split_response(raw: &[u8]) -> Option<(u16, Vec<(String, String)>, &[u8])> {
    let head_end = raw.windows(4).position(|w| w == b"\r\n\r\n")?;
    let head = std::str::from_utf8(&raw[..head_end]).ok()?;
    let mut lines = head.split("\r\n");
    let status: u16 = lines.next()?.strip_prefix("HTTP/1.1 ")?.get(..3)?.parse().ok()?;
    let headers: Vec<(String, String)> = lines.map(|l| l.split_once(": ").map(|(k, v)| (k.to_string(), v.to_string()))).collect::<Option<_>>()?;
    let cl: usize = headers.iter().find(|(k, _)| k.eq_ignore_ascii_case("content-length"))?.1.parse().ok()?;
    let body = &raw[head_end + 4..];
    (body.len() == cl).then_some((status, headers, body))
}

fn check_iter(ctx: &mut Ctx, app: &IterApp, jar: &[&Cookie], header: &str, encoded: bool) {
    let witness = |observed: String| json!({"part": "iter", "jar": jar_json(jar), "header": header,
        "expected": jar.iter().map(|c| json!([c.name, admissible_values(c)])).collect::<Vec<_>>(), "observed": observed});
    let (raw, pairs) = match app.observe(header) {
        Ok(x) => x,
        Err(e) => {
            let blamed = jar.iter().copied().min_by_key(|c| cookie_feature(c).0).unwrap();
            let class = format!("C11/iter/{}/no-answer:{}", cookie_tag(blamed), panic_kind(&e));
            return ctx.violation(&class, true, || witness(e.clone()))
        }
    };
    let observed = format!("{pairs:?}");
    let fail = |ctx: &mut Ctx, c: &Cookie, symptom: &str| {
        let class = format!("C11/iter/{}/{symptom}", cookie_tag(c));
        record_violation(ctx, &class, true, || witness(observed.clone()))
    };
    if raw.as_deref() != Some(header) { return fail(ctx, jar[0], "header-altered") }
    if pairs.len() < jar.len() {
        let missing = jar.iter().copied().find(|c| !pairs.iter().any(|(n, _)| n == c.name)).unwrap_or(jar[0]);
        return fail(ctx, missing, "cookie-dropped")
    }
    if pairs.len() > jar.len() { return fail(ctx, jar[0], "extra-cookie") }
    let mut ambiguous = false;
    for (c, (n, v)) in jar.iter().zip(&pairs) {
        if n != c.name {
            let same_set = jar.iter().all(|c| pairs.iter().any(|(n, _)| n == c.name));
            return fail(ctx, c, if same_set { "order" } else { "wrong-name" })
        }
        let adm = admissible_values(c);
        if !adm.contains(v) {
            let symptom = if *v == c.wire {
                match (c.enc.is_quoted(), c.enc.is_pct() && inner(&c.wire) != c.value) { (true, true) => "raw-wire-text:quoted+pct", (true, false) => "raw-wire-text:quoted", _ => "raw-wire-text:pct" }
            } else { "wrong-value" };
            return fail(ctx, c, symptom)
        }
        if adm.len() > 1 { ambiguous = true }
    }
    if ambiguous { ctx.ambiguous("iter:ok") } else { ctx.pass(&format!("iter:ok:{}", jar.len()), true, encoded) }
}

/* =============================== response side =============================== */

const EXPIRES: &str = "Sun, 06 Nov 1994 08:49:37 GMT";
const DOMAIN: &str = "example.com";

#[derive(Clone, Debug, PartialEq, Eq)]
struct Directives { expires: bool, max_age: Option<u64>, domain: bool, path: Option<String>, secure: bool, http_only: bool, same_site: Option<&'static str> }

impl Directives {
    fn count(&self) -> usize { self.expires as usize + self.max_age.is_some() as usize + self.domain as usize + self.path.is_some() as usize + self.secure as usize + self.http_only as usize + self.same_site.is_some() as usize }
    fn json(&self) -> Value { json!({"expires": self.expires, "max_age": self.max_age, "domain": self.domain, "path": self.path, "secure": self.secure, "http_only": self.http_only, "same_site": self.same_site}) }
    fn from_json(v: &Value) -> Option<Self> {
        Some(Directives { expires: v["expires"].as_bool()?, max_age: v["max_age"].as_u64(), domain: v["domain"].as_bool()?, path: v["path"].as_str().map(str::to_string),
            secure: v["secure"].as_bool()?, http_only: v["http_only"].as_bool()?,
            same_site: match v["same_site"].as_str() { None => None, Some("Strict") => Some("Strict"), Some("Lax") => Some("Lax"), Some("None") => Some("None"), Some(_) => return None } })
    }
}

fn directive_combos(paths: &[Option<&str>]) -> Vec<Directives> {
    let mut v = Vec::new();
    for same_site in [None, Some("Strict"), Some("Lax"), Some("None")] {
    for max_age in [None, Some(0), Some(1), Some(u64::MAX)] {
    for path in paths {
    for expires in [false, true] { for domain in [false, true] { for secure in [false, true] { for http_only in [false, true] {
        v.push(Directives { expires, max_age, domain, path: path.map(str::to_string), secure, http_only, same_site });
    } } } } } } }
    // fewest directives first
    v.sort_by_key(|d| d.count());
    v
}

#[derive(Clone, Debug)]
struct SetSpec { name: &'static str, value: String, dir: Directives }

fn build_response(cookies: &[SetSpec]) -> ohkami::Response {
    let mut res = ohkami::Response::OK();
    for c in cookies {
        let d = c.dir.clone();
        res.headers.set().SetCookie(c.name, c.value.clone(), move |mut b| {
            if d.expires { b = b.Expires(EXPIRES) }
            if let Some(n) = d.max_age { b = b.MaxAge(n) }
            if d.domain { b = b.Domain(DOMAIN) }
            if let Some(p) = d.path { b = b.Path(p) }
            if d.secure { b = b.Secure() }
            if d.http_only { b = b.HttpOnly() }
            match d.same_site { Some("Strict") => b = b.SameSiteStrict(), Some("Lax") => b = b.SameSiteLax(), Some("None") => b = b.SameSiteNone(), _ => {} }
            b
        });
    }
    res
}

fn value_feature(v: &str) -> &'static str {
    if v.is_empty() { "empty" } else if !v.is_ascii() { "non-ascii" } else if v.contains('%') { "percent" }
    else if v.contains([' ', ';', ',', '"', '\\']) { "separator" } else if v.contains('=') { "eq" }
    else if v.bytes().any(|b| !b.is_ascii_alphanumeric()) { "punct" } else { "simple" }
}

struct CrateParsed { name: String, value: String, expires: Option<String>, max_age: Option<u64>, domain: Option<String>, path: Option<String>, secure: Option<bool>, http_only: Option<bool>, same_site: Option<String> }

struct ResObs { lines: Vec<String>, crate_parsed: Vec<CrateParsed>, wire_lines: Result<Vec<String>, String> }

fn observe_response(cookies: &[SetSpec]) -> Result<ResObs, (&'static str, String)> {
    let res = guarded(|| build_response(cookies)).map_err(|p| ("build", p))?;
    let lines = guarded(|| res.headers.iter().filter(|(k, _)| k.eq_ignore_ascii_case("Set-Cookie")).map(|(_, v)| v.to_string()).collect::<Vec<_>>()).map_err(|p| ("iter", p))?;
    let crate_parsed = guarded(|| res.headers.SetCookie().map(|c| CrateParsed { name: c.Cookie().0.to_string(), value: c.Cookie().1.to_string(),
        expires: c.Expires().map(str::to_string), max_age: c.MaxAge(), domain: c.Domain().map(str::to_string), path: c.Path().map(str::to_string),
        secure: c.Secure(), http_only: c.HttpOnly(), same_site: c.SameSite().map(str::to_string) }).collect::<Vec<_>>()).map_err(|p| ("crate-parser", p))?;
    let wire_lines = (|| {
        let mut w = crate::sio::ScriptedWriter::new(crate::sio::WriterMode::All);
        let sent = guarded(|| crate::exec::block_on_immediate(ohkami::__verif__::send(res, &mut w))).map_err(|p| format!("panic:{}", panic_kind(&p)))?;
        sent.map_err(|s| format!("send {s}"))?;
        let (_, headers, _) = split_response(&w.written).ok_or("written bytes are not an HTTP/1.1 message with a Content-Length body")?;
        Ok(headers.into_iter().filter(|(k, _)| k.eq_ignore_ascii_case("Set-Cookie")).map(|(_, v)| v).collect())
    })();
    Ok(ResObs { lines, crate_parsed, wire_lines })
}

fn max_age_tag(n: u64) -> &'static str { match n { 0 => "max-age:0", 1 => "max-age:1", u64::MAX => "max-age:max", _ => "max-age:other" } }

/// first difference between what was asked for and what a parser got back: (attribute tag, symptom)
fn diff_cookie(spec: &SetSpec, name: &str, value: Result<&str, &str>, expires: Option<&str>, max_age: Result<Option<u64>, &str>, domain: Option<&str>, path: Option<&str>,
               secure: bool, http_only: bool, same_site: Option<&str>) -> Option<(String, &'static str)> {
    let presence = |want: bool, got: bool| if want && !got { Some("missing") } else if !want && got { Some("unexpected") } else { None };
    if name != spec.name { return Some(("name".into(), "wrong-value")) }
    match value { Err(_) => return Some((format!("value:{}", value_feature(&spec.value)), "undecodable")), Ok(v) if v != spec.value => return Some((format!("value:{}", value_feature(&spec.value)), "wrong-value")), _ => {} }
    let d = &spec.dir;
    if let Some(s) = presence(d.expires, expires.is_some()) { return Some(("expires".into(), s)) }
    if d.expires && expires != Some(EXPIRES) { return Some(("expires".into(), "wrong-value")) }
    let ma_tag = d.max_age.map(max_age_tag).unwrap_or("max-age").to_string();
    match max_age {
        Err(_) => return Some((ma_tag, "unreadable")),
        Ok(got) => { if let Some(s) = presence(d.max_age.is_some(), got.is_some()) { return Some((ma_tag, s)) } if got != d.max_age { return Some((ma_tag, "wrong-value")) } }
    }
    if let Some(s) = presence(d.domain, domain.is_some()) { return Some(("domain".into(), s)) }
    if d.domain && domain != Some(DOMAIN) { return Some(("domain".into(), "wrong-value")) }
    if let Some(s) = presence(d.path.is_some(), path.is_some()) { return Some(("path".into(), s)) }
    if path != d.path.as_deref() { return Some(("path".into(), "wrong-value")) }
    if let Some(s) = presence(d.secure, secure) { return Some(("secure".into(), s)) }
    if let Some(s) = presence(d.http_only, http_only) { return Some(("httponly".into(), s)) }
    let ss_tag = d.same_site.map(|s| format!("samesite:{}", s.to_ascii_lowercase())).unwrap_or_else(|| "samesite".into());
    if let Some(s) = presence(d.same_site.is_some(), same_site.is_some()) { return Some((ss_tag, s)) }
    if same_site != d.same_site { return Some((ss_tag, "wrong-value")) }
    None
}

fn check_response(ctx: &mut Ctx, cookies: &[SetSpec]) {
    let wit = |observed: String| json!({"part": "set-cookie", "cookies": cookies.iter().map(|c| json!({"name": c.name, "value": c.value, "directives": c.dir.json()})).collect::<Vec<_>>(), "observed": observed});
    let n = cookies.len();
    let shape = if n == 1 { "" } else { "multi:" };
    let obs = match observe_response(cookies) {
        Ok(o) => o,
        Err((stage, p)) => return ctx.violation(&format!("C11/set-cookie/{stage}/{shape}panic:{}", panic_kind(&p)), true, || wit(format!("panic in {stage}: {p}"))),
    };
    let all = format!("lines={:?} wire={:?}", obs.lines, obs.wire_lines);
    // (1) one line per cookie
    if obs.lines.len() != n {
        return ctx.violation(&format!("C11/set-cookie/line/{shape}count/{}", if obs.lines.len() < n { "missing-line" } else { "extra-line" }), true, || wit(all.clone()))
    }
    let mut lenient = false;
    for (spec, line) in cookies.iter().zip(&obs.lines) {
        // (2) the line is inside the RFC 6265 grammar and says what was asked for
        let p = match ck::parse_set_cookie(line) {
            Ok(p) => p,
            Err((at, msg)) => {
                let at = if at == "value" { format!("value:{}", value_feature(&spec.value)) } else if at == "max-age" { spec.dir.max_age.map(max_age_tag).unwrap_or("max-age").to_string() } else { at };
                return ctx.violation(&format!("C11/set-cookie/line/{shape}{at}/outside-grammar"), true, || wit(format!("{msg}; {all}")))
            }
        };
        if !p.extensions.is_empty() { return ctx.violation(&format!("C11/set-cookie/line/{shape}extension/unexpected"), true, || wit(all.clone())) }
        lenient |= !p.lenient.is_empty();
        let value = ck::decode_wire_value(&p.value_wire);
        let max_age = match &p.max_age { None => Ok(None), Some(d) => d.parse::<u64>().map(Some).map_err(|_| "overflow") };
        if let Some((attr, symptom)) = diff_cookie(spec, &p.name, value.as_deref().map_err(|e| e.as_str()), p.expires.as_deref(), max_age, p.domain.as_deref(), p.path.as_deref(), p.secure, p.http_only, p.same_site.as_deref()) {
            return ctx.violation(&format!("C11/set-cookie/line/{shape}{attr}/{symptom}"), true, || wit(all.clone()))
        }
    }
    // (3) the crate's own parser reads the same back
    if obs.crate_parsed.len() != n {
        return ctx.violation(&format!("C11/set-cookie/crate-parser/{shape}count/{}", if obs.crate_parsed.len() < n { "missing-cookie" } else { "extra-cookie" }), true, || wit(all.clone()))
    }
    for (spec, c) in cookies.iter().zip(&obs.crate_parsed) {
        if let Some((attr, symptom)) = diff_cookie(spec, &c.name, Ok(&c.value), c.expires.as_deref(), Ok(c.max_age), c.domain.as_deref(), c.path.as_deref(),
                c.secure == Some(true), c.http_only == Some(true), c.same_site.as_deref()) {
            return ctx.violation(&format!("C11/set-cookie/crate-parser/{shape}{attr}/{symptom}"), true,
                || wit(format!("headers.SetCookie() gave name={:?} value={:?} expires={:?} max_age={:?} domain={:?} path={:?} secure={:?} http_only={:?} same_site={:?}; {all}",
                    c.name, c.value, c.expires, c.max_age, c.domain, c.path, c.secure, c.http_only, c.same_site)))
        }
    }
    // (4) the same lines, one per cookie, in the bytes written by `send`
    match &obs.wire_lines {
        Err(e) => return ctx.violation(&format!("C11/set-cookie/wire/{shape}send/{}", panic_kind(e)), true, || wit(format!("{e}; {all}"))),
        Ok(w) if *w != obs.lines => return ctx.violation(&format!("C11/set-cookie/wire/{shape}lines/{}", if w.len() != n { "count" } else { "altered" }), true, || wit(all.clone())),
        Ok(_) => {}
    }
    if lenient { return ctx.ambiguous("set-cookie:max-age-zero-outside-strict-grammar") }
    let encoded = cookies.iter().any(|c| c.value.bytes().any(|b| !b.is_ascii_alphanumeric()) || c.dir.max_age == Some(u64::MAX)) || n > 1;
    let nontrivial = cookies.iter().any(|c| c.dir.count() > 0 || !c.value.is_empty());
    ctx.pass(&format!("set-cookie:ok:{}{}-directives", shape, cookies.iter().map(|c| c.dir.count()).sum::<usize>()), nontrivial, nontrivial && encoded);
}

/* =============================== enumeration =============================== */

struct Bounds { cookies_full: Vec<Cookie>, full_max: usize, cookies_reduced: Vec<Cookie>, reduced_max: usize, paths: Vec<Option<&'static str>>, pair_values: Vec<&'static str> }

fn bounds(tier: Tier) -> Bounds {
    match tier {
        Tier::Quick => Bounds { cookies_full: cookie_alphabet(NAMES, VALUES), full_max: 2,
            cookies_reduced: cookie_alphabet(NAMES, &["a", "", "é", "a=b", "%41", "a;b", "&b"]), reduced_max: 3,
            paths: vec![None, Some("/")], pair_values: vec!["a", "a;b"] },
        Tier::Thorough => Bounds { cookies_full: cookie_alphabet(NAMES, VALUES), full_max: 3,
            cookies_reduced: cookie_alphabet(NAMES, &["a", "", "é", "a=b", "%41", "&b"]), reduced_max: 4,
            paths: vec![None, Some("/"), Some("/p q/r=s")], pair_values: vec!["a", "", "a;b", "é"] },
    }
}

fn for_each_jar(alphabet: &[Cookie], first: usize, len: usize, f: &mut dyn FnMut(&[&Cookie])) {
    fn rec<'a>(alphabet: &'a [Cookie], len: usize, cur: &mut Vec<&'a Cookie>, f: &mut dyn FnMut(&[&Cookie])) {
        if cur.len() == len { f(cur); return }
        for c in alphabet {
            if cur.iter().any(|x| x.name == c.name) { continue }
            cur.push(c); rec(alphabet, len, cur, f); cur.pop();
        }
    }
    let mut cur = vec![&alphabet[first]];
    rec(alphabet, len, &mut cur, f);
}

enum Mode<'a> { Run { skip: &'a BTreeSet<u64>, progress: &'a Progress }, Describe(u64) }
/// what `Describe(n)` finds: the class prefix and the replayable witness of case n
struct Found { class: String, witness: Value }

/// class prefix for a request-side case that killed the process (no call into the subject here)
fn died_class_request(jar: &[&Cookie], target: Option<usize>) -> String {
    let blamed = jar.iter().copied().min_by_key(|c| cookie_feature(c).0).expect("jars are never empty");
    match target {
        None => format!("C11/iter/{}", cookie_tag(blamed)),
        Some(ti) => format!("C11/de/{}/{}", TARGETS[ti].fields.iter().find(|(n, _)| *n == blamed.name).map(|(_, k)| k.name()).unwrap_or("undeclared"), cookie_tag(blamed)),
    }
}
fn died_class_response(cookies: &[SetSpec]) -> String { format!("C11/set-cookie/build/{}", if cookies.len() == 1 { "" } else { "multi:" }) }
fn response_witness(cookies: &[SetSpec]) -> Value {
    json!({"part": "set-cookie", "cookies": cookies.iter().map(|c| json!({"name": c.name, "value": c.value, "directives": c.dir.json()})).collect::<Vec<_>>()})
}

/// One unit of the request side: every jar of `len` cookies that starts with cookie number `first`; 1 + 8 cases per jar.
fn walk_jar_unit(ctx: &mut Ctx, app: &IterApp, alphabet: &[Cookie], first: usize, len: usize, selfcheck: bool, mode: &Mode<'_>) -> Option<Found> {
    let mut seq = 0u64;
    let mut found: Option<Found> = None;
    for_each_jar(alphabet, first, len, &mut |jar| {
        if ctx.capped || found.is_some() { return }
        let header = header_of(jar);
        if selfcheck && matches!(mode, Mode::Run { .. }) {
            // binds the encoder to the grammar: the strict reader returns the same pairs, and the percent
            // convention gives back the value
            ctx.traces_validated += 1;
            match ck::parse_cookie_header(&header) {
                Ok(p) if p.len() == jar.len() && p.iter().zip(jar).all(|((n, w), c)| n == c.name && *w == c.wire && (!c.enc.is_pct() || ck::decode_wire_value(w).as_deref() == Ok(c.value.as_str()))) => {}
                other => ctx.machinery_error(format!("reference: strict Cookie reader disagrees with the encoder on `{header}`: {other:?}")),
            }
        }
        let encoded = jar.iter().any(|c| c.wire != c.value);
        for target in std::iter::once(None).chain((0..TARGETS.len()).map(Some)) {
            seq += 1;
            match mode {
                Mode::Describe(n) => if seq == *n {
                    found = Some(Found { class: died_class_request(jar, target), witness: match target {
                        None => json!({"part": "iter", "jar": jar_json(jar), "header": header}),
                        Some(ti) => json!({"part": "de", "jar": jar_json(jar), "target": TARGETS[ti].id, "header": header}) } });
                    return
                },
                Mode::Run { skip, progress } => {
                    if skip.contains(&seq) { continue }
                    progress.set(seq);
                    match target { None => check_iter(ctx, app, jar, &header, encoded), Some(ti) => check_typed(ctx, jar, &header, ti, encoded) }
                }
            }
        }
        let _ = ctx.out_of_time();
    });
    found
}

fn walk_response_unit(ctx: &mut Ctx, responses: &mut dyn Iterator<Item = Vec<SetSpec>>, mode: &Mode<'_>) -> Option<Found> {
    let mut seq = 0u64;
    for cookies in responses {
        seq += 1;
        match mode {
            Mode::Describe(n) => if seq == *n { return Some(Found { class: died_class_response(&cookies), witness: response_witness(&cookies) }) },
            Mode::Run { skip, progress } => { if skip.contains(&seq) { continue } progress.set(seq); check_response(ctx, &cookies) }
        }
    }
    None
}

const MAX_DEATHS_PER_UNIT: usize = 6;

/// Runs one unit in a forked child (see `c10::isolate_unit`); cases that kill the process become `…/abort:<signal>` violations.
fn run_isolated(ctx: &mut Ctx, progress: &Progress, given_up: &mut u64, walk: &dyn Fn(&mut Ctx, &Mode<'_>) -> Option<Found>) {
    let (completed, died) = isolate_unit(ctx, progress, MAX_DEATHS_PER_UNIT, &|c, skip| { walk(c, &Mode::Run { skip, progress }); });
    if !completed { *given_up += 1 }
    for (at, sig) in died {
        let mut scratch = Ctx::new(ctx.property, ctx.tier, 0, 1);
        match walk(&mut scratch, &Mode::Describe(at)) {
            Some(mut f) => { f.witness["observed"] = json!(format!("process died: {sig}")); let w = f.witness; ctx.violation(&format!("{}/abort:{sig}", f.class), true, || w) }
            None => ctx.machinery_error(format!("could not re-derive case {at} of a unit that died")),
        }
    }
}

pub fn run(ctx: &mut Ctx) {
    let b = bounds(ctx.tier);
    crate::app::pin_clock();
    let app = IterApp::new();
    let progress = Progress::new();
    let mut given_up = 0u64;

    /* request side */
    for (alphabet, lens, selfcheck) in [(&b.cookies_full, 1..=b.full_max, true), (&b.cookies_reduced, (b.full_max + 1)..=b.reduced_max, false)] {
        for len in lens {
            for first in 0..alphabet.len() {
                if !ctx.mine() { continue }
                if ctx.out_of_time() { break }
                run_isolated(ctx, &progress, &mut given_up, &|c, mode| walk_jar_unit(c, &app, alphabet, first, len, selfcheck, mode));
            }
        }
    }

    /* response side: one cookie, every directive combination */
    let combos = directive_combos(&b.paths);
    for name in NAMES {
        for value in VALUES {
            if !ctx.mine() { continue }
            if ctx.out_of_time() { break }
            run_isolated(ctx, &progress, &mut given_up, &|c, mode| walk_response_unit(c, &mut combos.iter().map(|d| vec![SetSpec { name, value: value.to_string(), dir: d.clone() }]), mode));
        }
    }
    /* response side: two cookies in one response (one line per cookie, order kept) */
    let few: Vec<Directives> = combos.iter().filter(|d| d.count() <= 1 || d.count() == 7).cloned().collect();
    let singles: Vec<SetSpec> = [NAMES[0], NAMES[4]].iter().flat_map(|n| b.pair_values.iter().flat_map(|v| few.iter().map(|d| SetSpec { name: n, value: v.to_string(), dir: d.clone() }).collect::<Vec<_>>()).collect::<Vec<_>>()).collect();
    for x in &singles {
        if !ctx.mine() { continue }
        if ctx.out_of_time() { break }
        run_isolated(ctx, &progress, &mut given_up, &|c, mode| walk_response_unit(c, &mut singles.iter().map(|y| vec![x.clone(), y.clone()]), mode));
    }
    if given_up > 0 { ctx.capped = true; ctx.extra.insert("sum_units_given_up_after_repeated_process_deaths".into(), json!(given_up)); }

    ctx.sample(|| { let c = &b.cookies_full; let jar = [&c[0], &c[c.len() - 1]]; json!({"jar": jar_json(&jar), "header": header_of(&jar)}) });
    ctx.sample(|| { let s = SetSpec { name: "a", value: "a;b".into(), dir: combos[combos.len() - 1].clone() };
        json!({"set-cookie": s.dir.json(), "line": build_response(&[s]).headers.iter().filter(|(k, _)| *k == "Set-Cookie").map(|(_, v)| v.to_string()).collect::<Vec<_>>()}) });
    ctx.extra.insert("rule".into(), json!("request side: case = (jar of 1..3 cookies with distinct names, each value in one RFC 6265 wire form; one of 8 target structs | the request's \
        Cookies() iterator); non-trivial = the target declares at least one cookie of the jar; collision = some cookie's wire form differs from its value (quoted or percent-encoded). \
        response side: case = (1 or 2 cookies × directive combination) read back by the independent RFC 6265 parser, by headers.SetCookie() and from the bytes written by send; \
        collision = the value needs encoding, Max-Age is u64::MAX, or two cookies share a response. every case is distinct by construction (full products)"));
    ctx.extra.insert("distinct_by_construction".into(), json!(true));
    ctx.extra.insert("bounds".into(), json!({
        "names": NAMES, "values": VALUES, "wire_forms": Enc::ALL.iter().map(|e| e.tag()).collect::<Vec<_>>(),
        "cookie_alphabet_full": b.cookies_full.len(), "jar_len_full": b.full_max, "cookie_alphabet_reduced": b.cookies_reduced.len(), "jar_len_reduced": b.reduced_max,
        "targets": TARGETS.iter().map(|t| t.id).collect::<Vec<_>>(), "directive_combinations": combos.len(), "paths": b.paths, "max_age": [0u64, 1, u64::MAX],
        "two_cookie_responses": singles.len() * singles.len() }));
}

/* =============================== replay =============================== */

fn leak(s: &str) -> &'static str { NAMES.iter().copied().find(|n| *n == s).unwrap_or_else(|| Box::leak(s.to_string().into_boxed_str())) }

pub fn replay(ctx: &mut Ctx, case: &Value) {
    // in its own process: a case that kills the process is a violation of kind abort, as during the exploration
    let (property, tier) = (ctx.property, ctx.tier);
    match fork_run(120, || { let mut c = Ctx::new(property, tier, 0, 1); c.replaying = true; replay_here(&mut c, case); c.report().to_string().into_bytes() }) {
        ForkResult::Done(bytes) => match serde_json::from_slice::<Value>(&bytes) { Ok(r) => merge_report(ctx, &r), Err(e) => ctx.machinery_error(format!("replay report unreadable: {e}")) },
        ForkResult::Signaled(sig) => {
            let prefix = match case["part"].as_str() {
                Some(part @ ("de" | "iter")) => jar_from_json(case).map(|cookies| died_class_request(&cookies.iter().collect::<Vec<_>>(),
                    if part == "iter" { None } else { case["target"].as_str().and_then(|id| TARGETS.iter().position(|t| t.id == id)) })),
                Some("set-cookie") => specs_from_json(case).map(|s| died_class_response(&s)),
                _ => None,
            };
            match prefix { Some(p) => ctx.violation(&format!("{p}/abort:{}", signal_name(sig)), true, || case.clone()), None => ctx.machinery_error("C11 replay: unreadable case".into()) }
        }
        ForkResult::Exited(c) => ctx.machinery_error(format!("replay child exited with code {c}")),
        ForkResult::Failed(w) => ctx.machinery_error(format!("replay isolation: {w} failed")),
    }
}

fn jar_from_json(case: &Value) -> Option<Vec<Cookie>> {
    let a = case["jar"].as_array()?;
    let cookies: Vec<Cookie> = a.iter().filter_map(|c| {
        let (name, value, enc) = (leak(c["name"].as_str()?), c["value"].as_str()?, Enc::from_tag(c["enc"].as_str()?)?);
        Some(Cookie { name, value: value.to_string(), enc, wire: ck::encode_value(value, enc)? })
    }).collect();
    (!cookies.is_empty() && cookies.len() == a.len()).then_some(cookies)
}
fn specs_from_json(case: &Value) -> Option<Vec<SetSpec>> {
    let a = case["cookies"].as_array()?;
    let specs: Vec<SetSpec> = a.iter().filter_map(|c| Some(SetSpec { name: leak(c["name"].as_str()?), value: c["value"].as_str()?.to_string(), dir: Directives::from_json(&c["directives"])? })).collect();
    (!specs.is_empty() && specs.len() == a.len()).then_some(specs)
}

fn replay_here(ctx: &mut Ctx, case: &Value) {
    crate::app::pin_clock();
    match case["part"].as_str() {
        Some(part @ ("de" | "iter")) => {
            let Some(cookies) = jar_from_json(case) else { return ctx.machinery_error("C11 replay: unreadable jar".into()) };
            let jar: Vec<&Cookie> = cookies.iter().collect();
            let header = header_of(&jar);
            let encoded = jar.iter().any(|c| c.wire != c.value);
            if part == "iter" { check_iter(ctx, &IterApp::new(), &jar, &header, encoded) }
            else {
                let Some(ti) = case["target"].as_str().and_then(|id| TARGETS.iter().position(|t| t.id == id)) else { return ctx.machinery_error("C11 replay: unknown target".into()) };
                check_typed(ctx, &jar, &header, ti, encoded)
            }
        }
        Some("set-cookie") => {
            match specs_from_json(case) { Some(s) => check_response(ctx, &s), None => ctx.machinery_error("C11 replay: unreadable cookies".into()) }
        }
        _ => ctx.machinery_error("C11 replay: case needs part = de | iter | set-cookie".into()),
    }
}
