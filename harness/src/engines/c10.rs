//! C10 — multipart/form-data bodies decode to exactly the submitted fields and files (DESIGN §5 C10).
//!
//! One case = (form, boundary, encoder options, target type).  A form is an ordered list of ≤ 3 parts drawn from
//! a part alphabet (text fields and files over names `a`,`b`); the body is produced by the independent RFC 7578
//! encoder in `refmodel::multipart`; it is decoded by the real `ohkami_lib::serde_multipart::from_bytes` into each
//! of 8 target shapes (and, for one family, through a real `Multipart<T>` handler over read → router → send).
//! The oracle is the form itself plus a small "does this form fit that field kind" table (`field_alts`).
//!
//! Machinery owned by this file (no shared file was edited):
//! * `fork_run` / `run_unit_isolated`: every unit of the enumeration runs in a forked child of the worker, with a
//!   progress counter in shared memory.  The subject contains `unsafe` shortcuts that *abort* the process in a
//!   `verif` build (`unreachable_unchecked` behind `unwrap_unchecked`), which `catch_unwind` cannot intercept.  If a
//!   child dies, the case it was executing is recorded as a violation of kind `abort:<signal>`, the case is added
//!   to a skip set and the unit is run again.  Cases for which an abort is *predicted* from the form (an empty file
//!   input that reaches a required `File` or an undeclared field) are executed in their own grandchild so that the
//!   known defect does not cost a unit re-run per case.

use crate::core::{esc, guarded, panic_kind, unesc, ClassStat, Ctx, Tier, MAX_SAMPLES, MAX_WITNESSES_PER_CLASS};
use crate::refmodel::multipart::{self as mp, EncOpts, Part, PartBody};
use ohkami_lib::serde_multipart::{from_bytes, File};
use serde::{Deserialize, Serialize};
use serde_json::{json, Value};
use std::collections::BTreeSet;

/* =============================== what is observed =============================== */

#[derive(Clone, Debug, PartialEq, Eq, Serialize, Deserialize)]
pub struct FileObs { filename: String, mimetype: String, content: Vec<u8> }

#[derive(Clone, Debug, PartialEq, Eq, Serialize, Deserialize)]
pub enum FieldObs { S(String), OS(Option<String>), F(FileObs), OF(Option<FileObs>), VF(Vec<FileObs>) }

pub type Obs = Vec<FieldObs>;

#[derive(Clone, Debug, PartialEq, Eq, Serialize, Deserialize)]
pub enum Observed { Val(Obs), Err(String), Panic(String), Abort(String) }

fn fo(f: &File<'_>) -> FileObs { FileObs { filename: f.filename.to_string(), mimetype: f.mimetype.to_string(), content: f.content.to_vec() } }

impl Observed {
    fn brief(&self) -> String {
        match self {
            Observed::Val(v) => format!("Ok({})", v.iter().map(show_field_obs).collect::<Vec<_>>().join(", ")),
            Observed::Err(e) => format!("Err({e})"),
            Observed::Panic(p) => format!("panic: {p}"),
            Observed::Abort(s) => format!("process died: {s}"),
        }
    }
}
fn show_file(f: &FileObs) -> String { format!("File{{filename:\"{}\", mimetype:\"{}\", content:\"{}\"}}", f.filename, f.mimetype, esc(&f.content)) }
fn show_field_obs(f: &FieldObs) -> String {
    match f {
        FieldObs::S(s) => format!("\"{}\"", esc(s.as_bytes())),
        FieldObs::OS(None) | FieldObs::OF(None) => "None".into(),
        FieldObs::OS(Some(s)) => format!("Some(\"{}\")", esc(s.as_bytes())),
        FieldObs::F(f) => show_file(f),
        FieldObs::OF(Some(f)) => format!("Some({})", show_file(f)),
        FieldObs::VF(v) => format!("[{}]", v.iter().map(show_file).collect::<Vec<_>>().join(", ")),
    }
}

/* =============================== target catalogue =============================== */

#[derive(Clone, Copy, Debug, PartialEq, Eq)]
pub enum Kind { S, OS, F, OF, VF }
impl Kind {
    fn name(self) -> &'static str { match self { Kind::S => "text", Kind::OS => "opt-text", Kind::F => "file", Kind::OF => "opt-file", Kind::VF => "files" } }
}

pub struct TargetDesc {
    /// `#[serde(deny_unknown_fields)]`: a body with a part the type has no field for does not fit its shape
    strict: bool,
    id: &'static str,
    fields: &'static [(&'static str, Kind)],
    decode: fn(&[u8]) -> Result<Obs, String>,
}

#[derive(Deserialize)] struct T0<'a> { a: &'a str }
#[derive(Deserialize)] struct T1 { a: String, b: String }
#[derive(Deserialize)] struct T2<'a> { #[serde(borrow)] a: File<'a> }
#[derive(Deserialize)] struct T3<'a> { #[serde(borrow)] a: Option<File<'a>> }
#[derive(Deserialize)] struct T4<'a> { #[serde(borrow)] a: Vec<File<'a>> }
#[derive(Deserialize)] struct T5<'a> { a: String, #[serde(borrow)] b: File<'a> }
#[derive(Deserialize)] struct T6<'a> { #[serde(borrow)] a: Vec<File<'a>>, b: Option<&'a str> }
#[derive(Deserialize)] struct T7<'a> { #[serde(borrow)] a: Option<File<'a>>, #[serde(borrow)] b: Vec<File<'a>> }
// "arbitrary names": fields whose wire names are not Rust identifiers
#[derive(Deserialize)] struct N0<'a> { #[serde(rename = "é n")] x: String, #[serde(rename = "a[]", borrow)] y: Vec<File<'a>> }
#[derive(Deserialize)] struct N1<'a> { #[serde(rename = "é n", borrow)] x: Option<File<'a>>, #[serde(rename = "a[]")] y: Option<String> }

// targets that declare their shape closed
#[derive(Deserialize)] #[serde(deny_unknown_fields)] struct D0 { a: String }
#[derive(Deserialize)] #[serde(deny_unknown_fields)] struct D1<'a> { #[serde(borrow)] a: Option<File<'a>>, b: Option<&'a str> }

fn obs_t6(t: &T6<'_>) -> Obs { vec![FieldObs::VF(t.a.iter().map(fo).collect()), FieldObs::OS(t.b.map(str::to_string))] }

macro_rules! dec { ($T:ty, |$t:ident| $obs:expr) => { |b: &[u8]| from_bytes::<$T>(b).map(|$t| $obs).map_err(|e| e.to_string()) } }

static TARGETS: &[TargetDesc] = &[
    TargetDesc { strict: false, id: "T0{a:&str}", fields: &[("a", Kind::S)], decode: dec!(T0, |t| vec![FieldObs::S(t.a.to_string())]) },
    TargetDesc { strict: false, id: "T1{a:String,b:String}", fields: &[("a", Kind::S), ("b", Kind::S)], decode: dec!(T1, |t| vec![FieldObs::S(t.a), FieldObs::S(t.b)]) },
    TargetDesc { strict: false, id: "T2{a:File}", fields: &[("a", Kind::F)], decode: dec!(T2, |t| vec![FieldObs::F(fo(&t.a))]) },
    TargetDesc { strict: false, id: "T3{a:Option<File>}", fields: &[("a", Kind::OF)], decode: dec!(T3, |t| vec![FieldObs::OF(t.a.as_ref().map(fo))]) },
    TargetDesc { strict: false, id: "T4{a:Vec<File>}", fields: &[("a", Kind::VF)], decode: dec!(T4, |t| vec![FieldObs::VF(t.a.iter().map(fo).collect())]) },
    TargetDesc { strict: false, id: "T5{a:String,b:File}", fields: &[("a", Kind::S), ("b", Kind::F)], decode: dec!(T5, |t| vec![FieldObs::S(t.a), FieldObs::F(fo(&t.b))]) },
    TargetDesc { strict: false, id: "T6{a:Vec<File>,b:Option<&str>}", fields: &[("a", Kind::VF), ("b", Kind::OS)], decode: dec!(T6, |t| obs_t6(&t)) },
    TargetDesc { strict: false, id: "T7{a:Option<File>,b:Vec<File>}", fields: &[("a", Kind::OF), ("b", Kind::VF)],
        decode: dec!(T7, |t| vec![FieldObs::OF(t.a.as_ref().map(fo)), FieldObs::VF(t.b.iter().map(fo).collect())]) },
    TargetDesc { strict: false, id: "N0{é n:String,a[]:Vec<File>}", fields: &[("é n", Kind::S), ("a[]", Kind::VF)],
        decode: dec!(N0, |t| vec![FieldObs::S(t.x), FieldObs::VF(t.y.iter().map(fo).collect())]) },
    TargetDesc { strict: false, id: "N1{é n:Option<File>,a[]:Option<String>}", fields: &[("é n", Kind::OF), ("a[]", Kind::OS)],
        decode: dec!(N1, |t| vec![FieldObs::OF(t.x.as_ref().map(fo)), FieldObs::OS(t.y)]) },
    TargetDesc { strict: true, id: "D0{a:String}!closed", fields: &[("a", Kind::S)], decode: dec!(D0, |t| vec![FieldObs::S(t.a)]) },
    TargetDesc { strict: true, id: "D1{a:Option<File>,b:Option<&str>}!closed", fields: &[("a", Kind::OF), ("b", Kind::OS)],
        decode: dec!(D1, |t| vec![FieldObs::OF(t.a.as_ref().map(fo)), FieldObs::OS(t.b.map(str::to_string))]) },
];
const WIRE_TARGET: usize = 6;

fn target_by_id(id: &str) -> Option<usize> { TARGETS.iter().position(|t| t.id == id) }

/* =============================== the oracle =============================== */

#[derive(Clone, Debug)]
pub struct FileExp { filename: String, /** None: no Content-Type was written; `""` and the RFC 7578 default `text/plain` are both admissible */ mimetype: Option<String>, content: Vec<u8> }
#[derive(Clone, Debug)]
pub enum FieldExp { S(String), OS(Option<String>), F(FileExp), OF(Option<FileExp>), VF(Vec<FileExp>) }
#[derive(Clone, Debug)]
pub enum Alt { Err, Val(FieldExp) }

pub struct Expect { fields: Vec<Vec<Alt>>, unknown: bool, empty_form: bool }

fn fe(p: &Part) -> FileExp {
    match &p.body {
        PartBody::File { filename, ctype, content } => FileExp { filename: filename.clone(), mimetype: ctype.clone(), content: content.clone() },
        PartBody::Text { .. } => unreachable!("fe() on a text part"),
    }
}

/// What the property statement admits for one field of the target, given the parts submitted under its name.
/// More than one alternative = the statement is silent (the case is then counted as ambiguous when it agrees).
fn field_alts(kind: Kind, p: &[&Part], adjacent: bool) -> Vec<Alt> {
    use Alt::{Err as E, Val as V};
    match p.len() {
        0 => match kind {
            Kind::S | Kind::F => vec![E],                         // a required field with nothing submitted does not fit
            Kind::OS => vec![V(FieldExp::OS(None))],
            Kind::OF => vec![V(FieldExp::OF(None))],              // "a missing … file input decodes to an absent value"
            Kind::VF => vec![E, V(FieldExp::VF(vec![]))],         // serde's missing-field error or the empty list: silent
        },
        1 => {
            let q = p[0];
            match (&q.body, kind) {
                (PartBody::Text { value }, Kind::S) => vec![V(FieldExp::S(value.clone()))],
                (PartBody::Text { value }, Kind::OS) =>
                    if value.is_empty() { vec![V(FieldExp::OS(None)), V(FieldExp::OS(Some(String::new())))] } else { vec![V(FieldExp::OS(Some(value.clone())))] },
                (PartBody::Text { value }, Kind::OF) => if value.is_empty() { vec![E, V(FieldExp::OF(None))] } else { vec![E] },
                (PartBody::Text { .. }, Kind::F | Kind::VF) => vec![E],
                (PartBody::File { .. }, Kind::S) => vec![E],
                (PartBody::File { .. }, Kind::OS) => if q.is_empty_file_input() { vec![E, V(FieldExp::OS(None))] } else { vec![E] },
                (PartBody::File { .. }, Kind::F) => if q.is_empty_file_input() { vec![E, V(FieldExp::F(fe(q)))] } else { vec![V(FieldExp::F(fe(q)))] },
                (PartBody::File { .. }, Kind::OF) => if q.is_empty_file_input() { vec![V(FieldExp::OF(None))] } else { vec![V(FieldExp::OF(Some(fe(q))))] },
                (PartBody::File { .. }, Kind::VF) => if q.is_empty_file_input() { vec![V(FieldExp::VF(vec![]))] } else { vec![V(FieldExp::VF(vec![fe(q)]))] },
            }
        }
        _ => {
            let all_files = p.iter().all(|q| q.is_file());
            let all_empty = p.iter().all(|q| q.is_empty_file_input());
            let filled: Vec<&&Part> = p.iter().filter(|q| !q.is_empty_file_input()).collect();
            let _ = adjacent;
            match kind {
                // "several files under one name kept in submission order", "an empty file input decodes to an absent/empty value":
                // the files of all inputs sharing the name, in submission order, adjacent or not, empty inputs contributing nothing
                // (the builder's first oracle admitted an error for non-adjacent parts and for an empty input next to a filled one;
                // the implementation then turned out to depend on the *order* of the two, which no reading admits)
                Kind::VF if all_files => vec![V(FieldExp::VF(filled.iter().map(|q| fe(q)).collect()))],
                // several inputs for a single-valued field: silent (an error, or the one file that was really submitted)
                Kind::OF if all_files && filled.len() <= 1 => vec![E, V(FieldExp::OF(filled.first().map(|q| fe(q))))],
                Kind::F if all_files && filled.len() == 1 => vec![E, V(FieldExp::F(fe(filled[0])))],
                Kind::OS if all_empty => vec![E, V(FieldExp::OS(None))],
                _ => vec![E],   // several values for a single-valued field, or texts mixed with files: does not fit
            }
        }
    }
}

fn fit(parts: &[&Part], t: &TargetDesc) -> Expect {
    let mut fields = Vec::with_capacity(t.fields.len());
    for (name, kind) in t.fields {
        let idx: Vec<usize> = (0..parts.len()).filter(|&i| parts[i].name == *name).collect();
        let adjacent = idx.windows(2).all(|w| w[1] == w[0] + 1);
        let p: Vec<&Part> = idx.iter().map(|&i| parts[i]).collect();
        fields.push(field_alts(*kind, &p, adjacent));
    }
    let unknown = parts.iter().any(|p| !t.fields.iter().any(|(n, _)| p.name == *n));
    Expect { fields, unknown, empty_form: parts.is_empty() }
}

fn file_diff(e: &FileExp, o: &FileObs) -> Option<&'static str> {
    if e.filename != o.filename { return Some("wrong-filename") }
    match &e.mimetype {
        Some(m) if *m != o.mimetype => return Some("wrong-mimetype"),
        None if !(o.mimetype.is_empty() || o.mimetype == "text/plain") => return Some("wrong-mimetype"),
        _ => {}
    }
    if e.content != o.content {
        return Some(if e.content.starts_with(&o.content) { "wrong-content:truncated" }
            else if o.content.starts_with(&e.content) { "wrong-content:extended" } else { "wrong-content:other" })
    }
    None
}

/// None = matches
fn field_diff(e: &FieldExp, o: &FieldObs) -> Option<&'static str> {
    match (e, o) {
        (FieldExp::S(a), FieldObs::S(b)) => (a != b).then_some("wrong-text"),
        (FieldExp::OS(None), FieldObs::OS(None)) | (FieldExp::OF(None), FieldObs::OF(None)) => None,
        (FieldExp::OS(Some(_)), FieldObs::OS(None)) | (FieldExp::OF(Some(_)), FieldObs::OF(None)) => Some("absent-should-be-present"),
        (FieldExp::OS(None), FieldObs::OS(Some(_))) | (FieldExp::OF(None), FieldObs::OF(Some(_))) => Some("present-should-be-absent"),
        (FieldExp::OS(Some(a)), FieldObs::OS(Some(b))) => (a != b).then_some("wrong-text"),
        (FieldExp::F(a), FieldObs::F(b)) | (FieldExp::OF(Some(a)), FieldObs::OF(Some(b))) => file_diff(a, b),
        (FieldExp::VF(a), FieldObs::VF(b)) => {
            if b.len() < a.len() { return Some("missing-file") }
            if b.len() > a.len() { return Some("extra-file") }
            if a.iter().zip(b).all(|(x, y)| file_diff(x, y).is_none()) { return None }
            // same files in another order?
            let mut used = vec![false; b.len()];
            let permuted = a.iter().all(|x| match (0..b.len()).find(|&j| !used[j] && file_diff(x, &b[j]).is_none()) { Some(j) => { used[j] = true; true } None => false });
            if permuted { return Some("order") }
            a.iter().zip(b).find_map(|(x, y)| file_diff(x, y))
        }
        _ => Some("wrong-field-kind"), // cannot happen: the observation has the target's field kinds
    }
}

pub enum Verdict { Pass { ambiguous: bool, key: String }, Violation { field: Option<usize>, symptom: String } }

fn judge(exp: &Expect, obs: &Observed, t: &TargetDesc) -> Verdict {
    let tid = t.id.split('{').next().unwrap_or(t.id);
    match obs {
        Observed::Panic(p) => Verdict::Violation { field: None, symptom: format!("panic:{}", panic_kind(p)) },
        Observed::Abort(s) => Verdict::Violation { field: None, symptom: format!("abort:{s}") },
        Observed::Err(_) => {
            let must = exp.fields.iter().any(|alts| alts.iter().all(|a| matches!(a, Alt::Err))) || (t.strict && exp.unknown);
            let may = must || exp.unknown || exp.fields.iter().any(|alts| alts.iter().any(|a| matches!(a, Alt::Err)));
            if !may { return Verdict::Violation { field: None, symptom: "refused-should-accept".into() } }
            Verdict::Pass { ambiguous: !must, key: format!("err:{tid}") }
        }
        Observed::Val(v) => {
            if v.len() != exp.fields.len() { return Verdict::Violation { field: None, symptom: "wrong-field-count".into() } }
            if t.strict && exp.unknown { return Verdict::Violation { field: None, symptom: "accepted-should-refuse:undeclared-part-into-closed-type".into() } }
            let mut ambiguous = exp.unknown;
            for (i, (alts, o)) in exp.fields.iter().zip(v).enumerate() {
                let vals: Vec<&FieldExp> = alts.iter().filter_map(|a| match a { Alt::Val(e) => Some(e), Alt::Err => None }).collect();
                if vals.is_empty() { return Verdict::Violation { field: Some(i), symptom: "accepted-should-refuse".into() } }
                if !vals.iter().any(|e| field_diff(e, o).is_none()) {
                    return Verdict::Violation { field: Some(i), symptom: field_diff(vals[0], o).unwrap_or("wrong-value").to_string() }
                }
                if alts.len() > 1 { ambiguous = true }
            }
            Verdict::Pass { ambiguous, key: format!("val:{tid}") }
        }
    }
}

fn show_expect(exp: &Expect) -> String {
    let f = |e: &FileExp| format!("File{{filename:\"{}\", mimetype:{}, content:\"{}\"}}", e.filename,
        e.mimetype.as_ref().map(|m| format!("\"{m}\"")).unwrap_or_else(|| "\"\"|\"text/plain\"".into()), esc(&e.content));
    let fields: Vec<String> = exp.fields.iter().map(|alts| alts.iter().map(|a| match a {
        Alt::Err => "Err".to_string(),
        Alt::Val(FieldExp::S(s)) => format!("\"{}\"", esc(s.as_bytes())),
        Alt::Val(FieldExp::OS(None)) | Alt::Val(FieldExp::OF(None)) => "None".into(),
        Alt::Val(FieldExp::OS(Some(s))) => format!("Some(\"{}\")", esc(s.as_bytes())),
        Alt::Val(FieldExp::F(e)) => f(e),
        Alt::Val(FieldExp::OF(Some(e))) => format!("Some({})", f(e)),
        Alt::Val(FieldExp::VF(v)) => format!("[{}]", v.iter().map(f).collect::<Vec<_>>().join(", ")),
    }).collect::<Vec<_>>().join(" | ")).collect();
    format!("fields: ({}){}{}", fields.join("; "), if exp.unknown { " | Err (undeclared part present)" } else { "" }, if exp.empty_form { " (the form without fields)" } else { "" })
}

/* =============================== classification =============================== */

fn contains(hay: &[u8], needle: &[u8]) -> bool { !needle.is_empty() && hay.windows(needle.len()).any(|w| w == needle) }

/// (rank, feature) of one part; smaller rank = more likely to be what the decoder trips over
fn part_feature(p: &Part, boundary: &str) -> (u8, &'static str) {
    let c = p.content();
    let dash = [b"--", boundary.as_bytes()].concat();
    if contains(c, &dash) { return (1, "dash-boundary-in-content") }
    if p.is_empty_file_input() { return (2, "empty-file-input") }
    if c.ends_with(b"\r\n") { return (4, "content-ends-crlf") }
    if c.ends_with(b"\r") { return (4, "content-ends-cr") }
    if c.ends_with(b"\n") { return (4, "content-ends-lf") }
    if contains(c, b"\r\n") { return (4, "content-has-crlf") }
    if contains(c, b"--") { return (4, "content-has-dashdash") }
    if std::str::from_utf8(c).is_err() || c.contains(&0) { return (4, "content-binary") }
    match &p.body {
        PartBody::File { filename, ctype, content } => {
            if filename.is_empty() { return (5, "filename-empty") }
            if !filename.is_ascii() { return (5, "filename-non-ascii") }
            if content.is_empty() { return (5, "content-empty") }
            if ctype.is_none() { return (6, "type-absent") }
        }
        PartBody::Text { value } => {
            if value.is_empty() { return (5, "text-empty") }
            if !value.is_ascii() { return (5, "text-non-ascii") }
        }
    }
    if !p.name.bytes().all(|b| b.is_ascii_alphanumeric()) { return (6, "name-special") }
    (7, "plain")
}

fn group_feature(parts: &[&Part], name: &str) -> Option<(u8, &'static str)> {
    let idx: Vec<usize> = (0..parts.len()).filter(|&i| parts[i].name == name).collect();
    if idx.len() < 2 { return None }
    let adjacent = idx.windows(2).all(|w| w[1] == w[0] + 1);
    let files = idx.iter().filter(|&&i| parts[i].is_file()).count();
    Some((3, if files == idx.len() { if adjacent { "same-name-files" } else { "same-name-files-nonadjacent" } }
        else if files == 0 { "same-name-texts" } else { "same-name-mixed" }))
}

/// (field-kind, feature) for the class id.
fn blame(parts: &[&Part], t: &TargetDesc, field: Option<usize>, boundary: &str) -> (&'static str, &'static str) {
    let kind_of = |name: &str| t.fields.iter().find(|(n, _)| *n == name).map(|(_, k)| k.name()).unwrap_or("undeclared");
    // a part whose content holds the dash-boundary derails the parse of everything after it
    let poison = parts.iter().find(|p| part_feature(p, boundary).0 == 1);
    match field {
        Some(i) => {
            let (name, kind) = t.fields[i];
            if poison.is_some() { return (kind.name(), "dash-boundary-in-content") }
            let mut best: Option<(u8, &'static str)> = group_feature(parts, name);
            for p in parts.iter().filter(|p| p.name == name) {
                let f = part_feature(p, boundary);
                if best.map_or(true, |b| f.0 < b.0) { best = Some(f) }
            }
            (kind.name(), best.map(|b| b.1).unwrap_or("no-part"))
        }
        None => {
            if parts.is_empty() { return ("form", "empty-form") }
            if let Some(p) = poison { return (kind_of(&p.name), "dash-boundary-in-content") }
            let mut best: Option<(u8, &'static str, &str)> = None;
            for p in parts {
                let mut f = part_feature(p, boundary);
                if let Some(g) = group_feature(parts, &p.name) { if g.0 < f.0 { f = g } }
                if best.map_or(true, |b| f.0 < b.0) { best = Some((f.0, f.1, &p.name)) }
            }
            let b = best.unwrap();
            (kind_of(b.2), b.1)
        }
    }
}

/* =============================== alphabets and families =============================== */

#[derive(Clone, Copy, Debug)]
enum Content { Lit(&'static [u8]), /** `--` + boundary: forms a delimiter with the preceding CRLF ⇒ outside the domain */ DashBoundary, /** `x--` + boundary: inside the domain */ XDashBoundary, /** `xy--` + boundary */ XYDashBoundary }

#[derive(Clone, Debug)]
enum SpecBody { Text(&'static str), File { filename: &'static str, ctype: Option<&'static str>, content: Content } }
#[derive(Clone, Debug)]
struct PartSpec { name: &'static str, body: SpecBody }

impl PartSpec {
    fn materialize(&self, boundary: &str) -> Part {
        match &self.body {
            SpecBody::Text(v) => Part::text(self.name, v),
            SpecBody::File { filename, ctype, content } => {
                let c: Vec<u8> = match content {
                    Content::Lit(b) => b.to_vec(),
                    Content::DashBoundary => format!("--{boundary}").into_bytes(),
                    Content::XDashBoundary => format!("x--{boundary}").into_bytes(),
                    Content::XYDashBoundary => format!("xy--{boundary}").into_bytes(),
                };
                Part::file(self.name, filename, *ctype, &c)
            }
        }
    }
}

struct Family {
    id: &'static str,
    kinds: Vec<PartSpec>,
    max_parts: usize,
    boundaries: Vec<&'static str>,
    opts: Vec<EncOpts>,
    targets: Vec<usize>,
    wire: bool,
    /// run the strict reference decoder on every body of forms up to this length (binds the encoder to the grammar)
    selfcheck_len: usize,
}

fn kinds(names: &[&'static str], texts: &[&'static str], filenames: &[&'static str], types: &[Option<&'static str>], contents: &[Content]) -> Vec<PartSpec> {
    // simplest first: texts, then files; the name varies fastest so that repeats and both names appear early
    let mut v = Vec::new();
    for t in texts { for n in names { v.push(PartSpec { name: n, body: SpecBody::Text(t) }) } }
    for c in contents { for f in filenames { for ty in types { for n in names {
        v.push(PartSpec { name: n, body: SpecBody::File { filename: f, ctype: *ty, content: *c } })
    } } } }
    v
}

const TEXTS: &[&str] = &["a", "", "é", "a\r\nb"];
const FILENAMES: &[&str] = &["f.txt", "", "é.png"];
// (the last one: a media type with parameters - "the same ... media type" means the whole value, parameters included)
const TYPES: &[Option<&str>] = &[Some("text/plain"), None, Some("image/png"), Some("text/csv; charset=ISO-8859-1; header=present")];
const CONTENTS: &[Content] = &[
    Content::Lit(b"x"), Content::Lit(b""), Content::Lit(b"\r\n"), Content::Lit(b"a\r\n"), Content::Lit(b"\r"), Content::Lit(b"--"),
    Content::XDashBoundary, Content::XYDashBoundary, Content::DashBoundary, Content::Lit(b"\0\xff"),
];
// (the last one: the longest boundary RFC 2046 allows, 70 characters - Dart's http package always writes 70)
const BOUNDARIES: &[&str] = &["B", "----WebKitFormBoundaryX", "a-b", "dart-http-boundary-0123456789abcdefghijklmnopqrstuvwxyzABCDEFGHIJKLMNO"];

fn opts_quick() -> Vec<EncOpts> {
    // default, then each option flipped alone, then all flipped
    use mp::Extra;
    let d = EncOpts::DEFAULT;
    vec![d, EncOpts { final_crlf: false, ..d }, EncOpts { ct_first: true, ..d }, EncOpts { extra: Extra::Last, ..d }, EncOpts { extra: Extra::First, ..d },
         EncOpts { text_ct: true, ..d }, EncOpts { ct_first: true, extra: Extra::First, final_crlf: false, text_ct: true }]
}

fn families(tier: Tier) -> Vec<Family> {
    let ab: &[&'static str] = &["a", "b"];
    let main_targets: Vec<usize> = (0..8).chain([10usize, 11]).collect();
    let quick = tier == Tier::Quick;
    let mut v = Vec::new();
    // F1: every form of ≤ 2 parts over the full part alphabet
    // (quick: two of the three media types; every abort-predicted case costs a process, see `abort_predicted`)
    v.push(Family { id: "full<=2", kinds: kinds(ab, TEXTS, FILENAMES, if quick { &TYPES[..2] } else { TYPES }, CONTENTS), max_parts: 2, boundaries: BOUNDARIES.to_vec(),
        opts: if quick { opts_quick()[..2].to_vec() } else { EncOpts::all() }, targets: main_targets.clone(), wire: false, selfcheck_len: 2 });
    // F2: three parts, non-empty filenames (the empty-file convention has its own family)
    if quick {
        v.push(Family { id: "three-parts(reduced)", kinds: kinds(ab, &["a", "a\r\nb"], &["f.txt"], &[Some("text/csv; charset=ISO-8859-1; header=present"), None],
                &[Content::Lit(b"x"), Content::Lit(b""), Content::Lit(b"a\r\n"), Content::Lit(b"\r"), Content::Lit(b"--"), Content::Lit(b"\r\n")]),
            max_parts: 3, boundaries: vec!["B", "----WebKitFormBoundaryX"], opts: opts_quick()[..6].to_vec(), targets: main_targets.clone(), wire: false, selfcheck_len: 0 });
    } else {
        v.push(Family { id: "three-parts", kinds: kinds(ab, TEXTS, &["f.txt", "é.png"], TYPES, CONTENTS), max_parts: 3, boundaries: BOUNDARIES.to_vec(),
            opts: opts_quick(), targets: main_targets.clone(), wire: false, selfcheck_len: 0 });
    }
    // F3: the empty-file convention (filename "" × content "") next to real files and texts, ≤ 3 parts
    v.push(Family { id: "empty-file-input", kinds: kinds(ab, &["a", ""], &["f.txt", ""], if quick { &TYPES[1..2] } else { &TYPES[..2] }, &[Content::Lit(b"x"), Content::Lit(b"")]),
        max_parts: 3, boundaries: if quick { vec!["B"] } else { BOUNDARIES.to_vec() }, opts: if quick { opts_quick()[..1].to_vec() } else { opts_quick() },
        targets: main_targets.clone(), wire: false, selfcheck_len: 3 });
    // F4: names that are not identifiers
    v.push(Family { id: "names", kinds: kinds(&["é n", "a[]"], &["a"], &["f.txt"], &[Some("text/plain")], &[Content::Lit(b"x"), Content::Lit(b"a\r\n")]),
        max_parts: 3, boundaries: BOUNDARIES.to_vec(), opts: if quick { opts_quick()[..3].to_vec() } else { EncOpts::all() }, targets: vec![8, 9], wire: false, selfcheck_len: 3 });
    // F5: through a real handler taking `Multipart<T6>` (read → router → FromBody → send)
    v.push(Family { id: "wire", kinds: kinds(ab, &["a", ""], &["f.txt", ""], &[Some("image/png"), None],
            &[Content::Lit(b"x"), Content::Lit(b""), Content::Lit(b"a\r\n"), Content::Lit(b"\0\xff"), Content::XDashBoundary]),
        max_parts: if quick { 2 } else { 3 }, boundaries: vec!["B"], opts: opts_quick()[..2].to_vec(), targets: vec![WIRE_TARGET], wire: true, selfcheck_len: 0 });
    v
}

/* =============================== process isolation =============================== */

pub enum ForkResult { Done(Vec<u8>), Signaled(i32), Exited(i32), Failed(String) }

pub fn signal_name(sig: i32) -> String {
    match sig { libc::SIGABRT => "SIGABRT".into(), libc::SIGSEGV => "SIGSEGV".into(), libc::SIGBUS => "SIGBUS".into(), libc::SIGILL => "SIGILL".into(),
        libc::SIGFPE => "SIGFPE".into(), libc::SIGALRM => "SIGALRM".into(), libc::SIGKILL => "SIGKILL".into(), n => format!("signal{n}") }
}

/// Run `f` in a forked child and return the bytes it produced, or how the child died.  The worker is single-threaded
/// (no runtime is started for this property), so `fork` without `exec` is sound.
pub fn fork_run(alarm_s: u32, f: impl FnOnce() -> Vec<u8>) -> ForkResult {
    unsafe {
        let mut fds = [0i32; 2];
        if libc::pipe(fds.as_mut_ptr()) != 0 { return ForkResult::Failed("pipe".into()) }
        let pid = libc::fork();
        if pid < 0 { libc::close(fds[0]); libc::close(fds[1]); return ForkResult::Failed("fork".into()) }
        if pid == 0 {
            libc::close(fds[0]);
            if alarm_s > 0 { libc::alarm(alarm_s); }
            let out = f();
            let mut off = 0;
            while off < out.len() {
                let n = libc::write(fds[1], out[off..].as_ptr() as *const libc::c_void, out.len() - off);
                if n <= 0 { libc::_exit(101) }
                off += n as usize;
            }
            libc::_exit(0)
        }
        libc::close(fds[1]);
        let mut out = Vec::new();
        let mut buf = [0u8; 65536];
        loop {
            let n = libc::read(fds[0], buf.as_mut_ptr() as *mut libc::c_void, buf.len());
            if n > 0 { out.extend_from_slice(&buf[..n as usize]) } else if n == 0 { break }
            else if *libc::__errno_location() != libc::EINTR { break }
        }
        libc::close(fds[0]);
        let mut st = 0;
        while libc::waitpid(pid, &mut st, 0) < 0 { if *libc::__errno_location() != libc::EINTR { return ForkResult::Failed("waitpid".into()) } }
        if libc::WIFSIGNALED(st) { ForkResult::Signaled(libc::WTERMSIG(st)) }
        else if libc::WIFEXITED(st) && libc::WEXITSTATUS(st) == 0 { ForkResult::Done(out) }
        else { ForkResult::Exited(libc::WEXITSTATUS(st)) }
    }
}

/// One u64 in memory shared with forked children: the sequence number of the case being executed.
pub struct Progress(*mut u64);
impl Progress {
    pub fn new() -> Self {
        let p = unsafe { libc::mmap(std::ptr::null_mut(), 4096, libc::PROT_READ | libc::PROT_WRITE, libc::MAP_SHARED | libc::MAP_ANONYMOUS, -1, 0) };
        assert!(p != libc::MAP_FAILED, "mmap");
        Progress(p as *mut u64)
    }
    #[inline] pub fn set(&self, v: u64) { unsafe { std::ptr::write_volatile(self.0, v) } }
    #[inline] pub fn get(&self) -> u64 { unsafe { std::ptr::read_volatile(self.0) } }
}

/// Merge the JSON report of a child context into the worker's context (all fields involved are public).
pub fn merge_report(ctx: &mut Ctx, r: &Value) {
    let n = |k: &str| r[k].as_u64().unwrap_or(0);
    ctx.evaluations += n("evaluations"); ctx.nontrivial += n("nontrivial"); ctx.collisions += n("collisions");
    ctx.ambiguous += n("ambiguous"); ctx.skipped += n("skipped"); ctx.states += n("states"); ctx.transitions += n("transitions");
    ctx.traces_validated += n("traces_validated");
    if r["capped"].as_bool().unwrap_or(false) { ctx.capped = true }
    if let Some(o) = r["outcomes"].as_object() { for (k, v) in o { *ctx.outcomes.entry(k.clone()).or_insert(0) += v.as_u64().unwrap_or(0) } }
    if let Some(vs) = r["violations"].as_object() {
        for (cls, v) in vs {
            let st: &mut ClassStat = ctx.violations.entry(cls.clone()).or_default();
            st.count += v["count"].as_u64().unwrap_or(0);
            for w in v["witnesses"].as_array().cloned().unwrap_or_default() { st.witnesses.push(w) }
            st.witnesses.sort_by_key(|w| w.to_string().len());
            st.witnesses.truncate(MAX_WITNESSES_PER_CLASS);
        }
    }
    for s in r["samples"].as_array().cloned().unwrap_or_default() { if ctx.samples.len() < MAX_SAMPLES && !ctx.samples.contains(&s) { ctx.samples.push(s) } }
    if let Some(e) = r["extra"].as_object() {
        for (k, v) in e {
            if k.starts_with("sum_") { let cur = ctx.extra.get(k).and_then(Value::as_u64).unwrap_or(0); ctx.extra.insert(k.clone(), json!(cur + v.as_u64().unwrap_or(0))); }
            else if !ctx.extra.contains_key(k) { ctx.extra.insert(k.clone(), v.clone()); }
        }
    }
    for m in r["machinery_errors"].as_array().cloned().unwrap_or_default() { ctx.machinery_error(m.as_str().unwrap_or("?").to_string()) }
}

/* =============================== executing one case =============================== */

/// An abort is predicted (from reading `DeserializeFilesOrField::deserialize_map`) when an empty file input reaches
/// a required `File` field or a field the target does not declare: such cases get their own process.
fn abort_predicted(parts: &[&Part], t: &TargetDesc) -> bool {
    parts.iter().any(|p| p.is_empty_file_input() && match t.fields.iter().find(|(n, _)| p.name == *n) { None => true, Some((_, k)) => *k == Kind::F })
}

fn decode_guarded(t: &TargetDesc, body: &[u8]) -> Observed {
    match guarded(|| (t.decode)(body)) { Ok(Ok(v)) => Observed::Val(v), Ok(Err(e)) => Observed::Err(e), Err(p) => Observed::Panic(p) }
}

thread_local! { static FORK_STATS: std::cell::Cell<(u64, u64)> = const { std::cell::Cell::new((0, 0)) }; }

fn decode_isolated(t: &TargetDesc, body: &[u8]) -> Result<Observed, String> {
    let t0 = std::time::Instant::now();
    let r = decode_isolated_inner(t, body);
    FORK_STATS.with(|s| { let (n, us) = s.get(); s.set((n + 1, us + t0.elapsed().as_micros() as u64)) });
    r
}

fn decode_isolated_inner(t: &TargetDesc, body: &[u8]) -> Result<Observed, String> {
    match fork_run(20, || serde_json::to_vec(&decode_guarded(t, body)).unwrap()) {
        ForkResult::Done(bytes) => serde_json::from_slice(&bytes).map_err(|e| format!("child result unreadable: {e}")),
        ForkResult::Signaled(s) => Ok(Observed::Abort(signal_name(s))),
        ForkResult::Exited(c) => Err(format!("isolated decode exited with code {c}")),
        ForkResult::Failed(w) => Err(format!("isolated decode: {w} failed")),
    }
}

fn part_json(p: &Part) -> Value {
    match &p.body {
        PartBody::Text { value } => json!({"name": p.name, "text": value}),
        PartBody::File { filename, ctype, content } => json!({"name": p.name, "filename": filename, "type": ctype, "content": esc(content)}),
    }
}

fn witness(parts: &[&Part], boundary: &str, o: EncOpts, t: &TargetDesc, wire: bool, exp: &Expect, obs: &Observed, body: &[u8]) -> Value {
    json!({"parts": parts.iter().map(|p| part_json(p)).collect::<Vec<_>>(), "boundary": boundary, "opts": o.tag(), "target": t.id, "wire": wire,
           "body": esc(body), "expected": show_expect(exp), "observed": obs.brief()})
}

impl ohkami::openapi::Schema for T6<'_> { fn schema() -> impl Into<ohkami::openapi::schema::SchemaRef> { ohkami::openapi::string() } }

/// (status, body) of a response written by the subject: status line, header lines, empty line, exactly
/// Content-Length body bytes.  Minimal on purpose (C03 owns response well-formedness).
fn split_response(raw: &[u8]) -> Option<(u16, &[u8])> {
    let head_end = raw.windows(4).position(|w| w == b"\r\n\r\n")?;
    let head = std::str::from_utf8(&raw[..head_end]).ok()?;
    let mut lines = head.split("\r\n");
    let status: u16 = lines.next()?.strip_prefix("HTTP/1.1 ")?.get(..3)?.parse().ok()?;
    let cl: usize = lines.find_map(|l| l.split_once(": ").filter(|(k, _)| k.eq_ignore_ascii_case("content-length")).map(|(_, v)| v))?.parse().ok()?;
    let body = &raw[head_end + 4..];
    (body.len() == cl).then_some((status, body))
}

struct Wire { router: ohkami::__verif__::VerifRouter }
impl Wire {
    fn new() -> Self {
        use ohkami::{Ohkami, Route};
        use ohkami::format::Multipart;
        async fn up(Multipart(t): Multipart<T6<'_>>) -> String { serde_json::to_string(&obs_t6(&t)).unwrap() }
        crate::app::pin_clock();
        Wire { router: ohkami::__verif__::VerifRouter::from(Ohkami::new(("/up".POST(up),))) }
    }
    fn decode(&self, boundary: &str, body: &[u8]) -> Observed {
        let ct = format!("multipart/form-data; boundary={boundary}");
        let raw = crate::app::request("POST", "/up", &[("Host", "h"), ("Content-Type", &ct)], body);
        match crate::app::oneshot(&self.router, &raw) {
            crate::app::Outcome::Panic(stage, p) => Observed::Panic(format!("[{stage}] {p}")),
            crate::app::Outcome::Response { raw, .. } => match split_response(&raw) {
                Some((200, b)) => match serde_json::from_slice::<Obs>(b) { Ok(v) => Observed::Val(v), Err(e) => Observed::Panic(format!("handler output unreadable: {e}")) },
                Some((400, b)) => Observed::Err(String::from_utf8_lossy(b).into_owned()),
                Some((st, _)) => Observed::Panic(format!("unexpected status {st}")),
                None => Observed::Panic("response is not an HTTP/1.1 message with a Content-Length body".into()),
            },
            other => Observed::Panic(format!("unexpected outcome {}", other.kind())),
        }
    }
}

struct CaseEnv<'a> { parts: &'a [&'a Part], boundary: &'a str, opts: EncOpts, target: &'a TargetDesc, wire: Option<&'a Wire>, body: &'a [u8], exp: &'a Expect, touches_delimiter: bool }

fn run_case(ctx: &mut Ctx, c: &CaseEnv<'_>, force_isolation: bool) {
    let obs = if let Some(w) = c.wire { w.decode(c.boundary, c.body) }
        else if force_isolation || abort_predicted(c.parts, c.target) {
            match decode_isolated(c.target, c.body) { Ok(o) => o, Err(m) => { ctx.machinery_error(m); return } }
        } else { decode_guarded(c.target, c.body) };
    let declared = c.parts.iter().any(|p| c.target.fields.iter().any(|(n, _)| p.name == *n));
    let nontrivial = declared;
    match judge(c.exp, &obs, c.target) {
        Verdict::Pass { ambiguous: false, key } => ctx.pass(&key, nontrivial, nontrivial && c.touches_delimiter),
        Verdict::Pass { ambiguous: true, key } => ctx.ambiguous(&key),
        Verdict::Violation { field, symptom } => {
            let (kind, feature) = blame(c.parts, c.target, field, c.boundary);
            let class = format!("C10/{kind}{}/{feature}/{symptom}", if c.wire.is_some() { "@wire" } else { "" });
            record_violation(ctx, &class, nontrivial, || witness(c.parts, c.boundary, c.opts, c.target, c.wire.is_some(), c.exp, &obs, c.body));
        }
    }
}

/// `ctx.violation`, except that once a class holds its full set of witnesses no further witness is built (the
/// enumeration is simplest-first, later witnesses are never smaller in any interesting way).
pub fn record_violation(ctx: &mut Ctx, class: &str, nontrivial: bool, w: impl FnOnce() -> Value) {
    if ctx.violations.get(class).map_or(false, |s| s.witnesses.len() >= MAX_WITNESSES_PER_CLASS) {
        ctx.evaluations += 1;
        if nontrivial { ctx.nontrivial += 1 }
        *ctx.outcomes.entry(format!("violation:{class}")).or_insert(0) += 1;
        ctx.violations.get_mut(class).unwrap().count += 1;
    } else { ctx.violation(class, nontrivial, w) }
}

/// the case exercises what the alphabet was designed for: bytes next to the delimiter that look like it, or
/// same-name files (grouping and re-reversal), or the empty-file convention
fn touches_delimiter(parts: &[&Part]) -> bool {
    parts.iter().any(|p| { let c = p.content(); c.ends_with(b"\r") || c.ends_with(b"\n") || contains(c, b"--") || p.is_empty_file_input() })
        || (0..parts.len()).any(|i| (i + 1..parts.len()).any(|j| parts[i].name == parts[j].name && parts[i].is_file() && parts[j].is_file()))
}

/* =============================== enumeration =============================== */

struct Prepared { fam: Family, mat: Vec<Vec<Part>>, safe: Vec<Vec<bool>>, enc: Vec<Vec<Vec<Vec<u8>>>> }

fn prepare(fam: Family) -> Prepared {
    let mat: Vec<Vec<Part>> = fam.boundaries.iter().map(|b| fam.kinds.iter().map(|k| k.materialize(b)).collect()).collect();
    let safe = mat.iter().zip(&fam.boundaries).map(|(ps, b)| ps.iter().map(|p| mp::content_safe(p.content(), b)).collect()).collect();
    let enc = mat.iter().map(|ps| fam.opts.iter().map(|o| ps.iter().map(|p| mp::encode_part(p, *o)).collect()).collect()).collect();
    Prepared { fam, mat, safe, enc }
}

#[derive(Clone, Copy)]
#[allow(dead_code)]
struct Unit { fam: usize, len: usize, first: usize }

enum Mode<'a> { Run { skip: &'a BTreeSet<u64>, progress: &'a Progress }, Describe(u64) }

/// Enumerate the cases of one unit in a fixed order.  `Run`: execute them (except those in `skip`).  `Describe(n)`:
/// return the witness-shaped description of case number n without executing anything.
fn walk_unit(ctx: &mut Ctx, p: &Prepared, u: Unit, wire: Option<&Wire>, mode: Mode<'_>) -> Option<Value> {
    let nk = p.fam.kinds.len();
    let rest = u.len.saturating_sub(1);
    let total = nk.pow(rest as u32);
    let mut seq: u64 = 0;
    let mut body = Vec::with_capacity(1024);
    for r in 0..total {
        if r & 0xff == 0 && ctx.started.elapsed().as_secs_f64() > ctx.wall_cap_s { ctx.capped = true }
        if ctx.capped { return None }
        let mut form: Vec<usize> = Vec::with_capacity(u.len);
        if u.len > 0 { form.push(u.first) }
        let mut x = r; let mut digits = vec![0usize; rest];
        for d in (0..rest).rev() { digits[d] = x % nk; x /= nk; }
        form.extend(digits);
        for (bi, boundary) in p.fam.boundaries.iter().enumerate() {
            let parts: Vec<&Part> = form.iter().map(|&k| &p.mat[bi][k]).collect();
            let ncases = (p.fam.opts.len() * p.fam.targets.len()) as u64;
            if !form.iter().all(|&k| p.safe[bi][k]) {
                // outside the domain of the property: a content together with its neighbourhood forms a delimiter
                if matches!(mode, Mode::Run { .. }) { ctx.skipped += ncases; }
                continue
            }
            let exps: Vec<Expect> = p.fam.targets.iter().map(|&t| fit(&parts, &TARGETS[t])).collect();
            let touches = touches_delimiter(&parts);
            for (oi, o) in p.fam.opts.iter().enumerate() {
                let encs: Vec<&[u8]> = form.iter().map(|&k| p.enc[bi][oi][k].as_slice()).collect();
                mp::assemble(&encs, boundary, o.final_crlf, &mut body);
                if matches!(mode, Mode::Run { .. }) && u.len <= p.fam.selfcheck_len { selfcheck(ctx, &parts, boundary, &body); }
                for (ti, &t) in p.fam.targets.iter().enumerate() {
                    seq += 1;
                    let env = CaseEnv { parts: &parts, boundary, opts: *o, target: &TARGETS[t], wire, body: &body, exp: &exps[ti], touches_delimiter: touches };
                    match &mode {
                        Mode::Describe(n) => if seq == *n {
                            return Some(witness(&parts, boundary, *o, &TARGETS[t], wire.is_some(), &exps[ti], &Observed::Abort("?".into()), &body))
                        },
                        Mode::Run { skip, progress } => {
                            if skip.contains(&seq) { continue }
                            progress.set(seq);
                            run_case(ctx, &env, false);
                        }
                    }
                }
            }
        }
    }
    None
}

/// Reference-side conformance: the strict decoder reads back exactly the form, and the delimiter occurs exactly
/// where the encoder put it.  A failure here is a defect of the harness (exit 2), never a verdict.
fn selfcheck(ctx: &mut Ctx, parts: &[&Part], boundary: &str, body: &[u8]) {
    ctx.traces_validated += 1;
    if !mp::in_domain(body, boundary, parts.len()) { ctx.machinery_error(format!("reference: delimiter count wrong for {}", esc(body))); return }
    match mp::decode_strict(body, boundary) {
        Ok(got) => {
            let same = got.len() == parts.len() && got.iter().zip(parts).all(|(g, p)| g.name == p.name && g.is_file() == p.is_file() && g.content() == p.content()
                && match (&g.body, &p.body) { (PartBody::File { filename: a, ctype: x, .. }, PartBody::File { filename: b, ctype: y, .. }) => a == b && x == y, _ => true });
            if !same { ctx.machinery_error(format!("reference: strict decoder disagrees with the encoder on {}", esc(body))) }
        }
        Err(e) => ctx.machinery_error(format!("reference: strict decoder rejects the encoder's output ({e}): {}", esc(body))),
    }
}

const MAX_ABORTS_PER_UNIT: usize = 6;

/// Run one unit of an enumeration in a forked child with its own `Ctx` and merge the child's report.  `body(ctx, skip)`
/// must enumerate the unit's cases in a fixed order, number them 1, 2, … , call `progress.set(n)` before executing
/// case n and leave out the cases whose number is in `skip`.  If the child is killed by a signal, the case it was
/// executing is put into `skip` and the unit is run again; after more than `max_deaths` deaths the unit is given up
/// (first component false: nothing of it is counted; the caller reports the run as capped and goes on).
/// Returns the (case number, signal) pairs of the cases that killed a child; the caller turns them into violations.
pub fn isolate_unit(ctx: &mut Ctx, progress: &Progress, max_deaths: usize, body: &dyn Fn(&mut Ctx, &BTreeSet<u64>)) -> (bool, Vec<(u64, String)>) {
    let mut completed = true;
    let mut skip: BTreeSet<u64> = BTreeSet::new();
    let mut died: Vec<(u64, String)> = Vec::new();
    loop {
        let remaining = (ctx.wall_cap_s - ctx.started.elapsed().as_secs_f64()).max(1.0);
        progress.set(0);
        let (property, tier) = (ctx.property, ctx.tier);
        let res = fork_run(remaining as u32 + 30, || {
            let mut c = Ctx::new(property, tier, 0, 1);
            c.wall_cap_s = remaining;
            body(&mut c, &skip);
            c.report().to_string().into_bytes()
        });
        match res {
            ForkResult::Done(bytes) => {
                match serde_json::from_slice::<Value>(&bytes) { Ok(r) => merge_report(ctx, &r), Err(e) => ctx.machinery_error(format!("unit report unreadable: {e}")) }
                break
            }
            ForkResult::Signaled(sig) if sig == libc::SIGALRM => { ctx.capped = true; break }
            ForkResult::Signaled(sig) => {
                let at = progress.get();
                if at == 0 || skip.contains(&at) { ctx.machinery_error(format!("unit child died with {} outside any case", signal_name(sig))); break }
                skip.insert(at);
                died.push((at, signal_name(sig)));
                if died.len() > max_deaths { completed = false; break }
            }
            ForkResult::Exited(c) => { ctx.machinery_error(format!("unit child exited with code {c}")); break }
            ForkResult::Failed(w) => { ctx.machinery_error(format!("unit isolation: {w} failed")); break }
        }
    }
    (completed, died)
}

/// returns false if the unit had to be given up (see `isolate_unit`)
fn run_unit_isolated(ctx: &mut Ctx, p: &Prepared, u: Unit, wire: Option<&Wire>, progress: &Progress) -> bool {
    let (completed, died) = isolate_unit(ctx, progress, MAX_ABORTS_PER_UNIT, &|c, skip| {
        FORK_STATS.with(|s| s.set((0, 0)));
        walk_unit(c, p, u, wire, Mode::Run { skip, progress });
        let (n, us) = FORK_STATS.with(|s| s.get());
        c.extra.insert(format!("sum_isolated_cases[{}]", p.fam.id), json!(n));
        c.extra.insert(format!("sum_isolated_ms[{}]", p.fam.id), json!(us / 1000));
    });
    // the cases that killed a child: classify them as in `run_case` (replay re-executes them in their own process)
    for (at, sig) in died {
        let mut scratch = Ctx::new(ctx.property, ctx.tier, 0, 1);
        if let Some(mut w) = walk_unit(&mut scratch, p, u, wire, Mode::Describe(at)) {
            let parts_owned = parts_from_json(&w["parts"]).unwrap_or_default();
            let parts: Vec<&Part> = parts_owned.iter().collect();
            let t = &TARGETS[target_by_id(w["target"].as_str().unwrap_or("")).unwrap_or(0)];
            let (kind, feature) = blame(&parts, t, None, w["boundary"].as_str().unwrap_or(""));
            w["observed"] = json!(Observed::Abort(sig.clone()).brief());
            let class = format!("C10/{kind}{}/{feature}/abort:{sig}", if wire.is_some() { "@wire" } else { "" });
            ctx.violation(&class, true, || w);
        } else { ctx.machinery_error(format!("could not re-derive case {at} of a unit that died")) }
    }
    completed
}

pub fn run(ctx: &mut Ctx) {
    let fams: Vec<Prepared> = families(ctx.tier).into_iter().map(prepare).collect();
    let progress = Progress::new();
    let mut wire: Option<Wire> = None;
    let mut bounds = Vec::new();
    let mut abandoned = 0u64;
    for (fi, p) in fams.iter().enumerate() {
        bounds.push(json!({"family": p.fam.id, "part_kinds": p.fam.kinds.len(), "max_parts": p.fam.max_parts, "boundaries": p.fam.boundaries,
            "encoder_option_sets": p.fam.opts.iter().map(|o| o.tag()).collect::<Vec<_>>(), "targets": p.fam.targets.iter().map(|&t| TARGETS[t].id).collect::<Vec<_>>(),
            "via": if p.fam.wire { "POST through read → router → Multipart<T> handler → send" } else { "serde_multipart::from_bytes" }}));
        let t_family = std::time::Instant::now();
        let before = ctx.evaluations;
        for len in 0..=p.fam.max_parts {
            let firsts = if len == 0 { 1 } else { p.fam.kinds.len() };
            for first in 0..firsts {
                if !ctx.mine() { continue }
                if ctx.out_of_time() { break }
                if p.fam.wire && wire.is_none() { wire = Some(Wire::new()) }
                if !run_unit_isolated(ctx, p, Unit { fam: fi, len, first }, if p.fam.wire { wire.as_ref() } else { None }, &progress) { abandoned += 1 }
            }
        }
        ctx.extra.insert(format!("sum_worker_ms[{}]", p.fam.id), json!(t_family.elapsed().as_millis() as u64));
        ctx.extra.insert(format!("sum_cases[{}]", p.fam.id), json!(ctx.evaluations - before));
    }
    if abandoned > 0 { ctx.capped = true; ctx.extra.insert("sum_units_given_up_after_repeated_process_deaths".into(), json!(abandoned)); }
    let p0 = &fams[0];
    ctx.sample(|| { let parts = [&p0.mat[0][0], &p0.mat[0][9]]; json!({"form": parts.iter().map(|p| part_json(p)).collect::<Vec<_>>(),
        "body": esc(&mp::encode(&[parts[0].clone(), parts[1].clone()], "B", EncOpts::DEFAULT))}) });
    ctx.sample(|| { let parts = [&p0.mat[0][10], &p0.mat[0][10], &p0.mat[0][1]]; let body = mp::encode(&parts.iter().map(|p| (*p).clone()).collect::<Vec<_>>(), "B", EncOpts::DEFAULT);
        json!({"form": parts.iter().map(|p| part_json(p)).collect::<Vec<_>>(), "target": TARGETS[6].id, "observed": decode_guarded(&TARGETS[6], &body).brief()}) });
    ctx.extra.insert("rule".into(), json!("case = (form of ≤3 parts, boundary, encoder options, target type); every case is distinct by construction (families are \
        enumerated as full products). non-trivial = at least one submitted part is declared by the target; collision = non-trivial and the form touches the delimiter \
        logic (a content ending in CR or LF, containing `--` or the dash-boundary, an empty file input, or two files under one name)"));
    ctx.extra.insert("distinct_by_construction".into(), json!(true));
    ctx.extra.insert("bounds".into(), json!({"families": bounds}));
}

/* =============================== replay =============================== */

fn parts_from_json(v: &Value) -> Option<Vec<Part>> {
    v.as_array()?.iter().map(|p| {
        let name = p["name"].as_str()?;
        Some(match p.get("text").and_then(Value::as_str) {
            Some(t) => Part::text(name, t),
            None => Part::file(name, p["filename"].as_str()?, p["type"].as_str(), &unesc(p["content"].as_str()?)),
        })
    }).collect()
}

pub fn replay(ctx: &mut Ctx, case: &Value) {
    let (Some(parts_owned), Some(boundary), Some(o), Some(ti)) = (parts_from_json(&case["parts"]), case["boundary"].as_str(),
        case["opts"].as_str().and_then(EncOpts::from_tag), case["target"].as_str().and_then(target_by_id)) else {
        ctx.machinery_error("C10 replay: case needs parts, boundary, opts, target".into()); return
    };
    let parts: Vec<&Part> = parts_owned.iter().collect();
    let body = mp::encode(&parts_owned, boundary, o);
    if !mp::in_domain(&body, boundary, parts.len()) { ctx.skip(); return }
    let t = &TARGETS[ti];
    let exp = fit(&parts, t);
    let wire = case["wire"].as_bool().unwrap_or(false).then(Wire::new);
    let env = CaseEnv { parts: &parts, boundary, opts: o, target: t, wire: wire.as_ref(), body: &body, exp: &exp, touches_delimiter: touches_delimiter(&parts) };
    run_case(ctx, &env, true);
}
