//! C20 — date and number formatters are exact for every input (DESIGN §5 C20).
use crate::core::{guarded, panic_kind, Ctx};
use crate::refmodel::civil;
use serde_json::{json, Value};

const LAST_DAY: u64 = 2_932_896; // 9999-12-31

fn check_date(ctx: &mut Ctx, ts: u64, family: &'static str) { check_date_after(ctx, None, ts, family) }

/// `primer`: an instant rendered right before (history of two calls).  A formatter is a function of its argument: what it was
/// asked before - a later instant, as when a clock steps back or an older date is rendered after a newer one - must not matter.
fn check_date_after(ctx: &mut Ctx, primer: Option<u64>, ts: u64, family: &'static str) {
    if let Some(p) = primer { let _ = guarded(|| ohkami_lib::imf_fixdate(p)); }
    let expected = civil::imf_fixdate(ts);
    match guarded(|| ohkami_lib::imf_fixdate(ts)) {
        Ok(got) if got == expected => ctx.pass("date-ok", true, ts % 86_400 != 0 && ts >= 86_400),
        Ok(got) => {
            let feature = if got.get(..3) != expected.get(..3) { "weekday" }
                else if got.get(5..16) != expected.get(5..16) { "date" } else { "time" };
            ctx.violation(&format!("C20/imf_fixdate/{family}/wrong-{feature}"), true,
                || json!({"fn": "imf_fixdate", "input": ts, "rendered_before": primer, "expected": expected, "observed": got}))
        }
        Err(p) => ctx.violation(&format!("C20/imf_fixdate/{family}/panic:{}", panic_kind(&p)), true,
            || json!({"fn": "imf_fixdate", "input": ts, "rendered_before": primer, "expected": expected, "observed": format!("panic: {p}")})),
    }
}

fn check_itoa(ctx: &mut Ctx, n: usize, family: &'static str) {
    let expected = n.to_string();
    match guarded(|| ohkami_lib::num::itoa(n)) {
        Ok(got) if got == expected => ctx.pass("itoa-ok", n >= 10, n >= 10 && n % 10 == 0),
        Ok(got) => ctx.violation(&format!("C20/itoa/{family}/wrong-value"), true,
            || json!({"fn": "itoa", "input": n as u64, "expected": expected, "observed": got})),
        Err(p) => ctx.violation(&format!("C20/itoa/{family}/panic:{}", panic_kind(&p)), true,
            || json!({"fn": "itoa", "input": n as u64, "expected": expected, "observed": format!("panic: {p}")})),
    }
}

fn check_hex(ctx: &mut Ctx, n: usize, family: &'static str) {
    // The statement fixes the digits ("canonical lowercase hexadecimal"), not a width: `hexized` on the pinned tree pads with
    // zeros to 2*size_of::<usize>() digits and the chunk writer strips them; a tree that returns the minimal form is as exact.
    // Compared modulo leading zeros (at least one digit must remain, nothing but lowercase hex digits may occur).
    let expected = format!("{:x}", n);
    let canon = |s: &[u8]| -> Option<String> { if s.is_empty() || !s.iter().all(|b| matches!(b, b'0'..=b'9' | b'a'..=b'f')) { return None }
        let t = std::str::from_utf8(s).ok()?.trim_start_matches('0'); Some(if t.is_empty() { "0".to_string() } else { t.to_string() }) };
    match guarded(|| (ohkami_lib::num::hexized(n), ohkami_lib::num::hexized_bytes(n))) {
        Ok((got, bytes)) if canon(got.as_bytes()).as_deref() == Some(&expected) && canon(&bytes[..]).as_deref() == Some(&expected) => ctx.pass("hex-ok", n >= 10, n >= 10 && (n & 0xf) >= 10),
        Ok((got, bytes)) => ctx.violation(&format!("C20/hexized/{family}/wrong-value"), true,
            || json!({"fn": "hexized", "input": n as u64, "expected": expected, "observed": got, "observed_bytes": crate::core::esc(&bytes)})),
        Err(p) => ctx.violation(&format!("C20/hexized/{family}/panic:{}", panic_kind(&p)), true,
            || json!({"fn": "hexized", "input": n as u64, "expected": expected, "observed": format!("panic: {p}")})),
    }
}

/// all numbers with at most two non-zero digits in `base`, below usize::MAX
fn two_digit_family(base: u128, f: &mut dyn FnMut(usize)) {
    let max = usize::MAX as u128;
    let mut pows = vec![];
    let mut p = 1u128;
    while p <= max { pows.push(p); p *= base; }
    for (i, &pi) in pows.iter().enumerate() {
        for a in 1..base {
            let x = a * pi;
            if x <= max { f(x as usize) }
            for &pj in &pows[..i] {
                for b in 1..base {
                    let y = x + b * pj;
                    if y <= max { f(y as usize) }
                }
            }
        }
    }
}

pub fn run(ctx: &mut Ctx) {
    let quick = ctx.quick();

    /* ---- imf_fixdate ---- */
    // (1) every day number at second 0 and second 86 399
    let day_chunk = 4096u64;
    let mut d0 = 0;
    while d0 <= LAST_DAY {
        if ctx.mine() {
            for d in d0..(d0 + day_chunk).min(LAST_DAY + 1) {
                check_date(ctx, d * 86_400, "every-day@0");
                check_date(ctx, d * 86_400 + 86_399, "every-day@86399");
                if !quick {
                    check_date(ctx, d * 86_400 + 43_200 + (d % 3600), "every-day@mid");
                    // one more instant per hour of the day, the minute and second rotating with the day number
                    for h in 0..24u64 { check_date(ctx, d * 86_400 + h * 3_600 + (d * 61 + h * 7) % 3_600, "every-day@every-hour"); }
                }
            }
        }
        d0 += day_chunk;
    }
    // (2) every second of selected days: first, last, leap day, around century / 400-year boundaries, one per weekday
    let special_days: Vec<u64> = {
        let mut v = vec![0, LAST_DAY, 11_016 /*2000-02-29*/, 11_015, 11_017, 47_540 /*2100-02-28*/, 47_541 /*2100-03-01*/,
                         157_112 /*2400-02-29*/, 10_956 /*1999-12-31*/, 10_957 /*2000-01-01*/];
        for w in 0..7 { v.push(19_000 + w); }
        v.sort(); v.dedup();
        if quick { v.truncate(12) }
        v
    };
    for &d in &special_days {
        for half in 0..2u64 {
            if ctx.mine() {
                for s in (half * 43_200)..((half + 1) * 43_200) { check_date(ctx, d * 86_400 + s, "every-second"); }
            }
        }
    }
    // (3) histories of two calls: every day at a second of the day, right after a *later* instant was rendered (1 s .. 1 year later,
    //     rotating), and every second of one day in descending order
    const LATER: [u64; 8] = [1, 59, 60, 61, 3_599, 3_600, 86_400, 31_536_000];
    let mut d0 = 0;
    while d0 <= LAST_DAY {
        if ctx.mine() {
            for d in d0..(d0 + day_chunk).min(LAST_DAY + 1) {
                let ts = d * 86_400 + (d * 7_919) % 86_400;
                let later = (ts + LATER[(d % 8) as usize]).min(LAST_DAY * 86_400 + 86_399);
                check_date_after(ctx, Some(later), ts, "after-later-instant");
            }
        }
        d0 += day_chunk;
    }
    for half in 0..2u64 {
        if ctx.mine() {
            let d = 19_003u64;
            for s in ((half * 43_200)..((half + 1) * 43_200)).rev() { check_date_after(ctx, Some(d * 86_400 + s + 1), d * 86_400 + s, "every-second-descending"); }
        }
    }
    ctx.sample(|| json!({"fn": "imf_fixdate", "input": 951_782_400u64, "observed": ohkami_lib::imf_fixdate(951_782_400)}));

    /* ---- itoa ---- */
    let lim: usize = if quick { 2_000_000 } else { 100_000_000 };
    let chunk = 100_000;
    let mut n0 = 0;
    while n0 < lim {
        if ctx.mine() { for n in n0..(n0 + chunk).min(lim) { check_itoa(ctx, n, "dense"); } }
        n0 += chunk;
    }
    if ctx.mine() {
        let mut p: u128 = 1;
        while p <= usize::MAX as u128 {
            for d in [-1i128] { // p and p+1 belong to the two-digit family below
                let v = p as i128 + d;
                if v >= (lim + 2) as i128 && (v as u128) < (usize::MAX / 10) as u128 { check_itoa(ctx, v as usize, "power-of-ten") }
            }
            p *= 10;
        }
        for n in [usize::MAX, usize::MAX - 1, usize::MAX / 2, usize::MAX / 10, usize::MAX / 10 + 1, usize::MAX / 3] { check_itoa(ctx, n, "extreme") }
        two_digit_family(10, &mut |n| if n >= lim + 2 { check_itoa(ctx, n, "two-digits") });
    }
    ctx.sample(|| json!({"fn": "itoa", "input": u64::MAX, "observed": ohkami_lib::num::itoa(usize::MAX)}));

    /* ---- hexized ---- */
    let lim: usize = if quick { 1 << 21 } else { 1 << 27 };
    let chunk = 1 << 17;
    let mut n0 = 0;
    while n0 < lim {
        if ctx.mine() { for n in n0..(n0 + chunk).min(lim) { check_hex(ctx, n, "dense"); } }
        n0 += chunk;
    }
    if ctx.mine() {
        let mut p: u128 = 1;
        while p <= usize::MAX as u128 {
            for d in [-1i128] { // p and p+1 belong to the two-digit family below
                let v = p as i128 + d;
                if v >= (lim + 2) as i128 && (v as u128) < (usize::MAX / 2) as u128 { check_hex(ctx, v as usize, "power-of-sixteen") }
            }
            p *= 16;
        }
        for n in [usize::MAX, usize::MAX - 1, usize::MAX / 2] { check_hex(ctx, n, "extreme") }
        two_digit_family(16, &mut |n| if n >= lim + 2 { check_hex(ctx, n, "two-nibbles") });
    }
    ctx.sample(|| json!({"fn": "hexized", "input": 314, "observed": ohkami_lib::num::hexized(314)}));
    ctx.extra.insert("rule".into(), json!("case = (function, input); non-trivial = input with more than one digit / not at midnight; every input is distinct by construction of the ranges (dense ranges, then structured families)"));
    ctx.extra.insert("distinct_by_construction".into(), json!(true));
}

pub fn replay(ctx: &mut Ctx, case: &Value) {
    let n = case["input"].as_u64().expect("input");
    match case["fn"].as_str().unwrap_or("") {
        "imf_fixdate" => check_date_after(ctx, case["rendered_before"].as_u64(), n, "replay"),
        "itoa" => check_itoa(ctx, n as usize, "replay"),
        "hexized" => check_hex(ctx, n as usize, "replay"),
        other => ctx.machinery_error(format!("unknown fn {other}")),
    }
}
