//! C17 — server-sent event streams deliver every message intact and end properly (DESIGN §5 C17, shape I).
//!
//! One case = (stream constructor, message sequence, producer schedule, writer behaviour).
//! A one-route application whose handler returns `ohkami::sse::DataStream` is finalized once per
//! worker; per case a `GET /` is read by the real `Request::read`, dispatched by the real router, and
//! the resulting stream response is written by the real `Response::send` into a scripted writer.  The
//! `send` future is polled by the harness executor: every poll is counted, "Pending without any wake
//! requested" is a decided state.  A scripted producer that performed a *yield woken later by the
//! harness* has left its waker in a shared slot; on a stall the harness (the environment) wakes it —
//! after noting how many messages had been pushed and how many bytes had been written.  A stall with
//! an empty slot is a real stall.
//!
//! Oracle: independent response parser + chunked reader (`refmodel::http`), independent WHATWG
//! event-stream parser (`refmodel::sse`); the dispatched events must equal the messages after
//! CR/CRLF→LF normalisation (count, order, text), carry no `event`/`id`/`retry`, the stream must be
//! grammatical (every event closed) and nothing may follow the terminating chunk.  In addition, at
//! every environment move (the producer waits for an outside event that may never come) every message
//! pushed so far must already be decodable from the bytes written so far — otherwise "at any pace"
//! would be empty words: the message is lost for as long as the producer waits.
//!
//! Part B (one sharding unit): 90 small cases are additionally sent through the real `Session::manage`
//! over loopback TCP on a single-threaded tokio runtime; the socket bytes must equal the in-memory
//! bytes (binds the harness-driven read/handle/send sequence to the real session loop; a mismatch is a
//! machinery failure).  One more socket case lets the producer sleep longer than the session's
//! keep-alive limit (set to 1 s through OHKAMI_KEEPALIVE_TIMEOUT) and is judged by the same oracle.
//!
//! Class ids: `C17/<text feature>/<schedule feature>/<symptom>`; for symptoms tied to one message the
//! text feature is that of the first message that arrives wrong, otherwise the most demanding feature
//! in the sequence (lone-CR > CRLF > LF > field-lookalike > leading-space > empty > non-ascii > plain).

use crate::core::{guarded, panic_kind, Ctx};
use crate::exec::{Driver, RunResult};
use crate::refmodel::http::{parse_response, Framing};
use crate::refmodel::sse;
use crate::sio::{ScriptedReader, ScriptedWriter, WriterMode};
use ohkami::__verif__::{send, RawConn, VerifRouter};
use ohkami::sse::DataStream;
use ohkami::{Ohkami, Route};
use serde_json::{json, Value};
use std::cell::{Cell, RefCell};
use std::collections::VecDeque;
use std::future::Future;
use std::pin::Pin;
use std::rc::Rc;
use std::sync::{Arc, Mutex, MutexGuard};
use std::task::{Context, Poll, Waker};

/* ------------------------------------------------------------------------------------------------
   alphabets
------------------------------------------------------------------------------------------------ */

/// DESIGN §5 C17 alphabet, simplest first.
const MESSAGES: [&str; 11] = ["a", "", "a\nb", "a\rb", "a\r\nb", " a", "data: x", "a\revent: y", "\n", ":c", "é"];
/// thorough tier only: trailing line breaks (LF and lone CR) — an extension of the design's alphabet
const MESSAGES_EXTRA: [&str; 2] = ["a\n", "a\r"];

#[derive(Clone, Copy, PartialEq, Eq, Debug)]
enum Gap { None, SelfWake, Harness, Two,
    /// real `tokio::time::sleep` longer than the session's keep-alive limit (part B, over TCP only)
    Sleep }
const GAPS: [Gap; 4] = [Gap::None, Gap::SelfWake, Gap::Harness, Gap::Two];
impl Gap {
    fn letter(self) -> char { match self { Gap::None => 'N', Gap::SelfWake => 'S', Gap::Harness => 'H', Gap::Two => 'D', Gap::Sleep => 'Z' } }
    fn from_letter(c: char) -> Option<Gap> { Some(match c { 'N' => Gap::None, 'S' => Gap::SelfWake, 'H' => Gap::Harness, 'D' => Gap::Two, 'Z' => Gap::Sleep, _ => return None }) }
}

#[derive(Clone, Copy, PartialEq, Eq, Debug)]
enum Mode { New, From,
    /// `Response::with_stream` over a Stream of a *user type* implementing `sse::Data` (its `encode` returns the text as it is)
    UserData,
    /// `Response::set_stream_raw`: a boxed Stream of `String`, no `sse::Data` in between
    Raw,
    /// a response that already carries a stream (`with_stream` of a one-message stream) whose stream the handler then replaces
    /// (`set_stream`): only the messages of the second stream are owed, framed as any other stream
    Replaced }
impl Mode { fn name(self) -> &'static str { match self { Mode::New => "new", Mode::From => "from", Mode::UserData => "user-data", Mode::Raw => "raw", Mode::Replaced => "replaced" } } }

/// the stream that `Mode::Replaced` puts into the response first
struct OneMsg(Option<Msg>);
impl ohkami::util::Stream for OneMsg {
    type Item = Msg;
    fn poll_next(mut self: Pin<&mut Self>, _cx: &mut Context<'_>) -> Poll<Option<Msg>> { Poll::Ready(self.0.take()) }
}

/// a user's message type
struct Msg(String);
impl ohkami::sse::Data for Msg { fn encode(self) -> String { self.0 } }
impl ohkami::openapi::Schema for Msg { fn schema() -> impl Into<ohkami::openapi::schema::SchemaRef> { ohkami::openapi::string() } }
/// adapter: the scripted stream as a Stream of the user type
struct AsMsg(ScriptedStream);
impl ohkami::util::Stream for AsMsg {
    type Item = Msg;
    fn poll_next(mut self: Pin<&mut Self>, cx: &mut Context<'_>) -> Poll<Option<Msg>> { Pin::new(&mut self.0).poll_next(cx).map(|o| o.map(Msg)) }
}

const WRITERS: [(WriterMode, &str); 3] = [(WriterMode::All, "all"), (WriterMode::AtMost(7), "atmost7"), (WriterMode::PendingOnce, "pending-once")];

#[derive(Clone, Debug)]
struct Case { mode: Mode, messages: Vec<String>, gaps: Vec<Gap>, writer: usize,
    /// false: in memory under the harness executor;  true: real `Session::manage` over loopback TCP under tokio
    tcp: bool }

impl Case {
    fn gaps_string(&self) -> String { self.gaps.iter().map(|g| g.letter()).collect() }
    fn to_json(&self) -> Value {
        if self.tcp { json!({"transport": "tcp", "mode": self.mode.name(), "messages": self.messages, "gaps": self.gaps_string(),
                             "keepalive_timeout_s": KEEPALIVE_S, "sleep_ms_per_Z_gap": SLEEP_MS}) }
        else { json!({"mode": self.mode.name(), "messages": self.messages, "gaps": self.gaps_string(), "writer": WRITERS[self.writer].1}) }
    }
    fn from_json(v: &Value) -> Result<Case, String> {
        let mode = match v["mode"].as_str() { Some("new") => Mode::New, Some("from") => Mode::From, Some("user-data") => Mode::UserData, Some("raw") => Mode::Raw, Some("replaced") => Mode::Replaced, o => return Err(format!("mode {o:?}")) };
        let messages: Vec<String> = v["messages"].as_array().ok_or("messages")?.iter()
            .map(|m| m.as_str().map(str::to_string).ok_or("message is not a string")).collect::<Result<_, _>>()?;
        let gaps: Vec<Gap> = v["gaps"].as_str().ok_or("gaps")?.chars().map(|c| Gap::from_letter(c).ok_or("gap letter")).collect::<Result<_, _>>()?;
        if gaps.len() != messages.len() + 1 { return Err("gaps must have one entry more than messages".into()) }
        let tcp = v["transport"].as_str() == Some("tcp");
        let writer = if tcp { 0 } else {
            let w = v["writer"].as_str().ok_or("writer")?;
            WRITERS.iter().position(|(_, n)| *n == w).ok_or("writer name")?
        };
        if tcp && gaps.contains(&Gap::Harness) { return Err("H gaps cannot run over TCP".into()) }
        if tcp && mode != Mode::New && gaps.contains(&Gap::Sleep) { return Err("Z gaps are scripted for DataStream::new only".into()) }
        if !tcp && gaps.contains(&Gap::Sleep) { return Err("Z gaps need the TCP transport".into()) }
        Ok(Case { mode, messages, gaps, writer, tcp })
    }
}

/* ------------------------------------------------------------------------------------------------
   the scripted producer (environment of the stream)
------------------------------------------------------------------------------------------------ */

#[derive(Clone, Debug)]
enum Step { Item(String), YieldSelf, YieldHarness, Sleep }

#[derive(Default)]
struct Slot {
    /// waker left by a producer that waits for the harness
    waker: Option<Waker>,
    /// set by the harness when it wakes; consumed by the waiting yield
    released: bool,
    /// messages handed to the stream so far
    pushed: usize,
    finished: bool,
}
type SharedSlot = Arc<Mutex<Slot>>;
fn lock(s: &SharedSlot) -> MutexGuard<'_, Slot> { s.lock().unwrap_or_else(|e| e.into_inner()) }

struct Script { mode: Mode, steps: Vec<Step>, slot: SharedSlot }

thread_local! {
    static SCRIPT: RefCell<Option<Script>> = const { RefCell::new(None) };
}

fn steps_of(case: &Case) -> Vec<Step> {
    let mut steps = Vec::new();
    for (i, g) in case.gaps.iter().enumerate() {
        match g {
            Gap::None => {}
            Gap::SelfWake => steps.push(Step::YieldSelf),
            Gap::Harness => steps.push(Step::YieldHarness),
            Gap::Two => { steps.push(Step::YieldSelf); steps.push(Step::YieldSelf) }
            Gap::Sleep => steps.push(Step::Sleep),
        }
        if let Some(m) = case.messages.get(i) { steps.push(Step::Item(m.clone())) }
    }
    steps
}

/// like `tokio::task::yield_now`: asks to be polled again and returns Pending once
struct YieldSelf(bool);
impl Future for YieldSelf {
    type Output = ();
    fn poll(mut self: Pin<&mut Self>, cx: &mut Context<'_>) -> Poll<()> {
        if self.0 { return Poll::Ready(()) }
        self.0 = true;
        cx.waker().wake_by_ref();
        Poll::Pending
    }
}

/// like waiting for a timer / a channel: leaves the waker with the environment and stays Pending
/// (however often it is polled) until the environment has woken it
struct YieldHarness { slot: SharedSlot, registered: bool }
impl Future for YieldHarness {
    type Output = ();
    fn poll(mut self: Pin<&mut Self>, cx: &mut Context<'_>) -> Poll<()> {
        let slot = self.slot.clone();
        let mut s = lock(&slot);
        if self.registered && s.released { s.released = false; s.waker = None; return Poll::Ready(()) }
        self.registered = true;
        s.waker = Some(cx.waker().clone());
        Poll::Pending
    }
}

/// the `DataStream::from(stream)` path: a hand-written Stream answering from the same script
struct ScriptedStream { steps: VecDeque<Step>, slot: SharedSlot, self_yielded: bool, registered: bool }
impl ohkami_lib::Stream for ScriptedStream {
    type Item = String;
    fn poll_next(self: Pin<&mut Self>, cx: &mut Context<'_>) -> Poll<Option<String>> {
        let this = self.get_mut();
        loop {
            match this.steps.front() {
                None => { lock(&this.slot).finished = true; return Poll::Ready(None) }
                Some(Step::Item(_)) => {
                    let Some(Step::Item(m)) = this.steps.pop_front() else { unreachable!() };
                    lock(&this.slot).pushed += 1;
                    return Poll::Ready(Some(m))
                }
                Some(Step::YieldSelf) => {
                    if this.self_yielded { this.self_yielded = false; this.steps.pop_front(); continue }
                    this.self_yielded = true;
                    cx.waker().wake_by_ref();
                    return Poll::Pending
                }
                Some(Step::Sleep) => unreachable!("C17 harness: Z gaps are not scripted for DataStream::from"),
                Some(Step::YieldHarness) => {
                    let mut s = lock(&this.slot);
                    if this.registered && s.released {
                        s.released = false; s.waker = None; drop(s);
                        this.registered = false; this.steps.pop_front(); continue
                    }
                    this.registered = true;
                    s.waker = Some(cx.waker().clone());
                    return Poll::Pending
                }
            }
        }
    }
}

async fn handler() -> ohkami::Response {
    use ohkami::IntoResponse;
    let Script { mode, steps, slot } = SCRIPT.with(|s| s.borrow_mut().take()).expect("C17 harness: no script installed");
    match mode {
        Mode::UserData => return ohkami::Response::OK().with_stream(AsMsg(ScriptedStream { steps: steps.into(), slot, self_yielded: false, registered: false })),
        Mode::Raw => { let mut res = ohkami::Response::OK(); res.set_stream_raw(Box::pin(ScriptedStream { steps: steps.into(), slot, self_yielded: false, registered: false })); return res }
        Mode::Replaced => {
            let mut res = ohkami::Response::OK().with_stream(OneMsg(Some(Msg("message of the stream that was replaced".into()))));
            res.set_stream(AsMsg(ScriptedStream { steps: steps.into(), slot, self_yielded: false, registered: false }));
            return res
        }
        _ => {}
    }
    let stream: DataStream = match mode {
        Mode::New => DataStream::new(move |mut s| async move {
            for step in steps {
                match step {
                    Step::Item(m) => { s.send(m); lock(&slot).pushed += 1 }
                    Step::YieldSelf => YieldSelf(false).await,
                    Step::YieldHarness => YieldHarness { slot: slot.clone(), registered: false }.await,
                    Step::Sleep => tokio::time::sleep(std::time::Duration::from_millis(SLEEP_MS)).await,
                }
            }
            lock(&slot).finished = true;
        }),
        Mode::From => DataStream::from(ScriptedStream { steps: steps.into(), slot, self_yielded: false, registered: false }),
        Mode::UserData | Mode::Raw | Mode::Replaced => unreachable!(),
    };
    stream.into_response()
}

/* ------------------------------------------------------------------------------------------------
   running one case on the real code
------------------------------------------------------------------------------------------------ */

/// the scripted writer of `sio`, plus a running byte count the harness can read while `send` holds the writer
struct TapWriter { inner: ScriptedWriter, len: Rc<Cell<usize>> }
impl tokio::io::AsyncWrite for TapWriter {
    fn poll_write(mut self: Pin<&mut Self>, cx: &mut Context<'_>, buf: &[u8]) -> Poll<std::io::Result<usize>> {
        let r = Pin::new(&mut self.inner).poll_write(cx, buf);
        self.len.set(self.inner.written.len());
        r
    }
    fn poll_flush(mut self: Pin<&mut Self>, cx: &mut Context<'_>) -> Poll<std::io::Result<()>> { Pin::new(&mut self.inner).poll_flush(cx) }
    fn poll_shutdown(mut self: Pin<&mut Self>, cx: &mut Context<'_>) -> Poll<std::io::Result<()>> { Pin::new(&mut self.inner).poll_shutdown(cx) }
}

#[derive(Debug, Clone, PartialEq, Eq)]
enum End { Done { upgraded: bool }, Stall(&'static str), Livelock(&'static str), Panic(&'static str, String) }

struct Run {
    end: End,
    written: Vec<u8>,
    polls: u64,
    /// at every environment move: (bytes written so far, messages pushed so far)
    moves: Vec<(usize, usize)>,
    pushed: usize,
    producer_finished: bool,
}

const POLL_BUDGET: u64 = 20_000;
/// the one request of every case (`Connection: close` lets the real session of part B end after the response)
const REQUEST: &[u8] = b"GET / HTTP/1.1\r\nHost: h\r\nConnection: close\r\n\r\n";

fn execute(router: &VerifRouter, case: &Case) -> Run {
    let slot: SharedSlot = Arc::new(Mutex::new(Slot::default()));
    SCRIPT.with(|s| *s.borrow_mut() = Some(Script { mode: case.mode, steps: steps_of(case), slot: slot.clone() }));
    let mut d = Driver::new();
    let mut run = Run { end: End::Done { upgraded: false }, written: Vec::new(), polls: 0, moves: Vec::new(), pushed: 0, producer_finished: false };
    let finish = |mut run: Run, d: &Driver, end: End| { run.end = end; run.polls = d.polls; let s = lock(&slot); run.pushed = s.pushed; run.producer_finished = s.finished; run };

    let mut conn = RawConn::init();
    let mut reader = ScriptedReader::new(vec![REQUEST.to_vec()], false);
    reader.deliver_next();
    let read = guarded(|| {
        let fut = conn.read(&mut reader);
        let mut fut = std::pin::pin!(fut);
        match d.run(fut.as_mut(), 1000) { RunResult::Ready(r) => Ok(r), RunResult::Stalled => Err(End::Stall("read")), RunResult::Livelock => Err(End::Livelock("read")) }
    });
    match read {
        Err(p) => return finish(run, &d, End::Panic("read", p)),
        Ok(Err(e)) => return finish(run, &d, e),
        Ok(Ok(Ok(Some(())))) => {}
        Ok(Ok(_)) => return finish(run, &d, End::Panic("read", "harness: the fixed GET request was not accepted".into())),
    }
    let handled = guarded(|| {
        let fut = router.handle(conn.request_mut());
        let mut fut = std::pin::pin!(fut);
        match d.run(fut.as_mut(), 1000) { RunResult::Ready(r) => Ok(r), RunResult::Stalled => Err(End::Stall("handle")), RunResult::Livelock => Err(End::Livelock("handle")) }
    });
    let res = match handled {
        Err(p) => return finish(run, &d, End::Panic("handle", p)),
        Ok(Err(e)) => return finish(run, &d, e),
        Ok(Ok(res)) => res,
    };

    let len = Rc::new(Cell::new(0usize));
    let mut w = TapWriter { inner: ScriptedWriter::new(WRITERS[case.writer].0), len: len.clone() };
    let mut moves = Vec::new();
    let sent = guarded(|| {
        let fut = send(res, &mut w);
        let mut fut = std::pin::pin!(fut);
        loop {
            match d.run(fut.as_mut(), POLL_BUDGET) {
                RunResult::Ready(upgraded) => return End::Done { upgraded },
                RunResult::Livelock => return End::Livelock("send"),
                RunResult::Stalled => {
                    // the environment's move: wake a producer that waits for us, if there is one
                    let waker = { let mut s = lock(&slot); let wk = s.waker.take(); if wk.is_some() { s.released = true; moves.push((len.get(), s.pushed)); } wk };
                    match waker {
                        Some(wk) => {
                            // the waker the producer was handed must lead back to the task that runs `send`
                            let before = d.wakes();
                            wk.wake();
                            if d.wakes() == before { return End::Stall("send:producer-wake-not-propagated") }
                        }
                        None => return End::Stall("send"),
                    }
                    if moves.len() > 64 { return End::Livelock("send") }
                }
            }
        }
    });
    run.written = std::mem::take(&mut w.inner.written);
    run.moves = moves;
    match sent {
        Err(p) => finish(run, &d, End::Panic("send", p)),
        Ok(end) => finish(run, &d, end),
    }
}

/* ------------------------------------------------------------------------------------------------
   features (class ids are functions of these and of the symptom kind only)
------------------------------------------------------------------------------------------------ */

fn has_lone_cr(m: &str) -> bool {
    let b = m.as_bytes();
    (0..b.len()).any(|i| b[i] == b'\r' && b.get(i + 1) != Some(&b'\n'))
}

fn text_feature(m: &str) -> &'static str {
    if has_lone_cr(m) { "lone-CR" }
    else if m.contains("\r\n") { "CRLF" }
    else if m.contains('\n') { "LF" }
    else if m.contains(':') { "field-lookalike" }
    else if m.starts_with(' ') { "leading-space" }
    else if m.is_empty() { "empty" }
    else if !m.is_ascii() { "non-ascii" }
    else { "plain" }
}
const FEATURE_RANK: [&str; 8] = ["lone-CR", "CRLF", "LF", "field-lookalike", "leading-space", "empty", "non-ascii", "plain"];

/// the most demanding feature present in the sequence (for symptoms that are not tied to one message)
fn sequence_feature(ms: &[String]) -> &'static str {
    if ms.is_empty() { return "no-message" }
    let best = ms.iter().map(|m| FEATURE_RANK.iter().position(|f| *f == text_feature(m)).unwrap()).min().unwrap();
    FEATURE_RANK[best]
}

fn schedule_feature(case: &Case) -> &'static str {
    let k = case.messages.len();
    let pending_anywhere = case.gaps.iter().any(|g| *g != Gap::None);
    if case.gaps.contains(&Gap::Sleep) { return "slower-than-session-timeout" }
    match case.mode {
        Mode::From => if pending_anywhere { "from-stream-pending" } else { "from-stream" },
        Mode::UserData => if pending_anywhere { "user-data-stream-pending" } else { "user-data-stream" },
        Mode::Raw => if pending_anywhere { "raw-stream-pending" } else { "raw-stream" },
        Mode::Replaced => if pending_anywhere { "replaced-stream-pending" } else { "replaced-stream" },
        Mode::New => {
            let burst = k >= 2 && case.gaps[1..k].iter().any(|g| *g == Gap::None);
            if burst { "burst" }
            else if k >= 1 && case.gaps[k] == Gap::None { "finish-with-queue" }
            else if case.gaps[k] != Gap::None { "pending-after-last" }
            else { "plain" }
        }
    }
}

/* ------------------------------------------------------------------------------------------------
   oracle
------------------------------------------------------------------------------------------------ */

enum Verdict {
    Pass { key: String },
    Ambiguous { reason: String },
    Violation { class: String, observed: Value },
}

fn response_error_kind(e: &str) -> &'static str {
    if e.starts_with("chunk size line not terminated") { "no-terminating-chunk" }
    else if e.starts_with("bad chunk size") || e.starts_with("chunk size") { "bad-chunk-size" }
    else if e.starts_with("chunk of") { "chunk-size-exceeds-data" }
    else if e.starts_with("chunk data not followed") { "chunk-size-mismatch" }
    else if e.starts_with("terminating chunk") { "terminator-without-crlf" }
    else { "bad-head" }
}

fn event_json(e: &sse::Event) -> Value {
    json!({"data": e.data, "event": e.event, "ids": e.ids, "retries": e.retries, "comments": e.comments,
           "ignored_fields": e.unknown.iter().map(|(k, v)| json!([k, v])).collect::<Vec<_>>()})
}

/// events decodable from the first `upto` bytes of what was written
fn events_in_prefix(written: &[u8], upto: usize) -> usize {
    let prefix = &written[..upto.min(written.len())];
    let Some(h) = prefix.windows(4).position(|w| w == b"\r\n\r\n") else { return 0 };
    let (payload, _) = sse::dechunk_prefix(&prefix[h + 4..]);
    // cut at the last byte that is valid UTF-8 (a chunk boundary may not split a character here, but be tolerant)
    let text = match std::str::from_utf8(&payload) { Ok(t) => t, Err(e) => std::str::from_utf8(&payload[..e.valid_up_to()]).unwrap() };
    sse::parse_str(text).events.len()
}

fn judge(case: &Case, run: &Run) -> Verdict {
    let seqf = sequence_feature(&case.messages);
    let schf = schedule_feature(case);
    let expected: Vec<String> = case.messages.iter().map(|m| sse::normalise(m)).collect();
    let viol = |textf: &str, symptom: String, observed: Value| Verdict::Violation { class: format!("C17/{textf}/{schf}/{symptom}"), observed };
    let raw = || crate::core::esc(&run.written);

    match &run.end {
        End::Panic(stage, msg) => return viol(seqf, format!("panic@{stage}:{}", panic_kind(msg)), json!({"panic": msg, "written": raw()})),
        End::Livelock(stage) => return viol(seqf, format!("livelock@{stage}"), json!({"written": raw(), "polls": run.polls})),
        End::Stall(stage) => {
            let delivered = events_in_prefix(&run.written, run.written.len());
            let what = if !stage.starts_with("send") { "" } else if delivered >= expected.len() { "/all-delivered" } else { "/messages-outstanding" };
            return viol(seqf, format!("stall@{stage}{what}"), json!({"written": raw(), "polls": run.polls, "pushed": run.pushed, "producer_finished": run.producer_finished, "events_delivered": delivered}))
        }
        End::Done { upgraded: true } => return viol(seqf, "reported-upgrade".into(), json!({"written": raw()})),
        End::Done { upgraded: false } => {}
    }

    /* framing */
    let p = match parse_response(&run.written, false) {
        Err(e) => return viol(seqf, format!("malformed-response:{}", response_error_kind(&e)), json!({"error": e, "written": raw()})),
        Ok(p) => p,
    };
    if p.status != 200 { return viol(seqf, "head:status".into(), json!({"status": p.status, "written": raw()})) }
    let te = p.header_all("Transfer-Encoding");
    if p.framing != Framing::Chunked || te.len() != 1 || !te[0].eq_ignore_ascii_case("chunked") {
        return viol(seqf, "head:transfer-encoding".into(), json!({"transfer_encoding": te, "written": raw()}))
    }
    if !p.header_all("Content-Length").is_empty() { return viol(seqf, "head:content-length-present".into(), json!({"written": raw()})) }
    let ct = p.header_all("Content-Type");
    let ct_ok = ct.len() == 1 && ct[0].split(';').next().unwrap().trim().eq_ignore_ascii_case("text/event-stream");
    if !ct_ok { return viol(seqf, "head:content-type".into(), json!({"content_type": ct, "written": raw()})) }
    if p.consumed != run.written.len() {
        return viol(seqf, "bytes-after-terminating-chunk".into(), json!({"extra": crate::core::esc(&run.written[p.consumed..]), "written": raw()}))
    }

    /* event stream */
    let parsed = match sse::parse(&p.body) {
        Err(e) => return viol(seqf, "invalid-utf8".into(), json!({"error": e, "body": crate::core::esc(&p.body)})),
        Ok(x) => x,
    };
    let observed = || json!({
        "body": String::from_utf8_lossy(&p.body),
        "events": parsed.events.iter().map(event_json).collect::<Vec<_>>(),
        "fieldless_dispatches": parsed.empty_dispatches.iter().map(event_json).collect::<Vec<_>>(),
        "pending_at_eof": parsed.pending_at_eof.as_ref().map(event_json),
    });
    let o = &parsed.events;
    let n = expected.len().min(o.len());
    for i in 0..n {
        let (m, e, got) = (&case.messages[i], &expected[i], &o[i]);
        let tf = text_feature(m);
        if got.data != *e {
            let od = &got.data;
            let symptom =
                if o.len() < expected.len() && i + 1 < expected.len() && *od == expected[i + 1] { "message-lost" }
                else if o.len() > expected.len() && i > 0 && *od == expected[i - 1] { "message-duplicated" }
                else if i + 1 < expected.len() && (*od == format!("{e}\n{}", expected[i + 1]) || *od == format!("{e}{}", expected[i + 1])) { "messages-merged" }
                else if o.len() > expected.len() && e.starts_with(od.as_str()) { "message-split" }
                else if has_lone_cr(m) && e.starts_with(od.as_str()) { if got.has_other_field() { "field-injected-after-CR" } else { "text-lost-after-CR" } }
                else if *e == format!("{od}\n") { "trailing-newline-lost" }
                else if e.strip_prefix(' ') == Some(od.as_str()) { "leading-space-stripped" }
                else if od.strip_prefix(' ') == Some(e.as_str()) { "leading-space-added" }
                else if e.starts_with(od.as_str()) { "text-truncated" }
                else if od.starts_with(e.as_str()) { "text-extended" }
                else { "wrong-text" };
            return viol(tf, symptom.into(), observed())
        }
        if got.has_other_field() {
            // text is right, yet another field travels with the event
            let explicit_default = got.ids.is_empty() && got.retries.is_empty() && got.event == "message";
            if explicit_default { return Verdict::Ambiguous { reason: "explicit-default-event-type".into() } }
            let which = if !got.event.is_empty() { "event" } else if !got.ids.is_empty() { "id" } else { "retry" };
            return viol(tf, format!("other-field-dispatched:{which}"), observed())
        }
    }
    if o.len() < expected.len() {
        let tf = text_feature(&case.messages[o.len()]);
        let symptom = if parsed.pending_at_eof.as_ref().is_some_and(|e| e.data_lines > 0) { "last-event-not-closed" } else { "message-lost" };
        return viol(tf, symptom.into(), observed())
    }
    if o.len() > expected.len() {
        let symptom = if expected.last().is_some_and(|l| *l == o[expected.len()].data) { "message-duplicated" } else { "extra-event" };
        return viol(seqf, symptom.into(), observed())
    }
    if parsed.empty_dispatches.iter().any(|e| e.has_other_field()) || parsed.pending_at_eof.as_ref().is_some_and(|e| e.has_other_field()) {
        return viol(seqf, "stray-field-outside-events".into(), observed())
    }
    if !parsed.grammatical() { return viol(seqf, "stream-not-closed-by-blank-line".into(), observed()) }

    /* pace: nothing may be withheld while the producer waits for the outside world */
    for &(bytes, pushed) in &run.moves {
        let delivered = events_in_prefix(&run.written, bytes);
        if delivered < pushed {
            let tf = text_feature(&case.messages[delivered.min(case.messages.len() - 1)]);
            return viol(tf, "withheld-while-producer-waits".into(), json!({
                "at_environment_move": {"bytes_written": bytes, "messages_pushed": pushed, "events_decodable": delivered},
                "written_so_far": crate::core::esc(&run.written[..bytes.min(run.written.len())])}))
        }
    }

    let noise = o.iter().chain(parsed.empty_dispatches.iter()).any(|e| e.has_noise());
    if noise { return Verdict::Ambiguous { reason: "comment-or-unknown-field-in-stream(messages intact)".into() } }
    Verdict::Pass { key: format!("ok/{seqf}/{schf}") }
}


/* ------------------------------------------------------------------------------------------------
   part B: the same path through the real `Session::manage` over loopback TCP (tokio, one thread)
   (a) conformance: for schedules that need no harness move the bytes on the socket must equal the
       bytes of the in-memory run — this binds "read, handle, send driven by the harness" to the real
       session loop; a mismatch is a machinery failure, not a verdict;
   (b) pace: one case in which the producer waits longer than the session's keep-alive limit.
------------------------------------------------------------------------------------------------ */

/// `OHKAMI_KEEPALIVE_TIMEOUT` (seconds) installed for part B; the default of the framework is 42
const KEEPALIVE_S: u64 = 1;
/// real sleep of a `Z` gap: longer than KEEPALIVE_S
const SLEEP_MS: u64 = 1500;

fn install_keepalive() {
    // read once by the framework (LazyLock) when the first session starts; nothing before part B starts one
    std::env::set_var("OHKAMI_KEEPALIVE_TIMEOUT", KEEPALIVE_S.to_string());
}

fn over_tcp(router: &VerifRouter, case: &Case) -> Result<Vec<u8>, String> {
    use tokio::io::{AsyncReadExt, AsyncWriteExt};
    let slot: SharedSlot = Arc::new(Mutex::new(Slot::default()));
    SCRIPT.with(|s| *s.borrow_mut() = Some(Script { mode: case.mode, steps: steps_of(case), slot }));
    let rt = tokio::runtime::Builder::new_current_thread().enable_all().build().map_err(|e| format!("tokio runtime: {e}"))?;
    let router = router.clone();
    rt.block_on(async move {
        let listener = tokio::net::TcpListener::bind("127.0.0.1:0").await.map_err(|e| format!("bind: {e}"))?;
        let addr = listener.local_addr().map_err(|e| format!("local_addr: {e}"))?;
        let server = tokio::spawn(async move {
            let (conn, _) = listener.accept().await.expect("accept");
            ohkami::__verif__::serve_connection(&router, conn).await
        });
        let mut c = tokio::net::TcpStream::connect(addr).await.map_err(|e| format!("connect: {e}"))?;
        c.write_all(REQUEST).await.map_err(|e| format!("write: {e}"))?;
        let mut buf = Vec::new();
        // the session ends (Connection: close, or its keep-alive limit) and drops the socket: EOF
        let eof = c.read_to_end(&mut buf).await;
        let joined = server.await;
        if let Err(e) = joined { if e.is_panic() { return Err("session task panicked".to_string()) } }
        match eof { Ok(_) => Ok(buf), Err(e) if !buf.is_empty() => { let _ = e; Ok(buf) }, Err(e) => Err(format!("read: {e}")) }
    })
}

fn check_tcp_case(ctx: &mut Ctx, router: &VerifRouter, case: &Case) {
    let conformance = !case.gaps.contains(&Gap::Sleep);
    let mut mem = None;
    if conformance {
        // the in-memory run first: if it does not even finish (reported by part A), the socket run would only
        // sit out the keep-alive limit
        let m = execute(router, &Case { tcp: false, ..case.clone() });
        if m.end != (End::Done { upgraded: false }) { ctx.skip(); return }
        mem = Some(m);
    }
    let bytes = match guarded(|| over_tcp(router, case)) {
        Ok(Ok(b)) => b,
        Ok(Err(e)) => { ctx.machinery_error(format!("C17 part B: {e} (case {})", case.to_json())); return }
        Err(p) => { ctx.machinery_error(format!("C17 part B: harness panicked: {p} (case {})", case.to_json())); return }
    };
    ctx.traces_validated += 1;
    if let Some(mem) = mem {
        // (a) conformance with the in-memory run of the same case
        if mem.written != bytes {
            ctx.machinery_error(format!("C17 conformance: real Session::manage over TCP and the in-memory run disagree on {}: tcp=`{}` memory=`{}`",
                case.to_json(), crate::core::esc(&bytes), crate::core::esc(&mem.written)));
            return
        }
        ctx.pass("tcp-conformance/identical-bytes", !case.messages.is_empty(), false);
        let n = ctx.extra.get("sum_tcp_conformance_identical").and_then(Value::as_u64).unwrap_or(0);
        ctx.extra.insert("sum_tcp_conformance_identical".into(), json!(n + 1));
        return
    }
    // (b) judged by the same oracle as every other case
    let run = Run { end: End::Done { upgraded: false }, written: bytes, polls: 0, moves: Vec::new(), pushed: 0, producer_finished: false };
    ctx.states += 1;
    match judge(case, &run) {
        Verdict::Pass { key } => ctx.pass(&key, true, false),
        Verdict::Ambiguous { reason } => ctx.ambiguous(&reason),
        Verdict::Violation { class, observed } => {
            let expected: Vec<String> = case.messages.iter().map(|m| sse::normalise(m)).collect();
            ctx.violation(&class, true, || { let mut w = case.to_json(); w["expected"] = json!(expected); w["observed"] = observed; w });
        }
    }
}

fn tcp_cases() -> Vec<Case> {
    let mut seqs: Vec<Vec<&str>> = vec![vec![]];
    for m in MESSAGES { seqs.push(vec![m]) }
    seqs.push(vec!["a", "a\nb"]);
    seqs.push(vec!["é", "", " a"]);
    seqs.push(vec!["a\r\nb", "\n", ":c", "data: x"]);
    let mut out = Vec::new();
    for seq in &seqs {
        for mode in [Mode::New, Mode::From, Mode::UserData, Mode::Raw] {
            for g in [Gap::None, Gap::SelfWake, Gap::Two] {
                out.push(Case { mode, messages: seq.iter().map(|m| m.to_string()).collect(), gaps: vec![g; seq.len() + 1], writer: 0, tcp: true });
            }
        }
    }
    // the producer pauses for longer than the session's keep-alive limit between two plain messages
    out.push(Case { mode: Mode::New, messages: vec!["a".into(), "a".into()], gaps: vec![Gap::None, Gap::Sleep, Gap::None], writer: 0, tcp: true });
    out
}

/* ------------------------------------------------------------------------------------------------
   bookkeeping
------------------------------------------------------------------------------------------------ */

#[derive(Default)]
struct Stats { environment_moves: u64, cases_by_len: [u64; 8], max_polls: u64 }

fn check_case(ctx: &mut Ctx, stats: &mut Stats, router: &VerifRouter, case: &Case) {
    let run = execute(router, case);
    ctx.states += 1;
    ctx.transitions += run.polls;
    ctx.traces_validated += 1;
    stats.environment_moves += run.moves.len() as u64;
    stats.cases_by_len[case.messages.len().min(7)] += 1;
    stats.max_polls = stats.max_polls.max(run.polls);

    let nontrivial = !case.messages.is_empty();
    let special_text = case.messages.iter().any(|m| text_feature(m) != "plain");
    let schf = schedule_feature(case);
    let collision = special_text && matches!(schf, "burst" | "finish-with-queue" | "from-stream-pending");
    match judge(case, &run) {
        Verdict::Pass { key } => {
            ctx.pass(&key, nontrivial, collision);
            if collision && case.messages.len() >= 2 && case.writer == 0 {
                ctx.sample(|| json!({"case": case.to_json(), "polls": run.polls, "environment_moves": run.moves.len(), "written": crate::core::esc(&run.written)}));
            }
        }
        Verdict::Ambiguous { reason } => ctx.ambiguous(&reason),
        Verdict::Violation { class, observed } => {
            let expected: Vec<String> = case.messages.iter().map(|m| sse::normalise(m)).collect();
            ctx.violation(&class, nontrivial, || { let mut w = case.to_json(); w["expected"] = json!(expected); w["observed"] = observed; w });
        }
    }
}

/// all gap vectors of length n, fewest departures from "no yield" first (deviation bounding), then lexicographic
fn gap_vectors(n: usize) -> Vec<Vec<Gap>> {
    let total = GAPS.len().pow(n as u32);
    let mut v: Vec<Vec<Gap>> = (0..total).map(|mut idx| {
        let mut g = vec![Gap::None; n];
        for slot in g.iter_mut().rev() { *slot = GAPS[idx % GAPS.len()]; idx /= GAPS.len(); }
        g
    }).collect();
    v.sort_by_key(|g| g.iter().filter(|x| **x != Gap::None).count());   // stable: keeps lexicographic order inside a level
    v
}

fn build_router() -> VerifRouter { VerifRouter::from(Ohkami::new("/".GET(handler))) }

pub fn run(ctx: &mut Ctx) {
    crate::app::pin_clock();
    let quick = ctx.quick();
    let max_len = if quick { 3 } else { 4 };
    let alphabet: Vec<&str> = if quick { MESSAGES.to_vec() } else { MESSAGES.iter().chain(MESSAGES_EXTRA.iter()).copied().collect() };
    let router = match guarded(build_router) {
        Ok(r) => r,
        Err(p) => { ctx.machinery_error(format!("C17: building the one-route application panicked: {p}")); return }
    };
    let vectors: Vec<Vec<Vec<Gap>>> = (0..=max_len).map(|k| gap_vectors(k + 1)).collect();

    let mut completed_len = None;
    let mut stats = Stats::default();

    // part B is one unit
    if ctx.mine() {
        install_keepalive();
        let cases = tcp_cases();
        ctx.extra.insert("sum_tcp_cases".into(), json!(cases.len()));
        let t0 = std::time::Instant::now();
        for case in &cases {
            if t0.elapsed().as_secs_f64() > 12.0 {
                ctx.machinery_error("C17 part B: the socket runs exceeded their 12 s allowance (sessions hanging until the keep-alive limit?)".into());
                break
            }
            check_tcp_case(ctx, &router, case);
        }
    }
    'outer: for k in 0..=max_len {
        let n = alphabet.len();
        let total = n.pow(k as u32);
        // a unit (for sharding) = one message sequence with all its schedules
        for idx in 0..total {
            if ctx.out_of_time() { break 'outer }
            if !ctx.mine() { continue }
            let mut toks = Vec::with_capacity(k);
            let mut x = idx;
            for _ in 0..k { toks.push(x % n); x /= n; }
            toks.reverse();
            let messages: Vec<String> = toks.iter().map(|t| alphabet[*t].to_string()).collect();
            // (the two entry points that do not pass through the built-in `sse::Data` impls take the gap vectors without Pending
            //  only plus the first with Pending: their drain path is `from`'s, what differs is who prepares the text)
            for mode in [Mode::New, Mode::From, Mode::UserData, Mode::Raw, Mode::Replaced] {
                for (gi, gaps) in vectors[k].iter().enumerate() {
                    if matches!(mode, Mode::UserData | Mode::Raw | Mode::Replaced) && gi > 1 { continue }
                    for writer in 0..WRITERS.len() {
                        let case = Case { mode, messages: messages.clone(), gaps: gaps.clone(), writer, tcp: false };
                        check_case(ctx, &mut stats, &router, &case);
                    }
                }
                if ctx.out_of_time() { break 'outer }
            }
        }
        completed_len = Some(k);
    }

    ctx.extra.insert("rule".into(), json!("one case = (constructor new|from, message sequence, one gap behaviour per gap incl. after the last message, writer mode), all on the real read -> handle -> send path; every case is distinct by construction; non-trivial = at least one message; designed collision = a message with a line break / colon / leading space / empty / non-ASCII text travels through a non-textbook drain path (burst of pushes before a yield, producer finished with items queued, or a Pending-answering Stream behind DataStream::from)"));
    ctx.extra.insert("distinct_by_construction".into(), json!(true));
    ctx.extra.insert("bounds".into(), json!({
        "messages": alphabet, "max_sequence_length": max_len, "gap_alphabet": "N no yield | S self-waking yield | H yield woken later by the harness | D two self-waking yields",
        "gaps_per_case": "sequence length + 1", "constructors": ["DataStream::new", "DataStream::from", "Response::with_stream over a user type implementing sse::Data", "Response::set_stream_raw"], "writers": WRITERS.iter().map(|w| w.1).collect::<Vec<_>>(),
        "product": "full (no thinning)",
        "part_B_over_tcp": {"cases": tcp_cases().len(), "what": "every single message, the empty stream and three longer sequences x both constructors x {N,S,D on every gap} through the real Session::manage over loopback TCP, bytes compared with the in-memory run; plus one case whose producer sleeps longer than the keep-alive limit",
                            "keepalive_timeout_s": KEEPALIVE_S, "sleep_ms": SLEEP_MS}}));
    if let Some(k) = completed_len { ctx.extra.insert("max_bound_completed_sequence_length".into(), json!(k)); }
    ctx.extra.insert("sum_environment_moves".into(), json!(stats.environment_moves));
    ctx.extra.insert("max_polls_in_one_case".into(), json!(stats.max_polls));
    for (k, c) in stats.cases_by_len.iter().enumerate() { if *c > 0 { ctx.extra.insert(format!("sum_cases_with_{k}_messages"), json!(c)); } }
}

pub fn replay(ctx: &mut Ctx, case: &Value) {
    crate::app::pin_clock();
    let case = match Case::from_json(case) { Ok(c) => c, Err(e) => { ctx.machinery_error(format!("C17 replay: bad case: {e}")); return } };
    let router = match guarded(build_router) {
        Ok(r) => r,
        Err(p) => { ctx.machinery_error(format!("C17: building the one-route application panicked: {p}")); return }
    };
    if case.tcp { install_keepalive(); check_tcp_case(ctx, &router, &case) }
    else { check_case(ctx, &mut Stats::default(), &router, &case) }
}
