//! C17 — not implemented yet.
use crate::core::Ctx;
use serde_json::Value;

pub fn run(ctx: &mut Ctx) { ctx.machinery_error("C17 engine not implemented".into()); }
pub fn replay(ctx: &mut Ctx, _case: &Value) { ctx.machinery_error("C17 engine not implemented".into()); }
