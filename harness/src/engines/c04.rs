//! C04 — fangs run in onion order and exactly within their application's scope (DESIGN §5 C04).
//!
//! configuration = tree of applications (mount prefixes, 0..2 fangs each, own routes, local fangs, optional
//! blocking fang, `Ohkami::new` / `Ohkami::with` form); every configuration is built by the real code and
//! queried with every request of a path alphabet; the per-request trace written by the instrumented fangs
//! is compared with the order computed from the tree.

use crate::app;
use crate::appgen::{self, AppDesc, FangDesc, FlatApp, FlatRoute, ItemDesc, MethodDesc};
use crate::core::{panic_kind, Ctx};
use crate::refmodel::router::{admissible, is_param, request_segments, Entry, Match};
use serde_json::{json, Value};

/* ---------------- grammar ---------------- */

#[derive(Clone)]
struct RouteChoice { path: &'static str, methods: &'static [&'static str], local: usize }

/// menus of own-route sets (each entry: routes of one application)
fn route_menu(full: bool) -> Vec<Vec<RouteChoice>> {
    let r = |path, methods, local| RouteChoice { path, methods, local };
    let mut m = vec![
        vec![],
        vec![r("/", &["GET"][..], 0)],
        vec![r("/x", &["GET"][..], 0)],
        vec![r("/x", &["GET", "POST"][..], 1)],
        vec![r("/:q", &["GET"][..], 0)],
        vec![r("/x/y", &["POST"][..], 0), r("/", &["GET"][..], 0)],
    ];
    if full {
        m.push(vec![r("/x", &["POST"][..], 2)]);
        m.push(vec![r("/x/y", &["GET"][..], 0), r("/x", &["GET"][..], 1)]);
        m.push(vec![r("/:q", &["GET", "POST"][..], 1), r("/", &["POST"][..], 0)]);
    }
    m
}

const PREFIXES: [&str; 4] = ["/a", "/a/b", "/:p", "/b"];

fn segs(p: &str) -> Vec<String> { appgen::split_route(p) }

fn seg_overlap(a: &str, b: &str) -> bool { is_param(a) || is_param(b) || a == b }
/// pattern `long` lies under (or equals) pattern `short`
fn under(long: &[String], short: &[String]) -> bool {
    long.len() >= short.len() && short.iter().zip(long).all(|(s, l)| seg_overlap(s, l))
}

fn mk_app(tag: &str, nfangs: usize, action: bool, with_form: bool, routes: &[RouteChoice], full_prefix: &[String], children: Vec<(String, AppDesc)>) -> AppDesc {
    let fang = |id: String| if action { FangDesc::Action(id) } else { FangDesc::Trace(id) };
    let mut items = vec![];
    for rc in routes {
        let mut full = full_prefix.to_vec(); full.extend(segs(rc.path));
        let np = full.iter().filter(|s| is_param(s)).count().min(2) as u8;
        let full_str = if full.is_empty() { "/".to_string() } else { full.iter().map(|s| format!("/{s}")).collect() };
        items.push(ItemDesc::Route { path: rc.path.to_string(), methods: rc.methods.iter().map(|m| MethodDesc {
            method: m.to_string(), hid: format!("{m} {full_str}"), n_params: np,
            local_fangs: (0..rc.local).map(|i| fang(format!("{tag}.{}{}l{i}", rc.path, m))).collect(),
        }).collect() });
    }
    for (p, c) in children { items.push(ItemDesc::Mount { prefix: p, app: c }) }
    AppDesc { fangs: (0..nfangs).map(|i| fang(format!("{tag}{i}"))).collect(), with_form, items }
}

/// precondition of the property: no route or mount of the same application overlaps a mount prefix
fn precondition_ok(own_routes: &[RouteChoice], mounts: &[&str]) -> bool {
    for (i, m) in mounts.iter().enumerate() {
        let ms = segs(m);
        for rc in own_routes { if under(&segs(rc.path), &ms) { return false } }
        for (j, o) in mounts.iter().enumerate() { if i != j { let os = segs(o); if under(&os, &ms) || under(&ms, &os) { return false } } }
    }
    true
}

/* ---------------- oracle ---------------- */

#[derive(Debug, Clone, PartialEq, Eq)]
struct Expect { trace: Vec<String>, status: Option<u16>, hid: Option<String>, position: &'static str }

fn pattern_prefix_matches(prefix: &[String], req: &[String]) -> bool {
    req.len() >= prefix.len() && prefix.iter().zip(req).all(|(p, s)| if is_param(p) { !s.is_empty() } else { p == s })
}

/// None = the statement does not fix the outcome (ambiguous routing reading)
fn expected(apps: &[FlatApp], routes: &[FlatRoute], method: &str, path: &str) -> Option<Expect> {
    let mut table: Vec<Entry> = routes.iter().map(|r| Entry { segs: r.segs.clone(), method: r.method.clone(), hid: r.hid.clone() }).collect();
    // a mount prefix is a static alternative in the tree even when nothing is registered under it (yet): whether it
    // shadows a param route of the parent is a routing question the statement of C04 does not settle (C01 counts
    // it as ambiguous, too) -> let the reference see it as a pattern that no method can hit
    for a in apps.iter().filter(|a| !a.prefix.is_empty()) { table.push(Entry { segs: a.prefix.clone(), method: "~mount".into(), hid: "~mount".into() }) }
    let adm = admissible(&table, method, path);
    if adm.len() != 1 { return None }
    let req = request_segments(path)?;
    if path == "//" { return None }
    // enclosing applications by mount prefix, outermost first
    let mut chain: Vec<usize> = (0..apps.len()).filter(|&i| pattern_prefix_matches(&apps[i].prefix, &req)).collect();
    chain.sort_by_key(|&i| apps[i].prefix.len());
    // they must form a parent chain (guaranteed by the generator's precondition)
    for w in chain.windows(2) { if apps[w[1]].parent.map(|p| !chain.contains(&p)).unwrap_or(false) { return None } }
    let mut enter: Vec<(String, bool)> = vec![]; // (id, blocks)
    for &a in &chain { for f in &apps[a].fangs { enter.push((f.id().to_string(), f.blocks())) } }
    let m = adm.into_iter().next().unwrap();
    let (hid, position) = match &m {
        Match::Handler { hid, .. } => {
            let r = routes.iter().find(|r| r.hid == *hid).unwrap();
            if r.apps != chain { return None }
            for f in &r.local_fangs { enter.push((f.id().to_string(), f.blocks())) }
            (Some(hid.clone()), "hit")
        }
        Match::NoHandler => (None, if chain.len() > 1 { "miss-inside-mount" } else { "miss-at-root" }),
    };
    let mut trace = vec![];
    let mut entered = vec![];
    let mut blocked = false;
    for (id, blocks) in &enter {
        if *blocks { trace.push(format!("!{id}")); blocked = true; break }
        trace.push(format!(">{id}")); entered.push(id.clone());
    }
    if !blocked { if let Some(h) = &hid { trace.push(format!("H{h}")) } }
    for id in entered.iter().rev() { trace.push(format!("<{id}")) }
    let status = if blocked { Some(403) } else if hid.is_some() { Some(200) } else if method == "OPTIONS" { None } else { Some(404) };
    Some(Expect { trace, status, hid: if blocked { None } else { hid }, position })
}

fn classify(exp: &Expect, got: &[String], apps: &[FlatApp], status_ok: bool) -> String {
    let all_app_fangs: Vec<&str> = apps.iter().flat_map(|a| a.fangs.iter().map(|f| f.id())).collect();
    let what = |e: &str| -> &'static str {
        let id = &e[1..];
        if e.starts_with('H') { "handler" } else if all_app_fangs.contains(&id) { "app-fang" } else { "local-fang" }
    };
    let mut extra: Vec<&str> = vec![]; let mut missing: Vec<&str> = vec![];
    for e in got { if !exp.trace.contains(e) { extra.push(what(e)) } }
    for e in &exp.trace { if !got.contains(e) { missing.push(what(e)) } }
    extra.sort(); extra.dedup(); missing.sort(); missing.dedup();
    let kind = if !extra.is_empty() && !missing.is_empty() { format!("extra:{}+missing:{}", extra.join(","), missing.join(",")) }
        else if !extra.is_empty() { format!("extra:{}", extra.join(",")) }
        else if !missing.is_empty() { format!("missing:{}", missing.join(",")) }
        else if got != exp.trace.as_slice() {
            let mut g = got.to_vec(); g.sort(); let mut e = exp.trace.clone(); e.sort();
            if g == e { "order".to_string() } else { "duplicate-events".to_string() }
        } else if !status_ok { "wrong-status".to_string() } else { "other".to_string() };
    format!("C04/{}/{}", exp.position, kind)
}

/* ---------------- exploration ---------------- */

fn paths(depth: usize) -> Vec<String> {
    let alphabet = ["a", "b", "x", "y", "z"];
    let mut out = vec!["/".to_string()];
    let mut frontier = vec![String::new()];
    for _ in 0..depth {
        let mut next = vec![];
        for p in &frontier { for s in alphabet { next.push(format!("{p}/{s}")) } }
        for p in &next { out.push(p.clone()); out.push(format!("{p}/")); }
        frontier = next;
    }
    out
}

fn check_config(ctx: &mut Ctx, desc: &AppDesc, reqs: &[(String, String)], shape: &str) {
    let router = match appgen::build(desc) {
        Ok(r) => r,
        Err(p) => {
            ctx.violation(&format!("C04/registration/{shape}/rejected:{}", panic_kind(&p)), true, || json!({"app": desc, "observed": format!("panic: {p}")}));
            return
        }
    };
    ctx.states += 1;
    let (apps, routes) = appgen::flatten(desc);
    let nested_fangs = apps.iter().filter(|a| !a.fangs.is_empty()).count() >= 2;
    for (method, path) in reqs {
        ctx.transitions += 1;
        let Some(exp) = expected(&apps, &routes, method, path) else { ctx.ambiguous("routing-reading"); continue };
        appgen::trace_clear();
        let out = app::oneshot(&router, &app::request(method, path, &[("Host", "h")], b""));
        let got = appgen::trace_take();
        let status = out.status();
        let status_ok = match (exp.status, status) { (Some(e), Some(s)) => e == s, (None, Some(_)) => true, _ => false };
        let witness = || json!({"app": desc, "shape": shape, "method": method, "path": path, "expected_trace": exp.trace, "expected_status": exp.status,
                                "observed_trace": got, "observed": out.kind()});
        if status.is_none() {
            ctx.violation(&format!("C04/{}/broken:{}", exp.position, out.kind()), true, witness);
        } else if got == exp.trace && status_ok {
            // collision: the request exercises scoping across an application boundary (a miss, or a hit under a mount with fangs on both sides)
            let collision = nested_fangs && (exp.position != "hit" || exp.trace.len() > 3);
            ctx.pass(&format!("{}:{}:{}ev", exp.position, status.unwrap(), exp.trace.len().min(9)), !exp.trace.is_empty(), collision);
        } else {
            ctx.violation(&classify(&exp, &got, &apps, status_ok), true, witness);
        }
    }
    ctx.sample(|| json!({"app": desc, "shape": shape, "requests": reqs.len()}));
}

fn with_block(desc: &AppDesc, which: usize) -> Option<AppDesc> {
    // replace the `which`-th fang (pre-order over applications, then local fangs) by a blocking one
    fn rec(a: &mut AppDesc, k: &mut isize) -> bool {
        for f in a.fangs.iter_mut() { if *k == 0 { *f = FangDesc::Block(f.id().to_string()); return true } *k -= 1; }
        for it in a.items.iter_mut() {
            match it {
                ItemDesc::Route { methods, .. } => for m in methods { for f in m.local_fangs.iter_mut() { if *k == 0 { *f = FangDesc::Block(f.id().to_string()); return true } *k -= 1; } },
                ItemDesc::Mount { app, .. } | ItemDesc::Inline { app } => if rec(app, k) { return true },
            }
        }
        false
    }
    let mut d = desc.clone();
    let mut k = which as isize;
    rec(&mut d, &mut k).then_some(d)
}

pub fn run(ctx: &mut Ctx) {
    app::pin_clock();
    let quick = ctx.quick();
    let menu = route_menu(!quick);
    let small_menu: Vec<Vec<RouteChoice>> = menu.iter().take(4).cloned().collect();
    let methods = ["GET", "POST", "PUT", "HEAD", "OPTIONS"];
    let reqs: Vec<(String, String)> = paths(if quick { 3 } else { 4 }).into_iter().flat_map(|p| methods.iter().map(move |m| (m.to_string(), p.clone()))).collect();
    let fang_counts: &[usize] = &[0, 1, 2];

    let mut unit = |ctx: &mut Ctx, desc: AppDesc, shape: &str, blocks: bool| {
        if !ctx.mine() { return }
        if ctx.out_of_time() { return }
        check_config(ctx, &desc, &reqs, shape);
        if blocks {
            let mut k = 0;
            while let Some(b) = with_block(&desc, k) { check_config(ctx, &b, &reqs, &format!("{shape}+block")); k += 1; }
        }
    };

    // T1: single application
    for &nf in fang_counts { for rs in &menu { for form in [false, true] { for action in [false, true] {
        if nf == 0 && action { continue }
        unit(ctx, mk_app("r", nf, action, form, rs, &[], vec![]), "T1", true);
    } } } }
    // T2: root -> child
    for &nf_r in fang_counts { for rs_r in &menu { for prefix in PREFIXES { if !precondition_ok(rs_r, &[prefix]) { continue }
        for &nf_c in fang_counts { for rs_c in &menu { for form in [false, true] {
            let action = (nf_r + nf_c) % 2 == 1;
            let child = mk_app("c", nf_c, action, !form, rs_c, &segs(prefix), vec![]);
            unit(ctx, mk_app("r", nf_r, action, form, rs_r, &[], vec![(prefix.to_string(), child)]), "T2", nf_r + nf_c > 0 && rs_c.len() == 1);
        } } }
    } } }
    // T3: root -> two children ; T4: root -> child -> grandchild
    let (m3, f3): (&Vec<Vec<RouteChoice>>, &[usize]) = if quick { (&small_menu, &[1]) } else { (&menu, &[0, 1, 2]) };
    for (p1, p2) in [("/a", "/b"), ("/a/b", "/b")] {
        for &nf_r in f3 { for rs_r in m3.iter() { if !precondition_ok(rs_r, &[p1, p2]) { continue }
            for &nf_1 in f3 { for rs_1 in m3.iter() { for &nf_2 in f3 { for rs_2 in m3.iter() {
                if !quick && rs_1.len() + rs_2.len() + rs_r.len() > 3 { continue }
                let c1 = mk_app("c", nf_1, false, true, rs_1, &segs(p1), vec![]);
                let c2 = mk_app("d", nf_2, true, false, rs_2, &segs(p2), vec![]);
                unit(ctx, mk_app("r", nf_r, false, false, rs_r, &[], vec![(p1.to_string(), c1), (p2.to_string(), c2)]), "T3", false);
            } } } }
        } }
    }
    for p1 in PREFIXES { for p2 in if quick { &PREFIXES[..2] } else { &PREFIXES[..] } {
        for &nf_r in f3 { for rs_r in m3.iter() { if !precondition_ok(rs_r, &[p1]) { continue }
            for &nf_1 in f3 { for rs_1 in m3.iter() { if !precondition_ok(rs_1, &[p2]) { continue }
                for &nf_2 in f3 { for rs_2 in m3.iter() {
                    if !quick && rs_1.len() + rs_2.len() + rs_r.len() > 3 { continue }
                    let mut gp = segs(p1); gp.extend(segs(p2));
                    let g = mk_app("g", nf_2, true, true, rs_2, &gp, vec![]);
                    let c = mk_app("c", nf_1, false, false, rs_1, &segs(p1), vec![(p2.to_string(), g)]);
                    unit(ctx, mk_app("r", nf_r, false, true, rs_r, &[], vec![(p1.to_string(), c)]), "T4", false);
                } }
            } }
        } }
    } }
    // arity sweep: every tuple arity 0..8 of application fangs and every local-fang arity 0..4 on a fixed tree
    for n_root in 0..=8usize { for n_child in [0usize, 1, 8] { for n_local in 0..=4usize { for form in [false, true] { for action in [false, true] {
        if !ctx.mine() { continue }
        let fang = |id: String| if action { FangDesc::Action(id) } else { FangDesc::Trace(id) };
        let child = AppDesc { fangs: (0..n_child).map(|i| fang(format!("c{i}"))).collect(), with_form: !form, items: vec![
            ItemDesc::Route { path: "/x".into(), methods: vec![MethodDesc { method: "GET".into(), hid: "GET /a/x".into(), n_params: 0, local_fangs: (0..n_local).map(|i| fang(format!("l{i}"))).collect() }] }] };
        let root = AppDesc { fangs: (0..n_root).map(|i| fang(format!("r{i}"))).collect(), with_form: form, items: vec![
            ItemDesc::Route { path: "/y".into(), methods: vec![MethodDesc { method: "GET".into(), hid: "GET /y".into(), n_params: 0, local_fangs: vec![] }] },
            ItemDesc::Mount { prefix: "/a".into(), app: child }] };
        check_config(ctx, &root, &reqs, "arity");
    } } } } }

    ctx.extra.insert("rule".into(), json!("case = (application tree, request); trees satisfy the property's precondition (no route or mount of an application overlaps one of its mount prefixes); non-trivial = the expected trace is non-empty; collision = the request crosses an application boundary where both sides carry fangs (a miss inside/outside a mount, or a hit under a mount) - the situation in which finalization may compress nodes across the boundary"));
    ctx.extra.insert("bounds".into(), json!({"tree_shapes": ["T1 root", "T2 root->child", "T3 root->2 children", "T4 root->child->grandchild", "arity sweep 0..8 app fangs x 0..4 local fangs"],
        "prefixes": PREFIXES, "fangs_per_app": "0..2", "route_menu_entries": menu.len(), "T3/T4 menu": if quick { "4 entries, 1 fang each" } else { "full, <=3 routes in total" },
        "path_depth": if quick { 3 } else { 4 }, "path_segments": ["a","b","x","y","z"], "methods": methods, "block_variants": "every fang position of T1 and single-route T2 configurations"}));
    ctx.traces_validated = ctx.transitions;
}

pub fn replay(ctx: &mut Ctx, case: &Value) {
    app::pin_clock();
    let desc: AppDesc = serde_json::from_value(case["app"].clone()).expect("app");
    let reqs = vec![(case["method"].as_str().unwrap_or("GET").to_string(), case["path"].as_str().unwrap_or("/").to_string())];
    check_config(ctx, &desc, &reqs, case["shape"].as_str().unwrap_or("replay"));
}
