//! One module per property.  Each exposes
//!   `run(ctx)`            – enumerate the whole bounded space for ctx.tier (this worker's shard of it)
//!   `replay(ctx, case)`   – re-execute exactly one case from its JSON witness
use crate::core::Ctx;
use serde_json::Value;

pub mod c20;

pub type RunFn = fn(&mut Ctx);
pub type ReplayFn = fn(&mut Ctx, &Value);

pub fn lookup(id: &str) -> Option<(&'static str, RunFn, ReplayFn)> {
    Some(match id {
        "C20" => ("C20", c20::run as RunFn, c20::replay as ReplayFn),
        _ => return None,
    })
}
