//! One module per property.  Each exposes
//!   `run(ctx)`            – enumerate the whole bounded space for ctx.tier (this worker's shard of it)
//!   `replay(ctx, case)`   – re-execute exactly one case from its JSON witness
use crate::core::Ctx;
use serde_json::Value;

pub mod c01;
pub mod c02;
pub mod c03;
pub mod c04;
pub mod c05;
pub mod c06;
pub mod c07;
pub mod c08;
pub mod c09;
pub mod c10;
pub mod c11;
pub mod c12;
pub mod c13;
pub mod c14;
pub mod c15;
pub mod c16;
pub mod c17;
pub mod c18;
pub mod c19;
pub mod c20;

pub type RunFn = fn(&mut Ctx);
pub type ReplayFn = fn(&mut Ctx, &Value);

pub fn lookup(id: &str) -> Option<(&'static str, RunFn, ReplayFn)> {
    Some(match id {
        "C01" => ("C01", c01::run as RunFn, c01::replay as ReplayFn),
        "C02" => ("C02", c02::run as RunFn, c02::replay as ReplayFn),
        "C03" => ("C03", c03::run as RunFn, c03::replay as ReplayFn),
        "C04" => ("C04", c04::run as RunFn, c04::replay as ReplayFn),
        "C05" => ("C05", c05::run as RunFn, c05::replay as ReplayFn),
        "C06" => ("C06", c06::run as RunFn, c06::replay as ReplayFn),
        "C07" => ("C07", c07::run as RunFn, c07::replay as ReplayFn),
        "C08" => ("C08", c08::run as RunFn, c08::replay as ReplayFn),
        "C09" => ("C09", c09::run as RunFn, c09::replay as ReplayFn),
        "C10" => ("C10", c10::run as RunFn, c10::replay as ReplayFn),
        "C11" => ("C11", c11::run as RunFn, c11::replay as ReplayFn),
        "C12" => ("C12", c12::run as RunFn, c12::replay as ReplayFn),
        "C13" => ("C13", c13::run as RunFn, c13::replay as ReplayFn),
        "C14" => ("C14", c14::run as RunFn, c14::replay as ReplayFn),
        "C15" => ("C15", c15::run as RunFn, c15::replay as ReplayFn),
        "C16" => ("C16", c16::run as RunFn, c16::replay as ReplayFn),
        "C17" => ("C17", c17::run as RunFn, c17::replay as ReplayFn),
        "C18" => ("C18", c18::run as RunFn, c18::replay as ReplayFn),
        "C19" => ("C19", c19::run as RunFn, c19::replay as ReplayFn),
        "C20" => ("C20", c20::run as RunFn, c20::replay as ReplayFn),
        _ => return None,
    })
}
