//! C15 — the generated OpenAPI document is valid and describes exactly the application (DESIGN §5 C15).
//!
//! application = (route table, handler signature per (route, method), declaration shape, registration order,
//! tags, JWT / BasicAuth fangs at root / on a mounted child / local to one handler).  Handlers come from a
//! compile-time catalogue (`cat`), each with a hand-written expectation record; applications are assembled at
//! run time through hook H1 (`DynRouting`).  Per application the real `Ohkami::__openapi_document_bytes__` is
//! called once, the document is compared with the route table computed from the description, and one request
//! per documented operation is **built from the document** and sent through the real read → router → send
//! path of the same `Ohkami`.  Every distinct schema object found in a document is dumped (keyed by a hash)
//! into `$VERIF_SHARD_WORK/c15_schemas.json`; `lib/c15_runner.py` validates the dumps under Draft 2020-12.
//!
//! Helpers that other engines keep in appgen.rs (description types, fangs, builder, flatten) live in this file
//! because appgen's `MethodDesc` only knows echo handlers.

use crate::app::{self, Outcome};
use crate::appgen;
use crate::core::{combinations, guarded, panic_kind, Ctx};
use crate::engines::c01;
use ohkami::__verif__::{DynItem, DynRouting, HandlerSet, VerifRouter};
use ohkami::fang::{BasicAuth, JWT};
use ohkami::handler::IntoHandler;
use ohkami::openapi;
use ohkami::{Fang, FangProc, Ohkami, Request, Response, Route};
use serde_json::{json, Map, Value};
use std::cell::RefCell;
use std::collections::{BTreeMap, BTreeSet, HashMap};

pub const SEGS: [&str; 4] = ["a", "b", ":p", ":q"];
const JWT_SECRET: &str = "c15-secret-key-for-hs256";
const BASIC_USER: &str = "user";
const BASIC_PASS: &str = "pass";
const METHODS: [&str; 5] = ["GET", "PUT", "POST", "PATCH", "DELETE"];

/* ------------------------------------------------------------------------------------------------
   what a catalogue handler leaves behind when it runs (per thread; engines are single-threaded)
------------------------------------------------------------------------------------------------ */

thread_local! {
    static HITS: RefCell<Vec<(&'static str, Vec<String>)>> = const { RefCell::new(Vec::new()) };
}
fn hit(id: &'static str, params: Vec<String>) { HITS.with(|h| h.borrow_mut().push((id, params))) }
fn hits_take() -> Vec<(&'static str, Vec<String>)> { HITS.with(|h| std::mem::take(&mut *h.borrow_mut())) }

/* ------------------------------------------------------------------------------------------------
   the compile-time catalogue of handler signatures
------------------------------------------------------------------------------------------------ */

/// What the property statement makes the document say about one handler signature.  Written by hand from the
/// framework's documentation of extractors / return types (README "OpenAPI" section, rustdoc of `format::*`,
/// `typed::status::*`, `IntoResponse::openapi_responses`), **not** from running the generator.
pub struct Expect {
    /// JSON type of each path param the handler takes, in order (`String`/`&str` → string, integers → integer)
    pub params: &'static [&'static str],
    /// query parameters: (name, required)
    pub query: &'static [(&'static str, bool)],
    /// request body media type
    pub body: Option<&'static str>,
    /// response statuses (or `default`) and their media type
    pub responses: &'static [(&'static str, Option<&'static str>)],
    /// a body the handler accepts, for requests built from the *description* (the `undocumented` probe)
    pub sample_body: &'static str,
    /// query string the handler accepts (same purpose)
    pub sample_query: &'static str,
}

type RegFn = fn(Result<HandlerSet, &'static str>, &str, Option<DynFang>) -> HandlerSet;
pub struct Entry { pub id: &'static str, pub exp: Expect, reg: RegFn }
impl Entry { pub fn n_params(&self) -> usize { self.exp.params.len() } }

fn reg<T, H: IntoHandler<T>>(set: Result<HandlerSet, &'static str>, method: &str, h: H) -> HandlerSet {
    match set {
        Err(route) => match method {
            "GET" => route.GET(h), "PUT" => route.PUT(h), "POST" => route.POST(h), "PATCH" => route.PATCH(h), "DELETE" => route.DELETE(h),
            m => panic!("c15: method {m} cannot be registered"),
        },
        Ok(s) => match method {
            "GET" => s.GET(h), "PUT" => s.PUT(h), "POST" => s.POST(h), "PATCH" => s.PATCH(h), "DELETE" => s.DELETE(h),
            m => panic!("c15: method {m} cannot be registered"),
        },
    }
}

pub mod cat {
    use super::{hit, reg, Entry, Expect};
    use ohkami::format::{Multipart, Query, URLEncoded, JSON};
    use ohkami::openapi::{self, Schema};
    use ohkami::serde::{Deserialize, Serialize};
    use ohkami::typed::status;
    use ohkami::{IntoResponse, Response};

    /* ---- schemas ---- */

    #[derive(Serialize, Schema)]
    #[openapi(component)]
    pub struct User { id: u64, name: String }
    fn user() -> User { User { id: 1, name: "n".into() } }

    #[derive(Serialize, Schema)]
    pub struct Item { sku: String, qty: u32, note: Option<String> }
    fn item() -> Item { Item { sku: "s".into(), qty: 1, note: None } }

    #[derive(Deserialize, Schema)]
    pub struct ListQuery { name: String, limit: Option<u32> }

    #[derive(Deserialize, Schema)]
    #[openapi(component)]
    pub struct PageQuery { page: u32, size: Option<u32> }

    #[derive(Deserialize, Schema)]
    pub struct CreateUser { name: String, age: Option<u8> }

    #[derive(Deserialize, Schema)]
    #[openapi(component)]
    pub struct Address { city: String, zip: Option<String> }

    /// contains a nested derived type (a component) and an array
    #[derive(Deserialize, Schema)]
    pub struct Order { item: String, qty: u32, ship_to: Address, tags: Vec<String> }

    #[derive(Deserialize, Schema)]
    pub struct Login { user: String, pass: String, remember: Option<u8> }

    #[derive(Deserialize, Schema)]
    pub struct Upload { title: String, note: Option<String> }

    /// the only way to describe a boolean member: `schema_with` + the exported constructor `openapi::bool()`
    #[derive(Deserialize, Schema)]
    pub struct Flags { name: String, #[openapi(schema_with = "ohkami::openapi::bool")] active: bool }

    /// a hand-written schema through the public constructors
    #[derive(Deserialize)]
    pub struct Range { lo: i32 }
    impl Schema for Range {
        fn schema() -> impl Into<openapi::schema::SchemaRef> {
            openapi::object().property("lo", openapi::integer().exclusiveMinimum(0))
        }
    }

    #[derive(Serialize, Schema)]
    #[openapi(component)]
    pub struct ErrBody { code: u16, message: String }

    pub struct AppErr;
    impl IntoResponse for AppErr {
        fn into_response(self) -> Response { Response::NotFound() }
        fn openapi_responses() -> openapi::Responses {
            openapi::Responses::new([(404, openapi::Response::when("not found"))])
                .or(500, openapi::Response::when("failure").content("application/json", <ErrBody as Schema>::schema()))
        }
    }

    /* ---- handlers: no path param ---- */

    pub async fn h_text() -> &'static str { hit("h_text", vec![]); "ok" }
    pub async fn h_string() -> String { hit("h_string", vec![]); "ok".into() }
    pub async fn h_unit() { hit("h_unit", vec![]); }
    pub async fn h_json() -> JSON<Item> { hit("h_json", vec![]); JSON(item()) }
    pub async fn h_created() -> status::Created<JSON<User>> { hit("h_created", vec![]); status::Created(JSON(user())) }
    pub async fn h_created_text() -> status::Created<String> { hit("h_created_text", vec![]); status::Created("made".into()) }
    pub async fn h_nocontent() -> status::NoContent { hit("h_nocontent", vec![]); status::NoContent }
    pub async fn h_query(Query(q): Query<ListQuery>) -> JSON<Vec<User>> { let _ = (q.name, q.limit); hit("h_query", vec![]); JSON(vec![user()]) }
    pub async fn h_query_comp(Query(q): Query<PageQuery>) -> String { let _ = (q.page, q.size); hit("h_query_comp", vec![]); "ok".into() }
    pub async fn h_body_json(JSON(b): JSON<CreateUser>) -> status::Created<JSON<User>> { let _ = (b.name, b.age); hit("h_body_json", vec![]); status::Created(JSON(user())) }
    pub async fn h_body_nested(JSON(b): JSON<Order>) -> JSON<Item> { let _ = (b.item, b.qty, b.ship_to.city, b.ship_to.zip, b.tags); hit("h_body_nested", vec![]); JSON(item()) }
    pub async fn h_body_form(URLEncoded(b): URLEncoded<Login>) -> String { let _ = (b.user, b.pass, b.remember); hit("h_body_form", vec![]); "ok".into() }
    pub async fn h_body_multipart(Multipart(b): Multipart<Upload>) -> status::NoContent { let _ = (b.title, b.note); hit("h_body_multipart", vec![]); status::NoContent }
    pub async fn h_result() -> Result<JSON<User>, AppErr> { hit("h_result", vec![]); Ok(JSON(user())) }
    #[openapi::operation(listThings { summary: "list the things", 200: "All things" })]
    /// documented through the `operation` attribute
    pub async fn h_operation() -> JSON<Vec<Item>> { hit("h_operation", vec![]); JSON(vec![item()]) }
    pub async fn h_bool(JSON(b): JSON<Flags>) -> status::OK { let _ = (b.name, b.active); hit("h_bool", vec![]); status::OK(()) }
    pub async fn h_excl(JSON(b): JSON<Range>) -> String { let _ = b.lo; hit("h_excl", vec![]); "ok".into() }
    pub async fn h_query_body(Query(q): Query<ListQuery>, JSON(b): JSON<CreateUser>) -> JSON<User> { let _ = (q.name, q.limit, b.name, b.age); hit("h_query_body", vec![]); JSON(user()) }

    /* ---- handlers: one path param (forms `P` and `(P,)`) ---- */

    pub async fn h1_str(id: String) -> String { hit("h1_str", vec![id]); "ok".into() }
    pub async fn h1_int((id,): (u32,)) -> JSON<User> { hit("h1_int", vec![id.to_string()]); JSON(user()) }
    pub async fn h1_ref(id: &str) -> status::NoContent { hit("h1_ref", vec![id.to_string()]); status::NoContent }
    pub async fn h1_query(id: u64, Query(q): Query<ListQuery>) -> JSON<Vec<User>> { let _ = (q.name, q.limit); hit("h1_query", vec![id.to_string()]); JSON(vec![]) }
    pub async fn h1_body((id,): (String,), JSON(b): JSON<CreateUser>) -> Result<status::Created<JSON<User>>, AppErr> { let _ = (b.name, b.age); hit("h1_body", vec![id]); Ok(status::Created(JSON(user()))) }
    pub async fn h1_form(id: u32, URLEncoded(b): URLEncoded<Login>) -> status::NoContent { let _ = (b.user, b.pass, b.remember); hit("h1_form", vec![id.to_string()]); status::NoContent }

    /* ---- handlers: two path params (form `(P1, P2)`) ---- */

    pub async fn h2_mixed((a, b): (String, u32)) -> String { hit("h2_mixed", vec![a, b.to_string()]); "ok".into() }
    pub async fn h2_ints((a, b): (u64, u64)) -> Result<status::NoContent, AppErr> { hit("h2_ints", vec![a.to_string(), b.to_string()]); Ok(status::NoContent) }
    pub async fn h2_query((a, b): (u32, String), Query(q): Query<ListQuery>) -> JSON<User> { let _ = (q.name, q.limit); hit("h2_query", vec![a.to_string(), b]); JSON(user()) }
    pub async fn h2_body((a, b): (String, String), JSON(x): JSON<CreateUser>) -> status::Created<JSON<User>> { let _ = (x.name, x.age); hit("h2_body", vec![a, b]); status::Created(JSON(user())) }

    /* ---- expectation records ---- */

    const TEXT: Option<&str> = Some("text/plain");
    const JS: Option<&str> = Some("application/json");
    const FORM: &str = "application/x-www-form-urlencoded";
    const LIST_Q: &[(&str, bool)] = &[("name", true), ("limit", false)];
    const APP_ERR: [(&str, Option<&str>); 2] = [("404", None), ("500", JS)];
    const MP_BODY: &str = "--c15b\r\nContent-Disposition: form-data; name=\"title\"\r\n\r\nt\r\n--c15b--\r\n";

    macro_rules! entry {
        ($h:ident, params: $p:expr, query: $q:expr, body: $b:expr, responses: $r:expr, sample: ($sq:expr, $sb:expr)) => {
            Entry { id: stringify!($h),
                exp: Expect { params: $p, query: $q, body: $b, responses: $r, sample_query: $sq, sample_body: $sb },
                reg: |set, m, lf| match lf { None => reg(set, m, $h), Some(f) => reg(set, m, (f, $h)) } }
        };
    }

    pub fn catalogue() -> Vec<Entry> {
        vec![
            entry!(h_text,        params: &[], query: &[], body: None, responses: &[("200", TEXT)], sample: ("", "")),
            entry!(h_string,      params: &[], query: &[], body: None, responses: &[("200", TEXT)], sample: ("", "")),
            entry!(h_unit,        params: &[], query: &[], body: None, responses: &[("200", None)], sample: ("", "")),
            entry!(h_json,        params: &[], query: &[], body: None, responses: &[("200", JS)], sample: ("", "")),
            entry!(h_created,     params: &[], query: &[], body: None, responses: &[("201", JS)], sample: ("", "")),
            entry!(h_created_text, params: &[], query: &[], body: None, responses: &[("201", TEXT)], sample: ("", "")),
            entry!(h_nocontent,   params: &[], query: &[], body: None, responses: &[("204", None)], sample: ("", "")),
            entry!(h_query,       params: &[], query: LIST_Q, body: None, responses: &[("200", JS)], sample: ("name=n", "")),
            entry!(h_query_comp,  params: &[], query: &[("page", true), ("size", false)], body: None, responses: &[("200", TEXT)], sample: ("page=1", "")),
            entry!(h_body_json,   params: &[], query: &[], body: JS, responses: &[("201", JS)], sample: ("", r#"{"name":"n"}"#)),
            entry!(h_body_nested, params: &[], query: &[], body: JS, responses: &[("200", JS)], sample: ("", r#"{"item":"i","qty":1,"ship_to":{"city":"c"},"tags":[]}"#)),
            entry!(h_body_form,   params: &[], query: &[], body: Some(FORM), responses: &[("200", TEXT)], sample: ("", "user=u&pass=p")),
            entry!(h_body_multipart, params: &[], query: &[], body: Some("multipart/form-data"), responses: &[("204", None)], sample: ("", MP_BODY)),
            entry!(h_result,      params: &[], query: &[], body: None, responses: &[("200", JS), APP_ERR[0], APP_ERR[1]], sample: ("", "")),
            entry!(h_operation,   params: &[], query: &[], body: None, responses: &[("200", JS)], sample: ("", "")),
            entry!(h_bool,        params: &[], query: &[], body: JS, responses: &[("200", None)], sample: ("", r#"{"name":"n","active":true}"#)),
            entry!(h_excl,        params: &[], query: &[], body: JS, responses: &[("200", TEXT)], sample: ("", r#"{"lo":1}"#)),
            entry!(h_query_body,  params: &[], query: LIST_Q, body: JS, responses: &[("200", JS)], sample: ("name=n", r#"{"name":"n"}"#)),

            entry!(h1_str,   params: &["string"], query: &[], body: None, responses: &[("200", TEXT)], sample: ("", "")),
            entry!(h1_int,   params: &["integer"], query: &[], body: None, responses: &[("200", JS)], sample: ("", "")),
            entry!(h1_ref,   params: &["string"], query: &[], body: None, responses: &[("204", None)], sample: ("", "")),
            entry!(h1_query, params: &["integer"], query: LIST_Q, body: None, responses: &[("200", JS)], sample: ("name=n", "")),
            entry!(h1_body,  params: &["string"], query: &[], body: JS, responses: &[("201", JS), APP_ERR[0], APP_ERR[1]], sample: ("", r#"{"name":"n"}"#)),
            entry!(h1_form,  params: &["integer"], query: &[], body: Some(FORM), responses: &[("204", None)], sample: ("", "user=u&pass=p")),

            entry!(h2_mixed, params: &["string", "integer"], query: &[], body: None, responses: &[("200", TEXT)], sample: ("", "")),
            entry!(h2_ints,  params: &["integer", "integer"], query: &[], body: None, responses: &[("204", None), APP_ERR[0], APP_ERR[1]], sample: ("", "")),
            entry!(h2_query, params: &["integer", "string"], query: LIST_Q, body: None, responses: &[("200", JS)], sample: ("name=n", "")),
            entry!(h2_body,  params: &["string", "string"], query: &[], body: JS, responses: &[("201", JS)], sample: ("", r#"{"name":"n"}"#)),
        ]
    }
}
use cat::catalogue;

/// leaked once per process: the catalogue is read-only
fn entries() -> &'static [Entry] {
    thread_local! { static LEAKED: &'static [Entry] = Box::leak(catalogue().into_boxed_slice()); }
    LEAKED.with(|l| *l)
}
fn entry(id: &str) -> Option<&'static Entry> { entries().iter().find(|e| e.id == id) }

/* ------------------------------------------------------------------------------------------------
   fangs: one run-time type over Tag / JWT / BasicAuth, delegating to the real implementations
------------------------------------------------------------------------------------------------ */

#[derive(serde::Serialize, serde::Deserialize)]
pub struct Claims { sub: String, exp: u64 }

fn jwt() -> JWT<Claims> { JWT::default(JWT_SECRET) }
fn api_token(req: &ohkami::Request) -> Option<&str> { req.headers.get("X-Api-Token") }
fn jwt_key() -> JWT<Claims> {
    let custom = JWT::default(JWT_SECRET).get_token_by(api_token, ohkami::openapi::SecurityScheme::APIKey("apiToken", ohkami::openapi::security::APIKey::header("X-Api-Token")));
    custom.clone()
}
fn basic() -> BasicAuth<String> { BasicAuth { username: BASIC_USER.to_string(), password: BASIC_PASS.to_string() } }

#[derive(Clone)]
pub enum DynFang { Tag(&'static str), Jwt(JWT<Claims>), Basic(BasicAuth<String>),
    /// the array-of-credentials entry point `[BasicAuth; N]` (an impl of its own)
    BasicArr([BasicAuth<String>; 2]) }
pub enum DynProc<I: FangProc> {
    Pass(I),
    Jwt(<JWT<Claims> as Fang<I>>::Proc),
    Basic(<BasicAuth<String> as Fang<I>>::Proc),
    BasicArr(<[BasicAuth<String>; 2] as Fang<I>>::Proc),
}
impl<I: FangProc> Fang<I> for DynFang {
    type Proc = DynProc<I>;
    fn chain(&self, inner: I) -> Self::Proc {
        match self {
            DynFang::Tag(t) => DynProc::Pass(<openapi::Tag as Fang<I>>::chain(&openapi::Tag(t), inner)),
            DynFang::Jwt(j) => DynProc::Jwt(<JWT<Claims> as Fang<I>>::chain(j, inner)),
            DynFang::Basic(b) => DynProc::Basic(<BasicAuth<String> as Fang<I>>::chain(b, inner)),
            DynFang::BasicArr(b) => DynProc::BasicArr(<[BasicAuth<String>; 2] as Fang<I>>::chain(b, inner)),
        }
    }
    fn openapi_map_operation(&self, op: openapi::Operation) -> openapi::Operation {
        match self {
            DynFang::Tag(t) => <openapi::Tag as Fang<I>>::openapi_map_operation(&openapi::Tag(t), op),
            DynFang::Jwt(j) => <JWT<Claims> as Fang<I>>::openapi_map_operation(j, op),
            DynFang::Basic(b) => <BasicAuth<String> as Fang<I>>::openapi_map_operation(b, op),
            DynFang::BasicArr(b) => <[BasicAuth<String>; 2] as Fang<I>>::openapi_map_operation(b, op),
        }
    }
}
impl<I: FangProc> FangProc for DynProc<I> {
    async fn bite<'b>(&'b self, req: &'b mut Request) -> Response {
        match self {
            DynProc::Pass(p) => p.bite(req).await,
            DynProc::Jwt(p) => p.bite(req).await,
            DynProc::Basic(p) => p.bite(req).await,
            DynProc::BasicArr(p) => p.bite(req).await,
        }
    }
}

/* ------------------------------------------------------------------------------------------------
   descriptions
------------------------------------------------------------------------------------------------ */

#[derive(Clone, Debug, PartialEq, Eq, Hash, serde::Serialize, serde::Deserialize)]
pub enum FangD { Tag(String), Jwt, Basic, BasicArr,
    /// a JWT fang customised with `get_token_by` (token in `X-Api-Token`, documented as an apiKey scheme) and then *cloned*: the
    /// clone guards the routes
    JwtKey }
impl FangD {
    fn is_auth(&self) -> bool { !matches!(self, FangD::Tag(_)) }
    fn kind(&self) -> &'static str { match self { FangD::Tag(_) => "tag", FangD::Jwt => "jwt", FangD::Basic | FangD::BasicArr => "basic", FangD::JwtKey => "jwt-apikey" } }
}

#[derive(Clone, Debug, PartialEq, Eq, Hash, serde::Serialize, serde::Deserialize)]
pub struct MethD {
    /// GET | PUT | POST | PATCH | DELETE
    pub method: String,
    /// catalogue id
    pub h: String,
    #[serde(default, skip_serializing_if = "Vec::is_empty")]
    pub local: Vec<FangD>,
}

#[derive(Clone, Debug, PartialEq, Eq, Hash, serde::Serialize, serde::Deserialize)]
pub enum ItemD {
    Route { path: String, methods: Vec<MethD> },
    Mount { prefix: String, app: AppD },
    Inline { app: AppD },
}

#[derive(Clone, Debug, Default, PartialEq, Eq, Hash, serde::Serialize, serde::Deserialize)]
pub struct AppD {
    #[serde(default, skip_serializing_if = "Vec::is_empty")]
    pub fangs: Vec<FangD>,
    pub items: Vec<ItemD>,
}

fn leak(s: &str) -> &'static str { Box::leak(s.to_string().into_boxed_str()) }

fn dynfang(f: &FangD) -> DynFang {
    match f { FangD::Tag(t) => DynFang::Tag(leak(t)), FangD::Jwt => DynFang::Jwt(jwt()), FangD::JwtKey => DynFang::Jwt(jwt_key()), FangD::Basic => DynFang::Basic(basic()),
        FangD::BasicArr => DynFang::BasicArr([BasicAuth { username: "someone-else".to_string(), password: "pw2".to_string() }, basic()]) }
}

fn handler_set(path: &str, methods: &[MethD]) -> HandlerSet {
    assert!(!methods.is_empty());
    let mut set: Result<HandlerSet, &'static str> = Err(leak(path));
    for m in methods {
        let e = entry(&m.h).unwrap_or_else(|| panic!("c15: no catalogue handler `{}`", m.h));
        let lf = match m.local.len() { 0 => None, 1 => Some(dynfang(&m.local[0])), n => panic!("c15: {n} local fangs are not generated") };
        set = Ok((e.reg)(set, &m.method, lf));
    }
    match set { Ok(s) => s, Err(_) => unreachable!() }
}

pub fn ohkami_of(app: &AppD) -> Ohkami {
    let mut items = Vec::new();
    for it in &app.items {
        items.push(match it {
            ItemD::Route { path, methods } => DynItem::Handlers(handler_set(path, methods)),
            ItemD::Mount { prefix, app } => DynItem::By(leak(prefix).By(ohkami_of(app))),
            ItemD::Inline { app } => DynItem::Ohkami(ohkami_of(app)),
        });
    }
    let r = DynRouting(items);
    let f = |i: usize| dynfang(&app.fangs[i]);
    match app.fangs.len() {
        0 => Ohkami::new(r),
        1 => Ohkami::new((f(0), r)),
        2 => Ohkami::new((f(0), f(1), r)),
        3 => Ohkami::new((f(0), f(1), f(2), r)),
        n => panic!("c15: {n} fangs per application are not generated"),
    }
}

/* ------------------------------------------------------------------------------------------------
   the route table the property talks about, computed from the description
------------------------------------------------------------------------------------------------ */

#[derive(Clone, Debug)]
pub struct Flat {
    pub segs: Vec<String>,
    pub method: String,
    pub h: String,
    pub local: Vec<FangD>,
    /// indices into the application list (pre-order), outermost first
    pub chain: Vec<usize>,
}
#[derive(Clone, Debug)]
pub struct FlatApp { pub prefix: Vec<String>, pub fangs: Vec<FangD>, /** enclosing applications, outermost first, itself last */ pub chain: Vec<usize> }

pub fn flatten(app: &AppD) -> (Vec<FlatApp>, Vec<Flat>) {
    fn rec(app: &AppD, prefix: Vec<String>, chain: Vec<usize>, apps: &mut Vec<FlatApp>, routes: &mut Vec<Flat>) {
        let me = apps.len();
        let mut chain = chain; chain.push(me);
        apps.push(FlatApp { prefix: prefix.clone(), fangs: app.fangs.clone(), chain: chain.clone() });
        for it in &app.items {
            match it {
                ItemD::Route { path, methods } => for m in methods {
                    let mut segs = prefix.clone(); segs.extend(appgen::split_route(path));
                    routes.push(Flat { segs, method: m.method.clone(), h: m.h.clone(), local: m.local.clone(), chain: chain.clone() });
                },
                ItemD::Mount { prefix: p, app } => { let mut np = prefix.clone(); np.extend(appgen::split_route(p)); rec(app, np, chain.clone(), apps, routes) }
                ItemD::Inline { app } => rec(app, prefix.clone(), chain.clone(), apps, routes),
            }
        }
    }
    let (mut apps, mut routes) = (Vec::new(), Vec::new());
    rec(app, vec![], vec![], &mut apps, &mut routes);
    (apps, routes)
}

fn is_param(s: &str) -> bool { s.starts_with(':') }
fn norm(segs: &[String]) -> Vec<String> { segs.iter().map(|s| if is_param(s) { ":".to_string() } else { s.clone() }).collect() }
fn template(segs: &[String]) -> String {
    if segs.is_empty() { return "/".into() }
    segs.iter().map(|s| match s.strip_prefix(':') { Some(p) => format!("/{{{p}}}"), None => format!("/{s}") }).collect()
}
fn template_params(tpl: &str) -> Vec<String> {
    tpl.split('/').filter_map(|s| s.strip_prefix('{').and_then(|s| s.strip_suffix('}')).map(str::to_string)).collect()
}
fn route_str(segs: &[String]) -> String { c01::route_str(segs) }

/// auth fangs that enclose the route by the description: enclosing applications outermost first, then local
fn guards<'a>(apps: &'a [FlatApp], r: &'a Flat) -> Vec<(&'a FangD, String)> {
    let mut out = vec![];
    for (depth, &ai) in r.chain.iter().enumerate() {
        for f in &apps[ai].fangs { if f.is_auth() { out.push((f, format!("{}@{}", f.kind(), if depth == 0 { "root" } else { "child" }))) } }
    }
    for f in &r.local { if f.is_auth() { out.push((f, format!("{}@local", f.kind()))) } }
    out
}

/// Auth fangs of applications that do not enclose `r` but own the node `r`'s handler sits on or a node above it
/// (since /repo 5efac73 a node takes over the fangs in effect at its parent: "fangs of an application run for every
/// request whose path lies under its mount prefix").  An application's fangs
/// are attached to every node of its own routing tree (its root, the nodes of its routes in their method tree, the
/// nodes of the prefixes of mounts inside it in every method tree); when it is mounted, nodes that already exist at the
/// same place (same static text, or a param whatever its name) are united with them and keep both fang lists.  Which
/// fangs guard a handler on such a shared node is C04's subject (its precondition excludes these trees); here the
/// description gives no expectation for `security` there and only document <-> run-time consistency is demanded.
fn foreign_auth<'a>(apps: &'a [FlatApp], flat: &[Flat], r: &Flat) -> Vec<&'a FangD> {
    let key = norm(&r.segs);
    let mut out = vec![];
    for (ai, a) in apps.iter().enumerate() {
        if r.chain.contains(&ai) || !a.fangs.iter().any(FangD::is_auth) { continue }
        let k0 = a.prefix.len();
        let on_route = flat.iter().any(|r2| r2.chain.contains(&ai) && r2.method == r.method && (k0..=r2.segs.len()).any(|k| key.starts_with(&norm(&r2.segs[..k]))));
        let on_mount = apps.iter().any(|b| b.chain.contains(&ai) && (k0..=b.prefix.len()).any(|k| key.starts_with(&norm(&b.prefix[..k]))));
        if on_route || on_mount { out.extend(a.fangs.iter().filter(|f| f.is_auth())) }
    }
    out
}

fn route_feature(apps: &[FlatApp], r: &Flat) -> String {
    let np = r.segs.iter().filter(|s| is_param(s)).count();
    let inner = &apps[*r.chain.last().unwrap()];
    let mount = if r.chain.len() <= 1 || inner.prefix.is_empty() { "" } else if inner.prefix.iter().any(|s| is_param(s)) { "+param-mount" } else { "+mount" };
    format!("{np}p{mount}")
}

/* ------------------------------------------------------------------------------------------------
   schema collection (validated afterwards by lib/c15_runner.py under Draft 2020-12)
------------------------------------------------------------------------------------------------ */

#[derive(Default)]
pub struct Collector {
    /// hash → (schema, signature id → (occurrences, first example))
    map: BTreeMap<String, (Value, BTreeMap<String, (u64, Value)>)>,
}
thread_local! { static COLLECTOR: RefCell<Collector> = RefCell::new(Collector::default()); }

fn fnv(s: &str) -> String {
    let mut h: u64 = 0xcbf29ce484222325;
    for b in s.bytes() { h ^= b as u64; h = h.wrapping_mul(0x100000001b3); }
    format!("{h:016x}")
}

fn collect_schema(schema: &Value, sig: &str, pointer: &str, app: &AppD, shape: &str) {
    let key = fnv(&schema.to_string());
    COLLECTOR.with(|c| {
        let mut c = c.borrow_mut();
        let rec = c.map.entry(key).or_insert_with(|| (schema.clone(), BTreeMap::new()));
        match rec.1.get_mut(sig) {
            Some(w) => w.0 += 1,
            None => { rec.1.insert(sig.to_string(), (1, json!({"app": app, "shape": shape, "pointer": pointer}))); }
        }
    });
}

fn work_dir() -> std::path::PathBuf {
    match std::env::var_os("VERIF_SHARD_WORK") {
        Some(d) => d.into(),
        None => {
            let exe = std::env::current_exe().expect("current_exe");
            exe.parent().expect("exe dir").join(format!("c15-work-{}", std::process::id()))
        }
    }
}

fn dump_schemas(ctx: &mut Ctx) {
    let dir = work_dir();
    let out: Map<String, Value> = COLLECTOR.with(|c| c.borrow().map.iter().map(|(k, (schema, wh))| (k.clone(), json!({
        "schema": schema,
        "where": wh.iter().map(|(sig, (n, ex))| (sig.clone(), json!({"count": n, "example": ex}))).collect::<Map<String, Value>>(),
    }))).collect());
    ctx.extra.insert("sum_schema_objects_dumped".into(), json!(out.len()));
    if let Err(e) = std::fs::create_dir_all(&dir).and_then(|_| std::fs::write(dir.join("c15_schemas.json"), Value::Object(out).to_string())) {
        ctx.machinery_error(format!("C15: cannot write the schema dump into {}: {e}", dir.display()));
    }
}

/* ------------------------------------------------------------------------------------------------
   reading the document
------------------------------------------------------------------------------------------------ */

fn resolve<'d>(doc: &'d Value, r: &str) -> Option<&'d Value> { r.strip_prefix('#').and_then(|p| doc.pointer(p)) }

fn deref<'d>(doc: &'d Value, mut v: &'d Value) -> Option<&'d Value> {
    for _ in 0..8 {
        match v.get("$ref").and_then(Value::as_str) { Some(r) => v = resolve(doc, r)?, None => return Some(v) }
    }
    None
}

fn esc_ptr(s: &str) -> String { s.replace('~', "~0").replace('/', "~1") }

/// every `$ref` string below `v`
fn refs_below(v: &Value, out: &mut Vec<String>) {
    match v {
        Value::Object(m) => for (k, x) in m { if k == "$ref" { if let Some(s) = x.as_str() { out.push(s.to_string()) } else { out.push(format!("<non-string:{x}>")) } } else { refs_below(x, out) } },
        Value::Array(a) => for x in a { refs_below(x, out) },
        _ => {}
    }
}

/// (pointer, schema) of every schema object directly embedded in an operation
fn schemas_of_operation(op_ptr: &str, op: &Value) -> Vec<(String, Value)> {
    let mut out = vec![];
    if let Some(ps) = op.get("parameters").and_then(Value::as_array) {
        for (i, p) in ps.iter().enumerate() { if let Some(s) = p.get("schema") { out.push((format!("{op_ptr}/parameters/{i}/schema"), s.clone())) } }
    }
    if let Some(c) = op.pointer("/requestBody/content").and_then(Value::as_object) {
        for (mt, x) in c { if let Some(s) = x.get("schema") { out.push((format!("{op_ptr}/requestBody/content/{}/schema", esc_ptr(mt)), s.clone())) } }
    }
    if let Some(rs) = op.get("responses").and_then(Value::as_object) {
        for (st, r) in rs {
            if let Some(c) = r.get("content").and_then(Value::as_object) {
                for (mt, x) in c { if let Some(s) = x.get("schema") { out.push((format!("{op_ptr}/responses/{st}/content/{}/schema", esc_ptr(mt)), s.clone())) } }
            }
            if let Some(hs) = r.get("headers").and_then(Value::as_object) {
                for (hn, x) in hs { if let Some(s) = x.get("schema") { out.push((format!("{op_ptr}/responses/{st}/headers/{}/schema", esc_ptr(hn)), s.clone())) } }
            }
        }
    }
    out
}

fn media(s: &str) -> String { s.split(';').next().unwrap_or("").trim().to_ascii_lowercase() }

/* ------------------------------------------------------------------------------------------------
   building a request from a documented operation
------------------------------------------------------------------------------------------------ */

fn scalar_text(ty: &str, pos: usize) -> Option<String> {
    match ty { "integer" => Some(format!("{}", 11 * (pos + 1))), "string" => Some(format!("v{pos}")), "number" => Some("1.5".into()), "boolean" => Some("true".into()), _ => None }
}

/// a minimal instance of a documented schema (required members only); Err = the schema does not say enough
fn instance(doc: &Value, schema: &Value, depth: usize) -> Result<Value, String> {
    if depth > 6 { return Err("schema nesting too deep".into()) }
    let s = deref(doc, schema).ok_or("dangling $ref")?;
    for k in ["oneOf", "anyOf"] { if let Some(a) = s.get(k).and_then(Value::as_array) { if let Some(f) = a.first() { return instance(doc, f, depth + 1) } } }
    let ty = s.get("type").and_then(Value::as_str).unwrap_or(if s.get("properties").is_some() { "object" } else { "" });
    match ty {
        "object" => {
            let mut m = Map::new();
            let props = s.get("properties").and_then(Value::as_object);
            for r in s.get("required").and_then(Value::as_array).map(|a| a.as_slice()).unwrap_or(&[]) {
                let name = r.as_str().ok_or("non-string in `required`")?;
                let ps = props.and_then(|p| p.get(name)).ok_or_else(|| format!("required member `{name}` has no schema"))?;
                m.insert(name.to_string(), instance(doc, ps, depth + 1)?);
            }
            Ok(Value::Object(m))
        }
        "array" => Ok(json!([])),
        "string" => Ok(json!("s")),
        "integer" => Ok(json!(1)),
        "number" => Ok(json!(1.5)),
        "boolean" => Ok(json!(true)),
        "null" => Ok(Value::Null),
        other => Err(format!("type `{other}` is not a JSON Schema type")),
    }
}

fn form_text(v: &Value) -> Option<String> { match v { Value::String(s) => Some(s.clone()), Value::Number(n) => Some(n.to_string()), Value::Bool(b) => Some(b.to_string()), _ => None } }

pub struct Built { pub raw: Vec<u8>, pub text: String }

/// `auth`: false = leave the documented security requirement unanswered (the probe for `security-extra`)
fn build_from_document(doc: &Value, tpl: &str, method: &str, op: &Value, auth: bool, token: &str) -> Result<Built, String> {
    let params: Vec<&Value> = op.get("parameters").and_then(Value::as_array).map(|a| a.iter().collect()).unwrap_or_default();
    let type_of = |p: &Value| -> String { p.get("schema").and_then(|s| deref(doc, s)).and_then(|s| s.get("type")).and_then(Value::as_str).unwrap_or("").to_string() };
    // path
    let mut path = String::new();
    let mut pos = 0usize;
    for seg in tpl.split('/').skip(1) {
        path.push('/');
        match seg.strip_prefix('{').and_then(|s| s.strip_suffix('}')) {
            Some(name) => {
                let ty = params.iter().find(|p| p["in"] == "path" && p["name"] == name).map(|p| type_of(p));
                // an undeclared `{p}` is reported by the document rules; the request then carries a plain text value
                let text = match ty { Some(t) => scalar_text(&t, pos).ok_or_else(|| format!("path parameter `{name}` has type `{t}`"))?, None => format!("v{pos}") };
                path.push_str(&text);
                pos += 1;
            }
            None => path.push_str(seg),
        }
    }
    if path.is_empty() { path.push('/') }
    // query
    let mut q: Vec<String> = vec![];
    for (i, p) in params.iter().enumerate() {
        if p["in"] == "query" && p["required"] == true {
            let name = p["name"].as_str().ok_or("query parameter without name")?;
            let t = type_of(p);
            q.push(format!("{name}={}", scalar_text(&t, i).ok_or_else(|| format!("query parameter `{name}` has type `{t}`"))?));
        }
    }
    let target = if q.is_empty() { path } else { format!("{path}?{}", q.join("&")) };
    // headers
    let mut headers: Vec<(String, String)> = vec![("Host".into(), "h".into())];
    if auth {
        if let Some(req) = op.get("security").and_then(Value::as_array).and_then(|a| a.first()).and_then(Value::as_object) {
            for name in req.keys() {
                let scheme = doc.pointer(&format!("/components/securitySchemes/{}", esc_ptr(name))).ok_or_else(|| format!("security scheme `{name}` is not defined"))?;
                if scheme["type"].as_str() == Some("apiKey") && scheme["in"].as_str() == Some("header") {
                    let hname = scheme["name"].as_str().ok_or("apiKey scheme without a name")?;
                    headers.push((hname.to_string(), token.to_string()));
                    continue
                }
                let v = match (scheme["type"].as_str(), scheme["scheme"].as_str()) {
                    (Some("http"), Some("bearer")) => format!("Bearer {token}"),
                    (Some("http"), Some("basic")) => { use base64::Engine; format!("Basic {}", base64::engine::general_purpose::STANDARD.encode(format!("{BASIC_USER}:{BASIC_PASS}"))) }
                    other => return Err(format!("security scheme {other:?} is not one the generator configures")),
                };
                headers.push(("Authorization".into(), v));
            }
        }
    }
    // body
    let mut body: Vec<u8> = vec![];
    if let Some(content) = op.pointer("/requestBody/content").and_then(Value::as_object) {
        let (mt, c) = content.iter().next().ok_or("requestBody without content")?;
        let schema = c.get("schema").ok_or("request body without schema")?;
        let inst = instance(doc, schema, 0)?;
        match media(mt).as_str() {
            "application/json" => { body = inst.to_string().into_bytes(); headers.push(("Content-Type".into(), "application/json".into())) }
            "application/x-www-form-urlencoded" => {
                let o = inst.as_object().ok_or("form body that is not an object")?;
                let parts: Option<Vec<String>> = o.iter().map(|(k, v)| form_text(v).map(|t| format!("{k}={t}"))).collect();
                body = parts.ok_or("form member that is not a scalar")?.join("&").into_bytes();
                headers.push(("Content-Type".into(), "application/x-www-form-urlencoded".into()));
            }
            "multipart/form-data" => {
                let o = inst.as_object().ok_or("multipart body that is not an object")?;
                let mut b = String::new();
                for (k, v) in o { b.push_str(&format!("--c15b\r\nContent-Disposition: form-data; name=\"{k}\"\r\n\r\n{}\r\n", form_text(v).ok_or("multipart member that is not a scalar")?)) }
                b.push_str("--c15b--\r\n");
                body = b.into_bytes();
                headers.push(("Content-Type".into(), "multipart/form-data; boundary=c15b".into()));
            }
            other => return Err(format!("media type `{other}` is not one the generator knows")),
        }
    }
    let hs: Vec<(&str, &str)> = headers.iter().map(|(k, v)| (k.as_str(), v.as_str())).collect();
    let raw = app::request(method, &target, &hs, &body);
    Ok(Built { text: crate::core::esc(&raw), raw })
}

/// a request for (route, method) built from the *description* (used when the document has no such operation)
fn build_from_description(apps: &[FlatApp], r: &Flat, e: &Entry, token: &str) -> Vec<u8> {
    let mut path = String::new();
    let mut pos = 0usize;
    for s in &r.segs {
        path.push('/');
        if is_param(s) { path.push_str(&scalar_text(e.exp.params.get(pos).copied().unwrap_or("string"), pos).unwrap()); pos += 1 } else { path.push_str(s) }
    }
    if path.is_empty() { path.push('/') }
    if !e.exp.sample_query.is_empty() { path = format!("{path}?{}", e.exp.sample_query) }
    let mut headers: Vec<(String, String)> = vec![("Host".into(), "h".into())];
    if let Some((f, _)) = guards(apps, r).first() {
        if matches!(f, FangD::JwtKey) { headers.push(("X-Api-Token".into(), token.to_string())) } else {
        headers.push(("Authorization".into(), match f {
            FangD::Jwt => format!("Bearer {token}"),
            _ => { use base64::Engine; format!("Basic {}", base64::engine::general_purpose::STANDARD.encode(format!("{BASIC_USER}:{BASIC_PASS}"))) }
        })); }
    }
    if let Some(mt) = e.exp.body {
        headers.push(("Content-Type".into(), if mt == "multipart/form-data" { "multipart/form-data; boundary=c15b".into() } else { mt.to_string() }));
    }
    let hs: Vec<(&str, &str)> = headers.iter().map(|(k, v)| (k.as_str(), v.as_str())).collect();
    app::request(&r.method, &path, &hs, e.exp.sample_body.as_bytes())
}

fn send(router: &VerifRouter, raw: &[u8]) -> (Outcome, Vec<(&'static str, Vec<String>)>) {
    hits_take();
    let o = app::oneshot(router, raw);
    (o, hits_take())
}

/* ------------------------------------------------------------------------------------------------
   one application
------------------------------------------------------------------------------------------------ */

fn token() -> String {
    thread_local! { static TOKEN: String = jwt().issue(Claims { sub: "c15".into(), exp: app::CLOCK + 100_000 }).to_string(); }
    TOKEN.with(|t| t.clone())
}

fn op_excerpt(op: &Value) -> Value {
    let mut o = op.clone();
    if let Some(m) = o.as_object_mut() { for k in ["description", "summary", "externalDocs"] { m.remove(k); } }
    o
}

pub fn check_app(ctx: &mut Ctx, app: &AppD, shape: &str) {
    let (apps, flat) = flatten(app);
    let key = serde_json::to_string(app).unwrap();
    ctx.distinct_key(&key);
    let wit = |extra: Value| { let mut w = json!({"app": app, "shape": shape}); if let (Some(w), Some(e)) = (w.as_object_mut(), extra.as_object()) { for (k, v) in e { w.insert(k.clone(), v.clone()); } } w };

    // ---- preconditions of the statement (restrict the generator, never checked on the subject) ----
    // (1) two registrations for the same method that differ only in param names denote the same URL space twice; the
    //     framework refuses them when they meet in one registration call, but not always across a mount
    for (i, r) in flat.iter().enumerate() {
        if flat[..i].iter().any(|x| x.method == r.method && norm(&x.segs) == norm(&r.segs)) {
            ctx.skip(); *ctx.outcomes.entry("skipped:same-route-twice-modulo-param-names".into()).or_insert(0) += 1; return
        }
    }
    // (2) a handler behind both a JWT and a BasicAuth fang cannot be reached by any request (one Authorization header)
    for r in &flat {
        let mut kinds: BTreeSet<&str> = guards(&apps, r).iter().map(|(f, _)| f.kind()).collect();
        kinds.extend(foreign_auth(&apps, &flat, r).iter().map(|f| f.kind()));
        if kinds.len() > 1 { ctx.skip(); *ctx.outcomes.entry("skipped:needs-bearer-and-basic-at-once".into()).or_insert(0) += 1; return }
    }

    // ---- build (registration may reject the description: outside the quantifier) ----
    let built = guarded(|| ohkami_of(app));
    let o = match built {
        Ok(o) => o,
        Err(p) => { ctx.skip(); *ctx.outcomes.entry(format!("skipped:rejected-at-registration:{}", panic_kind(&p))).or_insert(0) += 1; return }
    };
    ctx.states += 1;

    // ---- the document, by the real generator ----
    let bytes = match guarded(|| o.__openapi_document_bytes__(openapi::OpenAPI { title: "c15", version: "0.0.1", servers: &[] })) {
        Ok(b) => b,
        Err(p) => {
            // finalize rejects handlers that take more params than the route has: such applications are outside the quantifier
            if p.contains("requires") && p.contains("path param") { ctx.skip(); *ctx.outcomes.entry("skipped:rejected-at-finalize".into()).or_insert(0) += 1; ctx.states -= 1; return }
            ctx.violation(&format!("C15/generator-panic/{}", panic_kind(&p)), true, || wit(json!({"panic": p}))); return
        }
    };
    ctx.traces_validated += 1;
    let doc: Value = match serde_json::from_slice(&bytes) {
        Ok(v) => v,
        Err(e) => { ctx.violation("C15/malformed-json/document", true, || wit(json!({"error": e.to_string(), "bytes": crate::core::esc(&bytes[..bytes.len().min(400)])}))); return }
    };
    ctx.transitions += 1;
    let mut app_ok = true;
    for (ptr, what) in [("/openapi", "openapi"), ("/info/title", "info.title"), ("/info/version", "info.version")] {
        ctx.transitions += 1;
        if doc.pointer(ptr).and_then(Value::as_str).map_or(true, |s| s.is_empty() || (what == "openapi" && !s.starts_with("3."))) {
            app_ok = false;
            ctx.violation(&format!("C15/document-field/{what}"), true, || wit(json!({"observed": doc.pointer(ptr)})));
        }
    }
    let Some(paths) = doc.get("paths").and_then(Value::as_object) else {
        ctx.violation("C15/document-field/paths", true, || wit(json!({"observed": doc.get("paths")}))); return
    };

    // ---- the router of the same Ohkami (what `howl` serves with) ----
    let router = match guarded(|| VerifRouter::from(o)) {
        Ok(r) => r,
        Err(p) => { ctx.violation(&format!("C15/finalize-panic/{}", panic_kind(&p)), true, || wit(json!({"panic": p}))); return }
    };
    let token = token();

    // ---- expected table ----
    let mut expected: BTreeMap<String, BTreeMap<String, usize>> = BTreeMap::new();
    for (i, r) in flat.iter().enumerate() { expected.entry(template(&r.segs)).or_default().insert(r.method.to_ascii_lowercase(), i); }
    let shared_param_node = {
        let mut seen: HashMap<Vec<String>, BTreeSet<Vec<String>>> = HashMap::new();
        for r in &flat { for k in 1..=r.segs.len() { seen.entry(norm(&r.segs[..k])).or_default().insert(r.segs[..k].to_vec()); } }
        seen.values().any(|v| v.len() > 1)
    };

    // ---- path / method sets ----
    for (tpl, item) in paths {
        ctx.transitions += 1;
        let ops: Vec<(&String, &Value)> = item.as_object().map(|m| m.iter().filter(|(k, _)| ["get", "put", "post", "patch", "delete", "options", "head", "trace"].contains(&k.as_str())).collect()).unwrap_or_default();
        match expected.get(tpl) {
            None => {
                app_ok = false;
                ctx.violation(&format!("C15/path-extra/unknown-route:{}p", template_params(tpl).len()), true, || wit(json!({"path": tpl, "documented_methods": ops.iter().map(|(m, _)| m.as_str()).collect::<Vec<_>>(), "route_table": expected.keys().collect::<Vec<_>>()})));
                // a request built from it must still reach a handler
                for (m, op) in &ops {
                    if let Ok(b) = build_from_document(&doc, tpl, &m.to_ascii_uppercase(), op, true, &token) {
                        ctx.transitions += 1;
                        let (out, hits) = send(&router, &b.raw);
                        if hits.is_empty() { ctx.violation("C15/unreachable/unknown-route", true, || wit(json!({"path": tpl, "method": m, "request": b.text, "observed": out.kind()}))) }
                    }
                }
            }
            Some(ms) => for (m, _) in &ops {
                ctx.transitions += 1;
                if !ms.contains_key(m.as_str()) {
                    app_ok = false;
                    let feat = route_feature(&apps, &flat[*ms.values().next().unwrap()]);
                    ctx.violation(&format!("C15/method-extra/{feat}"), true, || wit(json!({"path": tpl, "method": m, "registered": ms.keys().collect::<Vec<_>>()})));
                }
            },
        }
    }

    // ---- every registered (route, method) ----
    let mut all_reached: BTreeSet<String> = BTreeSet::new();
    for (tpl, ms) in &expected {
        for (m, &fi) in ms {
            let r = &flat[fi];
            let Some(e) = entry(&r.h) else { ctx.machinery_error(format!("C15: description names unknown handler {}", r.h)); return };
            let feat = route_feature(&apps, r);
            let tparams = template_params(tpl);
            let fewer = e.n_params() < tparams.len();
            let pf = if fewer { format!("fewer-params:{}of{}", e.n_params(), tparams.len()) } else { e.id.to_string() };
            let hid = e.id;
            let gs = guards(&apps, r);
            let placement = gs.iter().map(|(_, p)| p.as_str()).collect::<Vec<_>>().join("+");
            let collision = fewer || shared_param_node || feat.ends_with("+param-mount");
            let mut problems: Vec<(String, Value)> = vec![];
            ctx.transitions += 1;

            let op = paths.get(tpl).and_then(|it| it.get(m));
            let Some(op) = op else {
                app_ok = false;
                let rule = if paths.contains_key(tpl) { "method-missing" } else { "path-missing" };
                ctx.violation(&format!("C15/{rule}/{feat}"), true, || wit(json!({"path": tpl, "method": m, "h": e.id, "route": route_str(&r.segs), "documented_paths": paths.keys().collect::<Vec<_>>()})));
                // is the handler reachable?  then it is an undocumented reachable handler
                let raw = build_from_description(&apps, r, e, &token);
                ctx.transitions += 1;
                let (out, hits) = send(&router, &raw);
                if hits.iter().any(|(id, _)| *id == e.id) {
                    ctx.violation(&format!("C15/undocumented/{feat}"), true, || wit(json!({"path": tpl, "method": m, "h": e.id, "request": crate::core::esc(&raw), "observed": out.kind()})));
                }
                continue
            };
            let op_ptr = format!("/paths/{}/{}", esc_ptr(tpl), m);

            // (a) path parameters
            let params: Vec<&Value> = op.get("parameters").and_then(Value::as_array).map(|a| a.iter().collect()).unwrap_or_default();
            let declared: Vec<(String, bool)> = params.iter().filter(|p| p["in"] == "path").map(|p| (p["name"].as_str().unwrap_or("<no name>").to_string(), p["required"] == true)).collect();
            ctx.transitions += 4;
            for t in &tparams { if !declared.iter().any(|(n, _)| n == t) { problems.push((format!("param-undeclared/{pf}"), json!({"undeclared": t}))) } }
            for (n, _) in &declared { if !tparams.contains(n) { problems.push((format!("param-extra/{pf}"), json!({"extra": n}))) } }
            for (n, req) in &declared { if tparams.contains(n) && !req { problems.push((format!("param-not-required/{pf}"), json!({"param": n}))) } }
            {
                let d: Vec<&String> = declared.iter().map(|(n, _)| n).filter(|n| tparams.contains(n)).collect();
                let t: Vec<&String> = tparams.iter().filter(|t| d.contains(t)).collect();
                let mut dd = d.clone(); dd.dedup();
                if dd != t { problems.push((format!("param-order/{pf}"), json!({"declared": d, "template": tparams}))) }
            }
            for p in &params { if !(p["in"] == "path" || p["in"] == "query") { problems.push((format!("param-extra/{hid}"), json!({"extra": p}))) } }

            // (b) query parameters
            ctx.transitions += 1;
            let got_q: BTreeSet<(String, bool)> = params.iter().filter(|p| p["in"] == "query").map(|p| (p["name"].as_str().unwrap_or("<no name>").to_string(), p["required"] == true)).collect();
            let want_q: BTreeSet<(String, bool)> = e.exp.query.iter().map(|(n, r)| (n.to_string(), *r)).collect();
            if got_q != want_q { problems.push((format!("query/{hid}"), json!({"documented": got_q, "expected": want_q}))) }

            // (c) request body
            ctx.transitions += 1;
            let got_b: BTreeSet<String> = op.pointer("/requestBody/content").and_then(Value::as_object).map(|c| c.keys().map(|k| media(k)).collect()).unwrap_or_default();
            let want_b: BTreeSet<String> = e.exp.body.iter().map(|s| s.to_string()).collect();
            if got_b != want_b || (op.get("requestBody").is_some() != e.exp.body.is_some()) { problems.push((format!("body/{hid}"), json!({"documented": got_b, "expected": want_b}))) }

            // (d) responses
            ctx.transitions += 1;
            let got_r: BTreeSet<(String, Option<String>)> = op.get("responses").and_then(Value::as_object).map(|rs| rs.iter().flat_map(|(st, r)| {
                let mts: Vec<Option<String>> = r.get("content").and_then(Value::as_object).map(|c| c.keys().map(|k| Some(media(k))).collect()).unwrap_or_default();
                if mts.is_empty() { vec![(st.clone(), None)] } else { mts.into_iter().map(|mt| (st.clone(), mt)).collect() }
            }).collect()).unwrap_or_default();
            let want_r: BTreeSet<(String, Option<String>)> = e.exp.responses.iter().map(|(s, mt)| (s.to_string(), mt.map(str::to_string))).collect();
            if got_r != want_r { problems.push((format!("responses/{hid}"), json!({"documented": got_r, "expected": want_r}))) }

            // (e) security, against the description
            let sec: Vec<&Map<String, Value>> = op.get("security").and_then(Value::as_array).map(|a| a.iter().filter_map(Value::as_object).collect()).unwrap_or_default();
            let documented_sec = sec.iter().any(|m| !m.is_empty());
            let open = !foreign_auth(&apps, &flat, r).is_empty();
            ctx.transitions += 1;
            if !open {
                let sf = if gs.is_empty() { "unguarded" } else { placement.as_str() };
                if !gs.is_empty() && !documented_sec { problems.push((format!("security-missing/{sf}"), json!({"guards": placement}))) }
                if gs.is_empty() && documented_sec { problems.push((format!("security-extra/{sf}"), json!({"documented": op.get("security")}))) }
            }
            // (f) referenced schemes are defined
            for m in &sec { for name in m.keys() {
                ctx.transitions += 1;
                if doc.pointer(&format!("/components/securitySchemes/{}", esc_ptr(name))).map_or(true, |s| !s.is_object()) { problems.push((format!("scheme-undefined/{name}"), json!({"scheme": name}))) }
            } }
            // (g) references
            let mut refs = vec![]; refs_below(op, &mut refs);
            for rf in &refs {
                ctx.transitions += 1;
                if resolve(&doc, rf).is_none() { problems.push((format!("ref-dangling/{hid}"), json!({"ref": rf}))) }
            }
            // (h) schemas (validated by the python half), with the components they reach
            let mut reached: Vec<String> = vec![];
            for (ptr, s) in schemas_of_operation(&op_ptr, op) {
                collect_schema(&s, e.id, &ptr, app, shape);
                let mut stack = vec![s];
                while let Some(x) = stack.pop() {
                    let mut rs = vec![]; refs_below(&x, &mut rs);
                    for rf in rs { if !reached.contains(&rf) { reached.push(rf.clone()); all_reached.insert(rf.clone()); if let Some(t) = resolve(&doc, &rf) { collect_schema(t, e.id, rf.trim_start_matches('#'), app, shape); stack.push(t.clone()); } } }
                }
            }

            // (i) a request built from the document reaches this handler
            let mut unbuildable: Option<String> = None;
            match build_from_document(&doc, tpl, &r.method, op, true, &token) {
                Err(why) => unbuildable = Some(why),
                Ok(b) => {
                    ctx.transitions += 1;
                    let (out, hits) = send(&router, &b.raw);
                    let reached_h = hits.iter().any(|(id, _)| *id == e.id);
                    match &out {
                        Outcome::Response { .. } => {}
                        other => problems.push((format!("request-broken/{}", other.kind()), json!({"request": b.text}))),
                    }
                    let status = out.status().unwrap_or(0);
                    if reached_h {
                        // self-check of the hand-written expectation record: the status the handler really answers is one it lists
                        let in_record = e.exp.responses.iter().any(|(s, _)| *s == status.to_string());
                        let in_doc = op.get("responses").and_then(Value::as_object).map_or(false, |rs| rs.contains_key(&status.to_string()) || rs.contains_key("default"));
                        ctx.transitions += 1;
                        if !in_doc && !in_record {
                            // document and record agree with each other, the application answers something else
                            problems.push((format!("responses/{hid}:answers-undocumented-status"), json!({"request": b.text, "answered": status, "documented": got_r})));
                        } else if in_doc && !in_record {
                            ctx.machinery_error(format!("C15: catalogue record of {} lists {:?} but the handler answered {status}, which the document lists", e.id, e.exp.responses.iter().map(|x| x.0).collect::<Vec<_>>()));
                        }
                        if documented_sec {
                            // the documented requirement must be a real one: the same request without credentials does not get through
                            if let Ok(nb) = build_from_document(&doc, tpl, &r.method, op, false, &token) {
                                ctx.transitions += 1;
                                let (out2, hits2) = send(&router, &nb.raw);
                                if hits2.iter().any(|(id, _)| *id == e.id) {
                                    problems.push((format!("security-extra/not-enforced:{}", if placement.is_empty() { "unguarded" } else { &placement }), json!({"request": nb.text, "observed": out2.kind()})));
                                }
                            }
                        }
                    } else if !documented_sec && status == 401 {
                        problems.push((format!("security-missing/enforced:{}", if placement.is_empty() { "unguarded" } else { &placement }), json!({"request": b.text, "observed": out.kind()})));
                    } else {
                        let other: Vec<&str> = hits.iter().map(|(id, _)| *id).collect();
                        problems.push((format!("unreachable/{hid}:{}", if other.is_empty() { status.to_string() } else { "other-handler".into() }), json!({"request": b.text, "observed": out.kind(), "handlers_run": other})));
                    }
                }
            }

            if problems.is_empty() {
                match unbuildable {
                    Some(why) => { ctx.skip(); *ctx.outcomes.entry(format!("skipped:request-not-buildable:{}", why.split('`').nth(1).map(|t| format!("type-{t}")).unwrap_or_else(|| "other".into()))).or_insert(0) += 1; }
                    None if open => ctx.ambiguous(&format!("security-of-node-shared-with-a-foreign-mount:{}", if documented_sec { "documented" } else { "absent" })),
                    None => ctx.pass(&format!("op:{feat}:{}:{}:{}", if fewer { "fewer" } else { "all-params" }, e.exp.body.map(media).unwrap_or_else(|| "-".into()), if documented_sec { placement.as_str() } else { "open" }), true, collision),
                }
            } else {
                app_ok = false;
                for (cls, detail) in problems {
                    ctx.violation(&format!("C15/{cls}"), true, || wit(json!({"path": tpl, "method": m, "h": e.id, "route": route_str(&r.segs), "detail": detail, "operation": op_excerpt(op)})));
                }
            }
        }
    }

    // ---- components: orphan schemas are validated too; dangling refs inside components ----
    if let Some(cs) = doc.pointer("/components/schemas").and_then(Value::as_object) {
        for (name, s) in cs {
            let ptr = format!("/components/schemas/{}", esc_ptr(name));
            if !all_reached.contains(&format!("#{ptr}")) { collect_schema(s, &format!("component:{name}"), &ptr, app, shape) }
            let mut refs = vec![]; refs_below(s, &mut refs);
            for rf in refs { ctx.transitions += 1; if resolve(&doc, &rf).is_none() { app_ok = false; ctx.violation(&format!("C15/ref-dangling/component:{name}"), true, || wit(json!({"ref": rf}))) } }
        }
    }
    if app_ok { ctx.pass(&format!("app:{}:{}routes", shape.trim_end_matches(|c: char| c.is_ascii_digit()), flat.len().min(4)), flat.len() > 1 || !apps.iter().all(|a| a.fangs.is_empty()), false) }
    ctx.sample(|| json!({"app": app, "shape": shape, "document_paths": paths.keys().collect::<Vec<_>>()}));
}

/* ------------------------------------------------------------------------------------------------
   enumeration
------------------------------------------------------------------------------------------------ */

pub fn all_routes(max_depth: usize) -> Vec<Vec<String>> {
    let mut out = vec![vec![]];
    let mut frontier: Vec<Vec<String>> = vec![vec![]];
    for _ in 0..max_depth {
        let mut next = vec![];
        for r in &frontier { for s in SEGS {
            // a param name is used once per route (it becomes `{name}` in the template)
            if is_param(s) && r.iter().any(|x| x == s) { continue }
            let mut n = r.clone(); n.push(s.to_string()); next.push(n);
        } }
        out.extend(next.iter().cloned());
        frontier = next;
    }
    out
}

fn n_params(segs: &[String]) -> usize { segs.iter().filter(|s| is_param(s)).count() }

/// deterministic rotation through the catalogue entries that fit (route, method)
struct Rot { k: usize }
impl Rot {
    fn pick(&mut self, segs: &[String], method: &str) -> &'static Entry {
        let np = n_params(segs);
        let fit: Vec<&'static Entry> = entries().iter().filter(|e| e.n_params() <= np && (e.exp.body.is_none() || matches!(method, "POST" | "PUT" | "PATCH"))).collect();
        // prefer entries that take all params two times out of three, so that both families are frequent
        let full: Vec<&'static Entry> = fit.iter().copied().filter(|e| e.n_params() == np).collect();
        self.k += 1;
        if self.k % 3 != 0 && !full.is_empty() { full[(self.k / 3 * 2 + self.k % 3) % full.len()] } else { fit[self.k % fit.len()] }
    }
}

fn convert(a: &appgen::AppDesc, assign: &HashMap<String, String>) -> AppD {
    AppD { fangs: vec![], items: a.items.iter().map(|it| match it {
        appgen::ItemDesc::Route { path, methods } => ItemD::Route { path: path.clone(), methods: methods.iter().map(|m| MethD { method: m.method.clone(), h: assign[&m.hid].clone(), local: vec![] }).collect() },
        appgen::ItemDesc::Mount { prefix, app } => ItemD::Mount { prefix: prefix.clone(), app: convert(app, assign) },
        appgen::ItemDesc::Inline { app } => ItemD::Inline { app: convert(app, assign) },
    }).collect() }
}

/// every declaration shape (and registration order) of a route set, with handlers assigned once per (route, method)
fn shaped(set: &[c01::RouteSpec], rot: &mut Rot, all_orders: bool) -> Vec<(String, AppD)> {
    let mut assign: HashMap<String, String> = HashMap::new();
    for r in set { for m in &r.methods { assign.insert(format!("{m} {}", route_str(&r.segs)), rot.pick(&r.segs, m).id.to_string()); } }
    let mut out = vec![];
    for (name, desc) in c01::shapes(set) {
        let orders = c01::orders(&desc, all_orders);
        let n = orders.len();
        for (oi, d) in orders.into_iter().enumerate() {
            if !all_orders && oi > 0 && oi + 1 != n { continue }
            out.push((format!("{name}#{oi}"), convert(&d, &assign)));
        }
    }
    out
}

/// resident set size in MiB (the framework leaks every finalized router by design: ~40 KiB per application)
fn rss_mib() -> u64 {
    std::fs::read_to_string("/proc/self/statm").ok().and_then(|s| s.split_whitespace().nth(1).and_then(|p| p.parse::<u64>().ok())).map(|pages| pages * 4096 / (1 << 20)).unwrap_or(0)
}

/// Sharding unit = a group of applications generated together (a route with all its handlers, a route set with all its
/// shapes and orders, ...).  `enter` returns None when the enumeration must stop (wall or memory cap: the run is capped),
/// Some(false) when the unit belongs to another worker.  The handler rotation is seeded by the unit number, so that a
/// worker does not have to generate the units it skips.
struct Units { n: usize, rss_cap: u64 }
impl Units {
    fn enter(&mut self, ctx: &mut Ctx) -> Option<(bool, Rot)> {
        self.n += 1;
        let rot = Rot { k: self.n.wrapping_mul(7) };
        if !ctx.mine() { return Some((false, rot)) }
        if ctx.out_of_time() { return None }
        if rss_mib() > self.rss_cap { ctx.capped = true; ctx.extra.insert("capped_by".into(), json!(format!("resident set above {} MiB", self.rss_cap))); return None }
        Some((true, rot))
    }
}

fn with_fangs(base: &AppD, rf: &[FangD], child: Option<(usize, &[FangD])>, local: Option<(usize, &[FangD])>) -> AppD {
    let mut a = base.clone();
    a.fangs = rf.to_vec();
    if let Some((ci, cf)) = child {
        let mut seen = 0usize;
        for it in a.items.iter_mut() { if let ItemD::Mount { app, .. } = it { if seen == ci { app.fangs = cf.to_vec() } seen += 1 } }
    }
    if let Some((li, lf)) = local { let mut seen = 0usize; set_local(&mut a, li, lf, &mut seen) }
    a
}

pub fn run(ctx: &mut Ctx) {
    app::pin_clock();
    let quick = ctx.quick();
    let mut units = Units { n: 0, rss_cap: std::env::var("VERIF_RSS_CAP_MB").ok().and_then(|s| s.parse().ok()).unwrap_or(2500) };
    let spec = |segs: &Vec<String>, ms: &[&str]| c01::RouteSpec { segs: segs.clone(), methods: ms.iter().map(|s| s.to_string()).collect() };
    let depth_a = 3;
    'all: {
        // ---- A: every catalogue signature on every single route it fits (flat and under a one-segment mount) ----
        let mut k = 0usize;
        // (plus routes capturing three params - a third name `:r` -: the template's `{name}`s are then more than the two the
        //  request's param store keeps)
        let three: Vec<Vec<String>> = [vec![":p", ":q", ":r"], vec!["a", ":p", ":q", ":r"], vec![":p", "a", ":q", "b", ":r"]].iter().map(|r| r.iter().map(|s| s.to_string()).collect()).collect();
        for route in all_routes(depth_a).into_iter().chain(three) {
            let Some((mine, _)) = units.enter(ctx) else { break 'all };
            for e in entries() {
                if e.n_params() > n_params(&route) { continue }
                let method = if e.exp.body.is_some() { ["POST", "PUT", "PATCH"][k % 3] } else { ["GET", "DELETE", "GET", "POST"][k % 4] };
                k += 1;
                if !mine { continue }
                let m = MethD { method: method.into(), h: e.id.into(), local: vec![] };
                check_app(ctx, &AppD { fangs: vec![], items: vec![ItemD::Route { path: route_str(&route), methods: vec![m.clone()] }] }, "single:flat");
                if !route.is_empty() {
                    let child = AppD { fangs: vec![], items: vec![ItemD::Route { path: route_str(&route[1..]), methods: vec![m] }] };
                    check_app(ctx, &AppD { fangs: vec![], items: vec![ItemD::Mount { prefix: format!("/{}", route[0]), app: child }] }, "single:mount1");
                }
            }
        }
        // every non-empty method subset on one static and one param route
        for route in [vec!["a".to_string()], vec![":p".to_string(), "b".to_string()]] {
            for mask in 1u32..32 {
                let Some((mine, mut rot)) = units.enter(ctx) else { break 'all };
                if !mine { continue }
                let ms: Vec<&str> = METHODS.iter().enumerate().filter(|(i, _)| mask & (1 << i) != 0).map(|(_, m)| *m).collect();
                let methods = ms.iter().map(|m| MethD { method: m.to_string(), h: rot.pick(&route, m).id.into(), local: vec![] }).collect();
                check_app(ctx, &AppD { fangs: vec![], items: vec![ItemD::Route { path: route_str(&route), methods }] }, "single:method-subset");
            }
        }

        // ---- B: route sets x method assignments x declaration shapes x registration orders ----
        let assignments2: &[[&[&str]; 2]] = if quick { &[[&["GET"], &["GET"]], [&["GET"], &["POST"]], [&["GET", "POST"], &["GET"]]] }
            else { &[[&["GET"], &["GET"]], [&["GET"], &["POST"]], [&["GET", "POST"], &["GET"]], [&["GET"], &["GET", "POST"]], [&["GET", "POST"], &["GET", "POST"]]] };
        let routes2 = all_routes(3);
        for combo in combinations(routes2.len(), 2) {
            for asg in assignments2 {
                let Some((mine, mut rot)) = units.enter(ctx) else { break 'all };
                if !mine { continue }
                let set = vec![spec(&routes2[combo[0]], asg[0]), spec(&routes2[combo[1]], asg[1])];
                for (name, a) in shaped(&set, &mut rot, !quick) { check_app(ctx, &a, &format!("pair:{name}")) }
            }
        }
        if !quick {
            let routes3 = all_routes(2);
            let assignments3: [[&[&str]; 3]; 3] = [[&["GET"], &["GET"], &["GET"]], [&["GET"], &["POST"], &["GET"]], [&["GET", "POST"], &["GET"], &["POST"]]];
            for combo in combinations(routes3.len(), 3) {
                for asg in &assignments3 {
                    let Some((mine, mut rot)) = units.enter(ctx) else { break 'all };
                    if !mine { continue }
                    let set: Vec<c01::RouteSpec> = (0..3).map(|i| spec(&routes3[combo[i]], asg[i])).collect();
                    for (name, a) in shaped(&set, &mut rot, false) { check_app(ctx, &a, &format!("triple:{name}")) }
                }
            }
            // triples that reach depth 3: flat, first-segment mounts, nested mounts; first registration order
            let routes3d = all_routes(3);
            for combo in combinations(routes3d.len(), 3) {
                if combo.iter().all(|&i| routes3d[i].len() < 3) { continue }
                let Some((mine, mut rot)) = units.enter(ctx) else { break 'all };
                if !mine { continue }
                let set: Vec<c01::RouteSpec> = (0..3).map(|i| spec(&routes3d[combo[i]], if i == 1 { &["POST"] } else { &["GET"] })).collect();
                for (name, a) in shaped(&set, &mut rot, false) {
                    if !name.ends_with("#0") { continue }
                    check_app(ctx, &a, &format!("triple3:{name}"));
                }
            }
        }

        // ---- C: tags and authentication fangs at root / on a mounted child / local to one handler ----
        let t = |s: &str| FangD::Tag(s.into());
        let root_fangs: Vec<Vec<FangD>> = vec![vec![], vec![t("t0")], vec![FangD::Jwt], vec![FangD::Basic], vec![t("t0"), FangD::Jwt], vec![FangD::Basic, t("t0")], vec![FangD::BasicArr], vec![FangD::JwtKey]];
        let child_fangs: Vec<Vec<FangD>> = vec![vec![], vec![t("t1")], vec![FangD::Jwt], vec![FangD::Basic], vec![t("t1"), FangD::Jwt], vec![FangD::BasicArr], vec![FangD::JwtKey]];
        let local_fangs: Vec<Vec<FangD>> = vec![vec![], vec![FangD::Jwt], vec![FangD::Basic], vec![FangD::JwtKey]];
        let routes_c = all_routes(2);
        let mut sets_c: Vec<Vec<c01::RouteSpec>> = vec![];
        for r in &routes_c { sets_c.push(vec![spec(r, &["GET", "POST"])]) }
        for combo in combinations(routes_c.len(), 2) {
            let (x, y) = (&routes_c[combo[0]], &routes_c[combo[1]]);
            if quick && x.len() + y.len() > 3 { continue }
            sets_c.push(vec![spec(x, &["GET"]), spec(y, &["POST"])]);
            if !quick { sets_c.push(vec![spec(x, &["GET"]), spec(y, &["GET"])]) }
        }
        for set in &sets_c {
            let Some((mine, mut rot)) = units.enter(ctx) else { break 'all };
            if !mine { continue }
            for (name, base) in shaped(set, &mut rot, false) {
                if !(name == "flat#0" || name == "mount1#0" || name == "nested#0" || name == "mount2#0" || (!quick && name == "split-mount#0")) { continue }
                let n_children = base.items.iter().filter(|i| matches!(i, ItemD::Mount { .. })).count();
                let n_methods = flatten(&base).1.len();
                let shape = format!("fangs:{}", name.trim_end_matches("#0"));
                for rf in &root_fangs { for cf in &child_fangs { for lf in &local_fangs {
                    if rf.is_empty() && cf.is_empty() && lf.is_empty() { continue }
                    if n_children == 0 && !cf.is_empty() { continue }
                    // which child / which handler carries the fang: the first one (quick), each in turn (thorough)
                    let child_choices: Vec<usize> = if cf.is_empty() || quick { vec![0] } else { (0..n_children).collect() };
                    let local_choices: Vec<usize> = if lf.is_empty() || quick { vec![0] } else { (0..n_methods).collect() };
                    for &ci in &child_choices { for &li in &local_choices {
                        check_app(ctx, &with_fangs(&base, rf, Some((ci, cf.as_slice())), Some((li, lf.as_slice()))), &shape);
                    } }
                } } }
            }
        }
        // ---- C2 (thorough): deep pairs under mounts whose applications carry fangs (lookups across mount boundaries, which are
        //      never compressed away once the fang lists differ) ----
        if !quick {
            let routes_d = all_routes(3);
            for combo in combinations(routes_d.len(), 2) {
                if routes_d[combo[0]].len() < 3 && routes_d[combo[1]].len() < 3 { continue }
                let Some((mine, mut rot)) = units.enter(ctx) else { break 'all };
                if !mine { continue }
                let set = vec![spec(&routes_d[combo[0]], &["GET"]), spec(&routes_d[combo[1]], &["GET", "POST"])];
                for (name, base) in shaped(&set, &mut rot, false) {
                    if !(name == "mount1#0" || name == "nested#0" || name == "mount2#0") { continue }
                    let n_children = base.items.iter().filter(|i| matches!(i, ItemD::Mount { .. })).count();
                    let shape = format!("fangs-deep:{}", name.trim_end_matches("#0"));
                    for rf in [vec![], vec![t("t0")]] { for cf in [vec![t("t1")], vec![FangD::Jwt], vec![FangD::Basic, t("t1")]] { for ci in 0..n_children {
                        check_app(ctx, &with_fangs(&base, &rf, Some((ci, cf.as_slice())), None), &shape);
                    } } }
                }
            }
        }
    }

    dump_schemas(ctx);
    ctx.extra.insert("sum_sharding_units".into(), json!(if ctx.shard == 0 { units.n } else { 0 }));
    ctx.extra.insert("max_rss_mib".into(), json!(rss_mib()));
    ctx.extra.insert("rule".into(), json!("one case = one check of one (application, route, method): the operation's path parameters, query parameters, request body, response statuses, security requirement, references and the request built from the documented operation (plus one case per application for the path/method sets; python adds one case per distinct schema object x signature for Draft 2020-12 validity).  Applications are assembled at run time from a description (route set x method assignment x catalogue handler per (route, method) x declaration shape x registration order x tag / JWT / BasicAuth placement); the document comes from the real Ohkami::__openapi_document_bytes__, requests go through the real Request::read / Router::handle / Response::send of the same Ohkami.  non-trivial = every operation case; collision = the handler takes fewer path params than the route has, or two routes of the application share a param node under different names (`:p` / `:q`), or the route lies under a mount whose prefix has a param (the three situations in which the template's `{name}`s and the operation's parameters are produced by different code)"));
    ctx.extra.insert("bounds".into(), json!({
        "segments": SEGS, "param names": "distinct within a route", "catalogue": entries().iter().map(|e| e.id).collect::<Vec<_>>(),
        "A single route": format!("every catalogue handler on every route of depth <= {depth_a} it fits (params <= route params), flat and under a first-segment mount; all 31 method subsets on /a and /:p/b"),
        "B route sets": if quick { "all pairs over depth <= 3 x 3 method assignments x all C01 declaration shapes x first and last registration order" } else { "all pairs over depth <= 3 x 5 method assignments x all shapes x all orders; triples over depth <= 2 x 3 assignments x all shapes x 3 orders; all triples over depth <= 3 that reach depth 3 x all shapes, first order" },
        "B handlers": "one catalogue handler per (route, method), rotating deterministically (seeded by the unit number) through the entries that fit (body extractors only on POST/PUT/PATCH)",
        "C fangs": format!("route sets of size <= 2 over depth <= 2 ({}) x shapes flat/mount1/mount2/nested{} x root fangs {{-, Tag, JWT, Basic, Tag+JWT, Basic+Tag, [Basic;2], JWT-with-custom-token-source (cloned)}} x child fangs {{-, Tag, JWT, Basic, Tag+JWT, [Basic;2], JWT-custom}} ({}) x local fang {{-, JWT, Basic, JWT-custom}} ({}); chains that would need both a Bearer and a Basic Authorization header are generated but skipped (counted)", if quick { "pairs: total depth <= 3" } else { "all" }, if quick { "" } else { "/split-mount" }, if quick { "first child" } else { "each child in turn" }, if quick { "first handler" } else { "each handler in turn" }),
        "C2 deep fangs": if quick { "-" } else { "pairs reaching depth 3 x shapes mount1/mount2/nested x root {-, Tag} x child {Tag, JWT, Basic+Tag} on each child in turn" },
        "requests": "one per documented operation built from the document (path values by documented type, required query params, minimal body of required members, Authorization per the first security requirement); one more without credentials when a requirement is documented; one built from the description for every registered pair the document lacks",
    }));
}

fn set_local(a: &mut AppD, target: usize, lf: &[FangD], seen: &mut usize) {
    for it in a.items.iter_mut() {
        match it {
            ItemD::Route { methods, .. } => for m in methods.iter_mut() { if *seen == target { m.local = lf.to_vec() } *seen += 1 },
            ItemD::Mount { app, .. } | ItemD::Inline { app } => set_local(app, target, lf, seen),
        }
    }
}

pub fn replay(ctx: &mut Ctx, case: &Value) {
    app::pin_clock();
    let app: AppD = match serde_json::from_value(case["app"].clone()) {
        Ok(a) => a,
        Err(e) => { ctx.machinery_error(format!("C15 replay: the witness has no readable `app`: {e}")); return }
    };
    check_app(ctx, &app, case["shape"].as_str().unwrap_or("replay"));
    dump_schemas(ctx);
}
