//! C09 — URL-encoded serialization round-trips and decodes per percent-encoding rules (DESIGN §5 C09).
//!
//! Part 1 (values): for every value `v` of every shape's finite domain
//!     (R) `from_bytes(to_string(v)) == v` whenever `to_string` accepts `v`                     [the statement]
//!     (E) reference-decode(to_string(v)) == reference pairs of v                               [localises: encoder]
//!     (D) `from_bytes(reference-encode(reference pairs of v)) == v`                            [statement, 2nd sentence]
//! Part 2 (texts): every `k=v&...` text of at most N pairs over 4 keys x 9 percent-escaped values is decoded into
//!     six targets through `from_bytes`, through `Request.query.parse` and through `Request.query.iter`, and
//!     compared with split-on-&/= + RFC 3986 percent-decoding (harness/src/refmodel/urlenc.rs).
//! Values are compared through their `Debug` rendering (bitwise for floats except NaN payloads).
#![allow(dead_code)] // the text targets are only read through their Debug rendering
use crate::core::{esc, guarded, unesc, Ctx, Tier};
use crate::exec::{Driver, RunResult};
use crate::refmodel::urlenc as refenc;
use crate::sio::ScriptedReader;
use ohkami::__verif__::RawConn;
use ohkami_lib::serde_urlencoded::{from_bytes, to_string};
use serde::de::DeserializeOwned;
use serde::{Deserialize, Serialize};
use serde_json::{json, Value};
use std::collections::BTreeMap;
use std::fmt::Debug;

fn slug(msg: &str) -> String {
    let head = msg.split(" @ ").next().unwrap_or(msg).lines().next().unwrap_or("");
    let mut out = String::new();
    let mut dash = true;
    for c in head.chars() {
        let c = if c.is_ascii_digit() { '#' } else { c };
        if c.is_ascii_alphanumeric() || c == '#' { if c == '#' && out.ends_with('#') { continue } out.push(c); dash = false }
        else if !dash { out.push('-'); dash = true }
        if out.len() >= 70 { break }
    }
    while out.ends_with('-') { out.pop(); }
    if out.is_empty() { "unknown".into() } else { out }
}

/* =====================================================================================================
   Part 1 — values
   ===================================================================================================== */

/// plain text of a scalar-like value (what a reference encoder would put after `key=`), None = not scalar-like
pub trait Plain { fn plain(&self) -> Option<String>; }
/// the first feature of a value that a known shortcut of the codec is sensitive to (class id component)
pub trait Hazard { fn hazard(&self) -> Option<&'static str>; }

macro_rules! plain_display { ($($t:ty),*) => { $( impl Plain for $t { fn plain(&self) -> Option<String> { Some(self.to_string()) } }
    impl Hazard for $t { fn hazard(&self) -> Option<&'static str> { None } } )* } }
plain_display!(bool, i8, i16, i32, i64, u8, u16, u32, u64);
impl Plain for f32 { fn plain(&self) -> Option<String> { Some(self.to_string()) } }
impl Plain for f64 { fn plain(&self) -> Option<String> { Some(self.to_string()) } }
impl Hazard for f32 { fn hazard(&self) -> Option<&'static str> { (*self as f64).hazard() } }
impl Hazard for f64 {
    fn hazard(&self) -> Option<&'static str> {
        if self.is_nan() { Some("float-nan") } else if self.is_infinite() { Some("float-inf") }
        else if *self == 0.0 && self.is_sign_negative() { Some("float-neg-zero") } else if self.abs() >= 1e30 { Some("float-big") } else { None }
    }
}
impl Plain for char { fn plain(&self) -> Option<String> { Some(self.to_string()) } }
impl Hazard for char {
    fn hazard(&self) -> Option<&'static str> {
        match *self { '&' | '=' => Some("char-delimiter"), '%' => Some("char-percent"), '+' | ',' | '/' | ' ' => Some("char-other-reserved"),
            c if !c.is_ascii() => Some("char-non-ascii"), _ => None }
    }
}
impl Plain for String { fn plain(&self) -> Option<String> { Some(self.clone()) } }
impl Hazard for String { fn hazard(&self) -> Option<&'static str> { None } }
impl Plain for () { fn plain(&self) -> Option<String> { Some(String::new()) } }
impl Hazard for () { fn hazard(&self) -> Option<&'static str> { None } }
impl<T: Plain> Plain for Option<T> { fn plain(&self) -> Option<String> { match self { None => Some(String::new()), Some(t) => t.plain() } } }
impl<T: Hazard + Serialize> Hazard for Option<T> {
    fn hazard(&self) -> Option<&'static str> {
        match self {
            None => None,
            // what matters is whether the inner value is written as the empty section
            Some(t) => if matches!(serde_json::to_value(t), Ok(Value::String(ref s)) if s.is_empty()) || matches!(serde_json::to_value(t), Ok(Value::Array(ref a)) if a.is_empty()) { Some("some-empty") } else { t.hazard() },
        }
    }
}

#[derive(Serialize, Deserialize, Debug, Clone, Copy, PartialEq)]
pub enum E { A, Bb, #[serde(rename = "x-y")] Xy }
impl Plain for E { fn plain(&self) -> Option<String> { Some(match self { E::A => "A", E::Bb => "Bb", E::Xy => "x-y" }.into()) } }
impl Hazard for E { fn hazard(&self) -> Option<&'static str> { if matches!(self, E::Xy) { Some("enum-variant-needs-escape") } else { None } } }

#[derive(Serialize, Deserialize, Debug, Clone, PartialEq)]
pub struct Nt<T>(T);
impl<T: Plain> Plain for Nt<T> { fn plain(&self) -> Option<String> { self.0.plain() } }
impl<T: Hazard> Hazard for Nt<T> { fn hazard(&self) -> Option<&'static str> { self.0.hazard() } }

impl<T: Plain> Plain for Vec<T> { fn plain(&self) -> Option<String> { None } }
impl<T: Plain> Hazard for Vec<T> {
    fn hazard(&self) -> Option<&'static str> {
        // (features are ordered by cause: element type, empty elements, then length / escaping)
        if !self.is_empty() && std::any::type_name::<T>() != std::any::type_name::<String>() { return Some("seq-non-string") }
        // `[""]` and `[]` are both written as the empty section (limit of the comma-joined format, recorded finding);
        // any other empty element is representable (`a=,` / `a=,x` / `a=x,`)
        if self.len() == 1 && self[0].plain().unwrap_or_default().is_empty() { return Some("seq-single-empty-element") }
        if self.iter().any(|e| e.plain().unwrap_or_default().is_empty()) { return Some("seq-empty-element") }
        if self.len() >= 2 { return Some("seq-len2+") }
        if self.len() == 1 {
            let p = self[0].plain().unwrap_or_default();
            if refenc::pct_encode(p.as_bytes()) != p { return Some("seq-len1-escaped-element") }
        }
        None
    }
}
/// a tuple struct with two members (written like a sequence)
#[derive(Serialize, Deserialize, Debug, Clone, PartialEq)] pub struct Ts(u8, u8);
impl Plain for Ts { fn plain(&self) -> Option<String> { None } }
impl Hazard for Ts { fn hazard(&self) -> Option<&'static str> { Some("tuple-struct") } }
impl<A: Plain, B: Plain> Plain for (A, B) { fn plain(&self) -> Option<String> { None } }
impl<A: Plain, B: Plain> Hazard for (A, B) { fn hazard(&self) -> Option<&'static str> { Some("tuple") } }

#[derive(Serialize, Deserialize, Debug, Clone, PartialEq)] pub struct F1<T> { a: T }
#[derive(Serialize, Deserialize, Debug, Clone, PartialEq)] pub struct F2<A, B> { a: A, b: B }
#[derive(Serialize, Deserialize, Debug, Clone, PartialEq)] pub struct F3<A, B, C> { a: A, b: B, c: C }

/// a top-level value: reference pairs (None = not expressible as plain pairs) and hazard
pub trait Top: Serialize + DeserializeOwned + Debug {
    fn ref_pairs(&self) -> Option<Vec<(String, String)>>;
    /// the hazards of the fields, in field order (joined with `+` in the class id)
    fn top_hazard(&self) -> Vec<&'static str>;
    fn trivial(&self) -> bool { false }
}
impl<T: Plain + Hazard + Serialize + DeserializeOwned + Debug> Top for F1<T> {
    fn ref_pairs(&self) -> Option<Vec<(String, String)>> { Some(vec![("a".into(), self.a.plain()?)]) }
    fn top_hazard(&self) -> Vec<&'static str> { self.a.hazard().into_iter().collect() }
}
impl<A: Plain + Hazard + Serialize + DeserializeOwned + Debug, B: Plain + Hazard + Serialize + DeserializeOwned + Debug> Top for F2<A, B> {
    fn ref_pairs(&self) -> Option<Vec<(String, String)>> { Some(vec![("a".into(), self.a.plain()?), ("b".into(), self.b.plain()?)]) }
    fn top_hazard(&self) -> Vec<&'static str> { self.a.hazard().into_iter().chain(self.b.hazard()).collect() }
}
impl<A: Plain + Hazard + Serialize + DeserializeOwned + Debug, B: Plain + Hazard + Serialize + DeserializeOwned + Debug, C: Plain + Hazard + Serialize + DeserializeOwned + Debug> Top for F3<A, B, C> {
    fn ref_pairs(&self) -> Option<Vec<(String, String)>> { Some(vec![("a".into(), self.a.plain()?), ("b".into(), self.b.plain()?), ("c".into(), self.c.plain()?)]) }
    fn top_hazard(&self) -> Vec<&'static str> { self.a.hazard().into_iter().chain(self.b.hazard()).chain(self.c.hazard()).collect() }
}
impl Top for BTreeMap<String, String> {
    fn ref_pairs(&self) -> Option<Vec<(String, String)>> { Some(self.iter().map(|(k, v)| (k.clone(), v.clone())).collect()) }
    fn top_hazard(&self) -> Vec<&'static str> { if self.contains_key("") { vec!["map-empty-key"] } else { vec![] } }
    fn trivial(&self) -> bool { self.is_empty() }
}

/* ---- finite domains ---- */

const CHARS: [char; 12] = ['a', '&', '=', '%', '+', ' ', ',', '/', '\u{e9}', '\u{1F600}', '\n', '\u{1}'];

/// all strings of length 0..=max over CHARS, shortest first (so a longer bound extends the sequence)
fn strings(max: usize) -> Vec<String> {
    let mut out = vec![String::new()];
    let mut prev = vec![String::new()];
    for _ in 0..max {
        let mut next = Vec::with_capacity(prev.len() * CHARS.len());
        for p in &prev { for c in CHARS { let mut s = p.clone(); s.push(c); next.push(s); } }
        out.extend(next.iter().cloned());
        prev = next;
    }
    out
}
fn opt<T: Clone>(v: &[T]) -> Vec<Option<T>> { std::iter::once(None).chain(v.iter().cloned().map(Some)).collect() }
fn seqs<T: Clone>(elems: &[T], max_len: usize) -> Vec<Vec<T>> {
    let mut out = vec![vec![]];
    let mut prev: Vec<Vec<T>> = vec![vec![]];
    for _ in 0..max_len {
        let mut next = Vec::new();
        for p in &prev { for e in elems { let mut s = p.clone(); s.push(e.clone()); next.push(s); } }
        out.extend(next.iter().cloned());
        prev = next;
    }
    out
}
fn f64s() -> Vec<f64> { vec![0.0, -0.0, 1.5, 1e300, f64::MAX, f64::INFINITY, f64::NAN, f64::MIN_POSITIVE, -2.5e-8] }
fn f32s() -> Vec<f32> { vec![0.0, -0.0, 1.5, 1e30, f32::MAX, f32::INFINITY, f32::NAN, f32::MIN_POSITIVE, 0.1] }
macro_rules! ints { ($t:ty) => { { let mut v: Vec<$t> = vec![<$t>::MIN, 0, 1, <$t>::MAX]; if <$t>::MIN != 0 { v.push((0 as $t).wrapping_sub(1)); } v.sort(); v.dedup(); v } } }


/* ---- histories of two: what an earlier, refused call leaves behind must not reach the next one ---- */

struct RawBytes;
impl Serialize for RawBytes { fn serialize<S: serde::Serializer>(&self, s: S) -> Result<S::Ok, S::Error> { s.serialize_bytes(b"xy") } }
#[derive(Serialize)] struct PoisonBytes { id: u32, owner: String, blob: RawBytes }
#[derive(Serialize)] struct PoisonInner { x: u8 }
#[derive(Serialize)] struct PoisonNested { id: u32, inner: PoisonInner }
#[derive(Serialize)] enum PoisonEnum { V { x: u8 } }
#[derive(Serialize)] struct PoisonVariant { list: Vec<String>, v: PoisonEnum }
const N_POISON: usize = 3;
/// a serialization that the serializer refuses after it has already written something; true iff it was refused
fn poison_encode(k: usize) -> bool {
    match k {
        0 => matches!(guarded(|| to_string(&PoisonBytes { id: 7, owner: "carol".into(), blob: RawBytes })), Ok(Err(_))),
        1 => matches!(guarded(|| to_string(&PoisonNested { id: 7, inner: PoisonInner { x: 1 } })), Ok(Err(_))),
        _ => matches!(guarded(|| to_string(&PoisonVariant { list: vec!["p".into(), "q".into()], v: PoisonEnum::V { x: 1 } })), Ok(Err(_))),
    }
}
const POISON_TEXTS: [&[u8]; 4] = [b"a=1=2&b", b"%zz=1&a", b"a=x,y&a=%4", b"=&&"];

/* ---- the check on one value ---- */

fn dbg<T: Debug>(t: &T) -> String { format!("{t:?}") }

#[derive(PartialEq)]
enum Got { Same, Err(String), Wrong(String), Panic(String) }

fn decode_and_compare<T: Top>(text: &str, want: &str) -> Got {
    match guarded(|| from_bytes::<T>(text.as_bytes())) {
        Err(p) => Got::Panic(p),
        Ok(Err(e)) => Got::Err(e.to_string()),
        Ok(Ok(w)) => { let d = dbg(&w); if d == want { Got::Same } else { Got::Wrong(d) } }
    }
}

/// returns true if the value was a violation
fn check_value<T: Top>(ctx: &mut Ctx, shape: &'static str, tier: Tier, index: usize, v: &T) {
    let want = dbg(v);
    let hazard = { let mut h = v.top_hazard(); h.dedup(); if h.is_empty() { "plain".to_string() } else { h.join("+") } };
    let hazard = hazard.as_str();
    let witness = |extra: Value| {
        let mut w = json!({"part": "roundtrip", "shape": shape, "tier": if tier == Tier::Quick { "quick" } else { "thorough" }, "index": index, "value": want});
        for (k, x) in extra.as_object().unwrap() { w[k] = x.clone(); }
        w
    };
    let text = match guarded(|| to_string(v)) {
        Err(p) => { ctx.violation(&format!("C09/roundtrip/{shape}/encode-panic:{}/{hazard}", slug(&p)), true, || witness(json!({"observed": format!("to_string panicked: {p}")}))); return }
        Ok(Err(_)) => { ctx.pass(&format!("serializer-rejects:{shape}"), false, false); return } // precondition of the statement not met
        Ok(Ok(t)) => t,
    };
    let pairs = v.ref_pairs();
    // (E) crate encoder -> reference decoder
    //     (a raw `=` inside a value is also the encoder's fault: delimiters that are data must be escaped)
    let enc_ok: Option<bool> = pairs.as_ref().map(|p| refenc::decode_pairs(text.as_bytes()).ok().as_ref() == Some(p)
        && refenc::split_pairs(text.as_bytes()).iter().all(|(_, v)| v.map_or(false, |v| !v.contains(&b'='))));
    // (D) reference encoder -> crate decoder
    let ref_text = pairs.as_ref().map(|p| refenc::encode_pairs(p));
    let dec_got: Option<Got> = ref_text.as_ref().map(|t| decode_and_compare::<T>(t, &want));
    // (R) the round trip
    let rt = decode_and_compare::<T>(&text, &want);
    let escaped = text.contains('%');
    let nontrivial = !v.trivial();
    if rt == Got::Same {
        match (&dec_got, enc_ok) {
            (Some(g), _) if *g != Got::Same => {
                let (sym, obs) = match g { Got::Err(e) => ("refused-should-accept".to_string(), e.clone()), Got::Wrong(d) => ("wrong-value".to_string(), d.clone()),
                    Got::Panic(p) => (format!("panic:{}", slug(p)), p.clone()), Got::Same => unreachable!() };
                ctx.violation(&format!("C09/reference-encoded-text/{shape}/{sym}/{hazard}"), nontrivial,
                    || witness(json!({"text": ref_text, "observed": obs, "note": "round trip through the crate's own encoder holds; the RFC 3986 encoding of the same pairs does not decode to the value"})));
            }
            (_, Some(false)) => ctx.ambiguous(&format!("encoder-output-not-rfc3986-but-round-trips:{shape}")),
            _ => {
                // histories of two (same thread): after a serialization that was refused half-way, and after a text that was
                // refused, the same value must still be written as before and the same text must still be read as before
                for k in 0..N_POISON {
                    if !poison_encode(k) { continue }
                    ctx.transitions += 1;
                    let again = guarded(|| to_string(v));
                    if !matches!(&again, Ok(Ok(t)) if *t == text) {
                        ctx.violation(&format!("C09/roundtrip/{shape}/after-refused-serialization:{k}/different-text"), nontrivial,
                            || witness(json!({"text": text, "after_refused_serialization": k, "observed": format!("{again:?}")})));
                        return;
                    }
                }
                for (k, pt) in POISON_TEXTS.iter().enumerate() {
                    let _ = guarded(|| from_bytes::<T>(pt).map(|_| ()).map_err(|e| e.to_string()));
                    ctx.transitions += 1;
                    let again = decode_and_compare::<T>(&text, &want);
                    if again != Got::Same {
                        ctx.violation(&format!("C09/roundtrip/{shape}/after-refused-text:{k}/different-value"), nontrivial,
                            || witness(json!({"text": text, "after_text": String::from_utf8_lossy(pt), "observed": match &again { Got::Err(e) | Got::Wrong(e) | Got::Panic(e) => e.clone(), Got::Same => String::new() }})));
                        return;
                    }
                }
                ctx.pass(&format!("round-trip:{shape}:{}", if hazard == "plain" { "plain" } else { "hazard" }), nontrivial, escaped || hazard != "plain");
                if escaped && index % 97 == 5 { ctx.sample(|| json!({"shape": shape, "value": want, "text": text, "observed": "decodes back to an equal value"})); }
            }
        }
        return;
    }
    let side = match (enc_ok, dec_got.as_ref().map(|g| *g == Got::Same)) {
        (Some(false), Some(true)) => "encoder",
        (Some(true), Some(false)) => "decoder",
        (Some(false), Some(false)) => "both",
        (Some(true), Some(true)) => "neither-alone",
        _ => "unlocalised",
    };
    let (sym, obs) = match &rt { Got::Err(e) => ("decode-error".to_string(), e.clone()), Got::Wrong(d) => ("wrong-value".to_string(), d.clone()),
        Got::Panic(p) => (format!("decode-panic:{}", slug(p)), p.clone()), Got::Same => unreachable!() };
    ctx.violation(&format!("C09/roundtrip/{shape}/{sym}@{side}/{hazard}"), nontrivial, || witness(json!({"text": text, "observed": obs, "fault_side": side})));
}

/// A shape = a name and its domain for a tier; `visit` calls the checker for every (index, value) — or only `only`.
macro_rules! shape {
    ($ctx:expr, $tier:expr, $only:expr, $name:literal, $domain:expr) => {{
        let only: Option<(&str, usize)> = $only;
        if only.map_or(true, |(n, _)| n == $name) {
            let run_it = match only { Some(_) => true, None => $ctx.mine() };
            if run_it {
                let domain = $domain;
                for (i, v) in domain.iter().enumerate() {
                    if let Some((_, idx)) = only { if idx != i { continue } }
                    check_value($ctx, $name, $tier, i, v);
                }
                if let Some((_, idx)) = only { if idx >= domain.len() { $ctx.machinery_error(format!("replay: index {idx} outside the domain of {}", $name)); } }
            }
        }
    }};
}

fn values(ctx: &mut Ctx, tier: Tier, only: Option<(&str, usize)>) {
    let q = tier == Tier::Quick;
    let s1 = strings(1); let s2 = strings(2); let s3 = strings(3);
    let sfull = if q { s3.clone() } else { strings(4) };
    shape!(ctx, tier, only, "bool", [false, true].map(|a| F1 { a }));
    shape!(ctx, tier, only, "i8", ints!(i8).into_iter().map(|a| F1 { a }).collect::<Vec<_>>());
    shape!(ctx, tier, only, "i16", ints!(i16).into_iter().map(|a| F1 { a }).collect::<Vec<_>>());
    shape!(ctx, tier, only, "i32", ints!(i32).into_iter().map(|a| F1 { a }).collect::<Vec<_>>());
    shape!(ctx, tier, only, "i64", ints!(i64).into_iter().map(|a| F1 { a }).collect::<Vec<_>>());
    shape!(ctx, tier, only, "u8", ints!(u8).into_iter().map(|a| F1 { a }).collect::<Vec<_>>());
    shape!(ctx, tier, only, "u16", ints!(u16).into_iter().map(|a| F1 { a }).collect::<Vec<_>>());
    shape!(ctx, tier, only, "u32", ints!(u32).into_iter().map(|a| F1 { a }).collect::<Vec<_>>());
    shape!(ctx, tier, only, "u64", ints!(u64).into_iter().map(|a| F1 { a }).collect::<Vec<_>>());
    shape!(ctx, tier, only, "f32", f32s().into_iter().map(|a| F1 { a }).collect::<Vec<_>>());
    shape!(ctx, tier, only, "f64", f64s().into_iter().map(|a| F1 { a }).collect::<Vec<_>>());
    shape!(ctx, tier, only, "char", CHARS.map(|a| F1 { a }));
    shape!(ctx, tier, only, "String", sfull.iter().cloned().map(|a| F1 { a }).collect::<Vec<_>>());
    shape!(ctx, tier, only, "Option<String>", opt(&s3).into_iter().map(|a| F1 { a }).collect::<Vec<_>>());
    shape!(ctx, tier, only, "Option<i32>", opt(&ints!(i32)).into_iter().map(|a| F1 { a }).collect::<Vec<_>>());
    shape!(ctx, tier, only, "Option<char>", opt(&CHARS).into_iter().map(|a| F1 { a }).collect::<Vec<_>>());
    shape!(ctx, tier, only, "Option<bool>", opt(&[false, true]).into_iter().map(|a| F1 { a }).collect::<Vec<_>>());
    shape!(ctx, tier, only, "unit", [F1 { a: () }]);
    shape!(ctx, tier, only, "unit-enum", [E::A, E::Bb, E::Xy].map(|a| F1 { a }));
    shape!(ctx, tier, only, "Option<unit-enum>", opt(&[E::A, E::Bb, E::Xy]).into_iter().map(|a| F1 { a }).collect::<Vec<_>>());
    shape!(ctx, tier, only, "Newtype<String>", s2.iter().cloned().map(|a| F1 { a: Nt(a) }).collect::<Vec<_>>());
    shape!(ctx, tier, only, "Newtype<i64>", ints!(i64).into_iter().map(|a| F1 { a: Nt(a) }).collect::<Vec<_>>());
    shape!(ctx, tier, only, "Vec<String>", seqs(&s1, 3).into_iter().map(|a| F1 { a }).collect::<Vec<_>>());
    shape!(ctx, tier, only, "Vec<i32>", seqs(&ints!(i32), 3).into_iter().map(|a| F1 { a }).collect::<Vec<_>>());
    shape!(ctx, tier, only, "Option<Vec<String>>", opt(&seqs(&s1, 2)).into_iter().map(|a| F1 { a }).collect::<Vec<_>>());
    shape!(ctx, tier, only, "(i32,String)", { let mut d = vec![]; for a in ints!(i32) { for b in &s1 { d.push(F1 { a: (a, b.clone()) }); } } d });
    shape!(ctx, tier, only, "{String,i32}", { let mut d = vec![]; for a in &s2 { for b in ints!(i32) { d.push(F2 { a: a.clone(), b }); } } d });
    shape!(ctx, tier, only, "{Option<String>,String}", { let mut d = vec![]; for a in opt(if q { &s2 } else { &s3 }) { for b in &s2 { d.push(F2 { a: a.clone(), b: b.clone() }); } } d });
    shape!(ctx, tier, only, "{bool,char,Option<u8>}", { let mut d = vec![]; for a in [false, true] { for b in CHARS { for c in opt(&ints!(u8)) { d.push(F3 { a, b, c }); } } } d });
    shape!(ctx, tier, only, "{String,Vec<String>,unit-enum}", { let mut d = vec![]; for a in &s1 { for b in seqs(&s1, 2) { for c in [E::A, E::Bb, E::Xy] { d.push(F3 { a: a.clone(), b: b.clone(), c }); } } } d });
    // two sequence-like fields in one value (what one sequence leaves behind in the writer must not reach the next one)
    shape!(ctx, tier, only, "{tuple-struct,Vec<String>}", { let mut d = vec![]; for a in [Ts(0, 0), Ts(1, 255)] { for b in seqs(&s1, 2) { d.push(F2 { a: a.clone(), b: b.clone() }); } } d });
    shape!(ctx, tier, only, "{(i32,String),Vec<i32>}", { let mut d = vec![]; for a in [(1, "x".to_string()), (-1, String::new())] { for b in seqs(&ints!(i32), 2) { d.push(F2 { a: a.clone(), b: b.clone() }); } } d });
    shape!(ctx, tier, only, "{Vec<String>,tuple-struct,Vec<i32>}", { let mut d = vec![]; for a in seqs(&s1, 2) { for c in seqs(&ints!(i32), 2) { d.push(F3 { a: a.clone(), b: Ts(7, 8), c: c.clone() }); } } d });
    shape!(ctx, tier, only, "{f64,Option<i32>,String}", { let mut d = vec![]; for a in f64s() { for b in opt(&ints!(i32)) { for c in &s1 { d.push(F3 { a, b, c: c.clone() }); } } } d });
    shape!(ctx, tier, only, "map<String,String>-of-0-or-1", {
        let mut d: Vec<BTreeMap<String, String>> = vec![BTreeMap::new()];
        for k in &s2 { for v in &s2 { d.push([(k.clone(), v.clone())].into_iter().collect()); } }
        d
    });
    shape!(ctx, tier, only, "map<String,String>-of-2", {
        let mut d: Vec<BTreeMap<String, String>> = vec![];
        for (i, k1) in s1.iter().enumerate() { for k2 in &s1[i + 1..] { for v1 in &s1 { for v2 in &s1 {
            d.push([(k1.clone(), v1.clone()), (k2.clone(), v2.clone())].into_iter().collect());
        } } } }
        d
    });
}

/* =====================================================================================================
   Part 2 — texts
   ===================================================================================================== */

const KEYS: [&str; 4] = ["a", "b", "z", "%61"];
// DESIGN's eight values plus one escape written with a lower-case hex digit (RFC 3986 2.1: both cases are equivalent)
// ... and a value with a raw `=` (a base64 padding, a nested URL): the parts are `&`/`=`-separated, the value is what follows
// the first `=` of its part
const VALUES: [&str; 11] = ["", "a", "%41", "%4", "%zz", "+", "%E3%81%82", "a%26b", "%4a", "YQ==", "caf%E9%20x"];

pub enum Expect<T> { Value(T), Err(&'static str), /// the pairs are well-defined but one does not denote a value of its field's type
    Refuse(&'static str), Ambiguous(&'static str) }

pub trait TextTarget: DeserializeOwned + Debug {
    const NAME: &'static str;
    /// field names in declaration order (empty = a map that takes every key)
    const FIELDS: &'static [&'static str];
    fn expect(pairs: &[(String, String)]) -> Expect<Self>;
}

fn get<'p>(pairs: &'p [(String, String)], key: &str) -> Result<Option<&'p String>, ()> {
    let mut it = pairs.iter().filter(|(k, _)| k == key);
    let first = it.next();
    if it.next().is_some() { return Err(()) }
    Ok(first.map(|p| &p.1))
}

#[derive(Deserialize, Debug)] pub struct T1 { a: String }
#[derive(Deserialize, Debug)] pub struct T2 { a: String, b: String }
#[derive(Deserialize, Debug)] pub struct T3 { a: String, b: Option<String> }
#[derive(Deserialize, Debug)] pub struct T4 { b: String, a: String }
#[derive(Deserialize, Debug)] pub struct T5 { a: Option<String>, b: Option<String> }

impl TextTarget for T1 {
    const NAME: &'static str = "{a:String}"; const FIELDS: &'static [&'static str] = &["a"];
    fn expect(p: &[(String, String)]) -> Expect<Self> {
        match get(p, "a") { Err(()) => Expect::Ambiguous("duplicate-key"), Ok(None) => Expect::Err("missing-field"), Ok(Some(a)) => Expect::Value(T1 { a: a.clone() }) }
    }
}
impl TextTarget for T2 {
    const NAME: &'static str = "{a:String,b:String}"; const FIELDS: &'static [&'static str] = &["a", "b"];
    fn expect(p: &[(String, String)]) -> Expect<Self> {
        match (get(p, "a"), get(p, "b")) {
            (Err(()), _) | (_, Err(())) => Expect::Ambiguous("duplicate-key"),
            (Ok(Some(a)), Ok(Some(b))) => Expect::Value(T2 { a: a.clone(), b: b.clone() }),
            _ => Expect::Err("missing-field"),
        }
    }
}
impl TextTarget for T4 {
    const NAME: &'static str = "{b:String,a:String}"; const FIELDS: &'static [&'static str] = &["b", "a"];
    fn expect(p: &[(String, String)]) -> Expect<Self> {
        match (get(p, "a"), get(p, "b")) {
            (Err(()), _) | (_, Err(())) => Expect::Ambiguous("duplicate-key"),
            (Ok(Some(a)), Ok(Some(b))) => Expect::Value(T4 { a: a.clone(), b: b.clone() }),
            _ => Expect::Err("missing-field"),
        }
    }
}
impl TextTarget for T3 {
    const NAME: &'static str = "{a:String,b:Option<String>}"; const FIELDS: &'static [&'static str] = &["a", "b"];
    fn expect(p: &[(String, String)]) -> Expect<Self> {
        match (get(p, "a"), get(p, "b")) {
            (Err(()), _) | (_, Err(())) => Expect::Ambiguous("duplicate-key"),
            (Ok(None), _) => Expect::Err("missing-field"),
            // `b=` into an Option: the pair is (b, ""), whether that is Some("") or None the statement does not say
            (Ok(Some(_)), Ok(Some(b))) if b.is_empty() => Expect::Ambiguous("empty-value-into-option"),
            (Ok(Some(a)), Ok(b)) => Expect::Value(T3 { a: a.clone(), b: b.cloned() }),
        }
    }
}
impl TextTarget for T5 {
    const NAME: &'static str = "{a:Option<String>,b:Option<String>}"; const FIELDS: &'static [&'static str] = &["a", "b"];
    fn expect(p: &[(String, String)]) -> Expect<Self> {
        match (get(p, "a"), get(p, "b")) {
            (Err(()), _) | (_, Err(())) => Expect::Ambiguous("duplicate-key"),
            (Ok(a), Ok(b)) => {
                if a.map_or(false, |s| s.is_empty()) || b.map_or(false, |s| s.is_empty()) { return Expect::Ambiguous("empty-value-into-option") }
                Expect::Value(T5 { a: a.cloned(), b: b.cloned() })
            }
        }
    }
}
impl TextTarget for BTreeMap<String, String> {
    const NAME: &'static str = "map<String,String>"; const FIELDS: &'static [&'static str] = &[];
    fn expect(p: &[(String, String)]) -> Expect<Self> {
        let mut m = BTreeMap::new();
        for (k, v) in p { if m.insert(k.clone(), v.clone()).is_some() { return Expect::Ambiguous("duplicate-key") } }
        Expect::Value(m)
    }
}

/// Scalar fields: the pair's *decoded* value must denote the scalar (`n=%37` is the pair (n, "7")).  Only canonical
/// spellings are decided (what else `str::parse` accepts - `+5`, `007`, `1e0`, `inf` - is ambiguous).
#[derive(Deserialize, Debug)] pub struct T6 { n: i32, f: bool, c: char, x: f64 }
impl TextTarget for T6 {
    const NAME: &'static str = "{n:i32,f:bool,c:char,x:f64}"; const FIELDS: &'static [&'static str] = &["n", "f", "c", "x"];
    fn expect(p: &[(String, String)]) -> Expect<Self> {
        let (n, f, c, x) = match (get(p, "n"), get(p, "f"), get(p, "c"), get(p, "x")) {
            (Ok(Some(n)), Ok(Some(f)), Ok(Some(c)), Ok(Some(x))) => (n, f, c, x),
            (Err(()), ..) | (_, Err(()), ..) | (_, _, Err(()), _) | (_, _, _, Err(())) => return Expect::Ambiguous("duplicate-key"),
            _ => return Expect::Err("missing-field"),
        };
        let canonical_int = |s: &str| { let d = s.strip_prefix('-').unwrap_or(s); !d.is_empty() && d.bytes().all(|b| b.is_ascii_digit()) && (d == "0" || !d.starts_with('0')) && s != "-0" };
        let n = if canonical_int(n) { match n.parse::<i32>() { Ok(v) => v, Err(_) => return Expect::Refuse("integer-out-of-range") } }
            else if n.parse::<i32>().is_ok() { return Expect::Ambiguous("non-canonical-integer") } else { return Expect::Refuse("not-an-integer") };
        let f = match f.as_str() { "true" => true, "false" => false, _ => return Expect::Refuse("not-a-bool") };
        let c = { let mut it = c.chars(); match (it.next(), it.next()) { (Some(c), None) => c, _ => return Expect::Refuse("not-a-single-char") } };
        let canonical_float = |s: &str| { let d = s.strip_prefix('-').unwrap_or(s); let mut parts = d.split('.'); let (i, fr, more) = (parts.next().unwrap_or(""), parts.next(), parts.next());
            more.is_none() && !i.is_empty() && i.bytes().all(|b| b.is_ascii_digit()) && fr.map_or(true, |fr| !fr.is_empty() && fr.bytes().all(|b| b.is_ascii_digit())) };
        let x = if canonical_float(x) { x.parse::<f64>().unwrap() } else if x.parse::<f64>().is_ok() { return Expect::Ambiguous("non-canonical-float") } else { return Expect::Refuse("not-a-number") };
        Expect::Value(T6 { n, f, c, x })
    }
}
const T6_N: [&str; 12] = ["7", "%37", "-3", "%2D3", "1%32", "%31%32", "2147483647", "2147483648", "%2B5", "x", "%78", ""];
const T6_F: [&str; 6] = ["true", "%74rue", "fals%65", "x", "1", ""];
const T6_C: [&str; 5] = ["a", "%61", "%E3%81%82", "ab", ""];
const T6_X: [&str; 6] = ["1.5", "1%2E5", "%2D0.25", "3", "1.5.2", "%6E"];

/// the first feature of the text that a shortcut could be sensitive to
fn text_feature(raw: &[(&[u8], Option<&[u8]>)], fields: &[&str]) -> &'static str {
    if raw.is_empty() { return "no-pairs" }
    if raw.iter().any(|(k, _)| k.contains(&b'%')) { return "escaped-key" }
    let known: Vec<&str> = raw.iter().filter_map(|(k, _)| fields.iter().copied().find(|f| f.as_bytes() == *k)).collect();
    if !fields.is_empty() {
        if raw.len() > known.len() {
            let first_known = raw.iter().position(|(k, _)| fields.iter().any(|f| f.as_bytes() == *k));
            let first_unknown = raw.iter().position(|(k, _)| !fields.iter().any(|f| f.as_bytes() == *k));
            return if first_known.map_or(true, |fk| first_unknown.unwrap() < fk) { "unknown-key-first" } else { "unknown-key-later" };
        }
        let order: Vec<usize> = known.iter().map(|k| fields.iter().position(|f| f == k).unwrap()).collect();
        if order.windows(2).any(|w| w[0] > w[1]) { return "not-in-declaration-order" }
    }
    let vals: Vec<&[u8]> = raw.iter().map(|(_, v)| v.unwrap_or(b"")).collect();
    if vals.iter().any(|v| v.windows(3).any(|w| w == b"%26")) { return "escaped-delimiter-in-value" }
    if vals.iter().any(|v| v.starts_with(b"%E3")) { return "escaped-multibyte-value" }
    if vals.iter().any(|v| v.contains(&b'%')) { return "escaped-ascii-value" }
    if vals.iter().any(|v| v.contains(&b'=')) { return "raw-equals-in-value" }
    if vals.iter().any(|v| v.contains(&b'+')) { return "plus-in-value" }
    if vals.iter().any(|v| v.is_empty()) { return "empty-value" }
    "plain"
}

fn read_request(raw: &[u8]) -> Result<Option<RawConn>, String> {
    guarded(|| {
        let mut conn = RawConn::init();
        let mut reader = ScriptedReader::new(vec![raw.to_vec()], false);
        reader.deliver_next();
        let mut d = Driver::new();
        let accepted = {
            let fut = conn.read(&mut reader);
            let mut fut = std::pin::pin!(fut);
            matches!(d.run(fut.as_mut(), 1000), RunResult::Ready(Ok(Some(()))))
        };
        if accepted { Some(conn) } else { None }
    })
}

fn judge<T: TextTarget>(ctx: &mut Ctx, route: &'static str, text: &[u8], feature: &'static str, expect: &Expect<T>, got: Result<Result<T, String>, String>, collision: bool) {
    let witness = |obs: String, exp: String| json!({"part": "text", "route": route, "target": T::NAME, "text": esc(text), "expected": exp, "observed": obs, "feature": feature});
    let cls = |sym: &str| format!("C09/{route}/{}/{sym}/{feature}", T::NAME);
    match (expect, got) {
        (_, Err(p)) => ctx.violation(&cls(&format!("panic:{}", slug(&p))), true, || witness(format!("panic: {p}"), "no panic".into())),
        (Expect::Ambiguous(why), _) => ctx.ambiguous(why),
        (Expect::Err(_), Ok(Err(_))) => ctx.pass(&format!("{route}:missing-field-refused"), true, collision),
        // a value although a required field is missing: the statement does not say what must happen
        (Expect::Err(_), Ok(Ok(_))) => ctx.ambiguous("missing-field-but-value"),
        (Expect::Value(v), Ok(Ok(w))) => {
            let (dv, dw) = (dbg(v), dbg(&w));
            if dv == dw { ctx.pass(&format!("{route}:decoded:{feature}"), true, collision) }
            else { ctx.violation(&cls("wrong-value"), true, || witness(dw, dv)) }
        }
        (Expect::Value(v), Ok(Err(e))) => ctx.violation(&cls("refused-should-accept"), true, || witness(format!("Err({e})"), dbg(v))),
        (Expect::Refuse(_), Ok(Err(_))) => ctx.pass(&format!("{route}:ill-typed-value-refused"), true, collision),
        (Expect::Refuse(why), Ok(Ok(w))) => ctx.violation(&cls(&format!("accepted-should-refuse:{why}")), true, || witness(dbg(&w), format!("an error ({why})"))),
    }
}

fn check_text_target<T: TextTarget>(ctx: &mut Ctx, text: &[u8], raw: &[(&[u8], Option<&[u8]>)], decoded: &Result<Vec<(String, String)>, refenc::Undefined>, conn: Option<&RawConn>, routes: (bool, bool)) {
    let feature = text_feature(raw, T::FIELDS);
    let collision = feature != "plain" && feature != "no-pairs" && feature != "empty-value";
    let expect: Expect<T> = match decoded {
        // the typed readers refuse a second `=` in a part (`a=1=2` is listed as malformed by the crate's own tests); the pair
        // reading - value = everything after the first `=` - is demanded of the query iterator only
        _ if raw.iter().any(|(_, v)| v.map_or(false, |v| v.contains(&b'='))) => Expect::Ambiguous("raw-equals-in-value"),
        Err(refenc::Undefined::MalformedEscape) => Expect::Ambiguous("malformed-escape"),
        Err(refenc::Undefined::NotUtf8) => Expect::Ambiguous("escape-not-utf8"),
        Err(refenc::Undefined::NoEquals) => Expect::Ambiguous("part-without-equals"),
        Ok(p) => T::expect(p),
    };
    if routes.0 {
        let got = guarded(|| from_bytes::<T>(text).map_err(|e| e.to_string()));
        judge::<T>(ctx, "text", text, feature, &expect, got, collision);
    }
    if let (Some(conn), true) = (conn, routes.1) {
        let got = guarded(|| conn.request().query.parse::<T>().map_err(|e| e.to_string()));
        judge::<T>(ctx, "query-parse", text, feature, &expect, got, collision);
    }
}

fn check_text(ctx: &mut Ctx, text: &[u8], only_target: Option<&str>, only_route: Option<&str>) {
    let raw = refenc::split_pairs(text);
    let decoded = refenc::decode_pairs(text);
    // the same text as the query string of a real request line
    let mut req = b"GET /p?".to_vec(); req.extend_from_slice(text); req.extend_from_slice(b" HTTP/1.1\r\n\r\n");
    let conn = match read_request(&req) {
        Ok(c) => c,
        Err(p) => { ctx.violation(&format!("C09/query-iter/request-read/panic:{}/any", slug(&p)), true, || json!({"part": "text", "route": "query-iter", "target": "iter", "text": esc(text), "observed": p})); None }
    };
    let want = |name: &str, route: &str| only_target.map_or(true, |t| t == name) && only_route.map_or(true, |r| r == route);
    macro_rules! t { ($ty:ty) => { {
        let routes = (want(<$ty>::NAME, "text"), want(<$ty>::NAME, "query-parse"));
        if routes.0 || routes.1 { check_text_target::<$ty>(ctx, text, &raw, &decoded, conn.as_ref(), routes) }
    } } }
    t!(T1); t!(T2); t!(T3); t!(T4); t!(T5); t!(BTreeMap<String, String>);
    if only_target == Some(T6::NAME) { t!(T6); }
    // Request.query.iter()
    if want("iter", "query-iter") {
        let feature = text_feature(&raw, &[]);
        match (&decoded, &conn) {
            (_, None) => ctx.ambiguous("request-line-not-accepted"),
            // Well-formed escapes whose bytes are not UTF-8: the iterator yields text, so it cannot hand out the bytes - but every
            // escape is still to be decoded.  Admitted: the lossy text of the decoded bytes (U+FFFD for what is not UTF-8), or leaving
            // such a pair out; not admitted: handing out the part un-decoded (its valid escapes `%20` included).
            (Err(refenc::Undefined::NotUtf8), Some(conn)) => {
                let lossy: Option<Vec<(String, String)>> = raw.iter().map(|(k, v)| Some((String::from_utf8_lossy(&refenc::pct_decode(k).ok()?).into_owned(), String::from_utf8_lossy(&refenc::pct_decode(v.as_ref()?).ok()?).into_owned()))).collect();
                match (lossy, guarded(|| conn.request().query.iter().map(|(k, v)| (k.into_owned(), v.into_owned())).collect::<Vec<_>>())) {
                    (None, _) => ctx.ambiguous("malformed-escape"),
                    (_, Err(pn)) => ctx.violation(&format!("C09/query-iter/iter/panic:{}/escape-not-utf8", slug(&pn)), true, || json!({"part": "text", "route": "query-iter", "target": "iter", "text": esc(text), "observed": pn})),
                    (Some(l), Ok(got)) if got == l => ctx.pass("query-iter:pairs:escape-not-utf8(lossy)", true, true),
                    (Some(l), Ok(got)) if got.iter().all(|p| l.contains(p)) && got.len() < l.len() => ctx.ambiguous("escape-not-utf8:pair-left-out"),
                    (Some(l), Ok(got)) => ctx.violation("C09/query-iter/iter/wrong-value/escape-not-utf8", true, || json!({"part": "text", "route": "query-iter", "target": "iter", "text": esc(text), "expected": dbg(&l), "observed": dbg(&got), "feature": "escape-not-utf8"})),
                }
            }
            (Err(_), _) => ctx.ambiguous("malformed-escape"),
            (Ok(p), Some(conn)) => match guarded(|| conn.request().query.iter().map(|(k, v)| (k.into_owned(), v.into_owned())).collect::<Vec<_>>()) {
                Err(pn) => ctx.violation(&format!("C09/query-iter/iter/panic:{}/{feature}", slug(&pn)), true, || json!({"part": "text", "route": "query-iter", "target": "iter", "text": esc(text), "observed": pn})),
                Ok(got) if got == *p => ctx.pass(&format!("query-iter:pairs:{feature}"), !p.is_empty(), feature.starts_with("escaped")),
                Ok(got) => {
                    let sym = if got.len() < p.len() { "missing-pair" } else if got.len() > p.len() { "extra-pair" } else { "wrong-value" };
                    ctx.violation(&format!("C09/query-iter/iter/{sym}/{feature}"), true, || json!({"part": "text", "route": "query-iter", "target": "iter", "text": esc(text), "expected": dbg(p), "observed": dbg(&got), "feature": feature}))
                }
            },
        }
    }
}

/// every text `n=..&f=..&c=..&x=..` over the scalar menus, in declaration order and reversed
fn typed_texts(ctx: &mut Ctx) {
    for n in T6_N { for f in T6_F {
        if !ctx.mine() { continue }
        for c in T6_C { for x in T6_X {
            for text in [format!("n={n}&f={f}&c={c}&x={x}"), format!("x={x}&c={c}&f={f}&n={n}")] { check_text(ctx, text.as_bytes(), Some(T6::NAME), None); }
        } }
    } }
}

fn texts(ctx: &mut Ctx, max_pairs: usize) {
    let pairs: Vec<String> = KEYS.iter().flat_map(|k| VALUES.iter().map(move |v| format!("{k}={v}"))).collect();
    let n = pairs.len();
    // unit = (number of pairs, index of the first pair, index of the second pair if any)
    for len in 0..=max_pairs {
        let lead = len.min(2);
        let units = n.pow(lead as u32);
        for u in 0..units {
            if ctx.out_of_time() { return }
            if !ctx.mine() { continue }
            let rest = len - lead;
            for r in 0..n.pow(rest as u32) {
                let mut idx = Vec::with_capacity(len);
                let mut x = u; let mut leadv = vec![0; lead]; for k in (0..lead).rev() { leadv[k] = x % n; x /= n; }
                idx.extend(leadv);
                let mut y = r; let mut restv = vec![0; rest]; for k in (0..rest).rev() { restv[k] = y % n; y /= n; }
                idx.extend(restv);
                let text = idx.iter().map(|i| pairs[*i].as_str()).collect::<Vec<_>>().join("&");
                check_text(ctx, text.as_bytes(), None, None);
            }
        }
    }
}

/// C09 runs the codec in-process (its subject is correctness, totality is C08's): if a change to the codec makes it
/// loop or allocate without bound, the worker must die (=> machinery failure, exit 2) instead of hanging the driver.
fn watchdog(ctx: &Ctx) {
    unsafe {
        libc::alarm(ctx.wall_cap_s as u32 + 120);
        let lim = libc::rlimit { rlim_cur: 4 << 30, rlim_max: 4 << 30 };
        libc::setrlimit(libc::RLIMIT_AS, &lim);
    }
}

pub fn run(ctx: &mut Ctx) {
    if let Err(e) = refenc::selftest() { ctx.machinery_error(e); return }
    watchdog(ctx);
    crate::app::pin_clock();
    let tier = ctx.tier;
    values(ctx, tier, None);
    let max_pairs = if ctx.quick() { 3 } else { 5 };
    texts(ctx, max_pairs);
    typed_texts(ctx);
    ctx.sample(|| json!({"part": "text", "text": "b=%E3%81%82&z=+&%61=a%26b", "reference_pairs": dbg(&refenc::decode_pairs(b"b=%E3%81%82&z=+&%61=a%26b"))}));
    ctx.extra.insert("rule".into(), json!("part 1: one case = one value of a shape's finite domain (full product of the field domains), checked for from_bytes(to_string(v)) == v and against the reference encoder/decoder; non-trivial = every value except the empty map; collision = the encoded text needs an escape or the value carries a known hazard (delimiter char, Some(\"\"), sequence, renamed variant, empty key). part 2: one case = (text of <= N pairs over 4 keys x 9 values, target, route) with route in from_bytes / Request.query.parse / Request.query.iter; collision = escaped key or value, unknown key, or keys not in declaration order. Every case is distinct by construction."));
    ctx.extra.insert("bounds".into(), json!({
        "chars": CHARS.iter().map(|c| c.to_string()).collect::<Vec<_>>(), "max_string_len": if ctx.quick() { 3 } else { 4 }, "max_seq_len": 3,
        "value_shapes": 33, "text_keys": KEYS, "text_values": VALUES, "max_pairs": max_pairs, "text_targets": 6, "routes": ["from_bytes", "Request.query.parse", "Request.query.iter"],
    }));
    ctx.extra.insert("distinct_by_construction".into(), json!(true));
}

pub fn replay(ctx: &mut Ctx, case: &Value) {
    watchdog(ctx);
    crate::app::pin_clock();
    match case["part"].as_str() {
        Some("roundtrip") => {
            let tier = if case["tier"].as_str() == Some("thorough") { Tier::Thorough } else { Tier::Quick };
            let (Some(shape), Some(index)) = (case["shape"].as_str(), case["index"].as_u64()) else { ctx.machinery_error("replay: shape/index missing".into()); return };
            let before = ctx.evaluations;
            values(ctx, tier, Some((shape, index as usize)));
            if ctx.evaluations == before && ctx.machinery_errors.is_empty() { ctx.machinery_error(format!("replay: unknown shape {shape}")); return }
            // the witness names the value; make sure the enumeration still puts the same value at that index
            if let Some(v) = case["value"].as_str() {
                let seen: Vec<String> = ctx.violations.values().flat_map(|s| s.witnesses.iter()).filter_map(|w| w["value"].as_str().map(|s| s.to_string())).collect();
                if !seen.is_empty() && !seen.iter().any(|s| s == v) { ctx.machinery_error(format!("replay: the value at index {index} of shape {shape} is {seen:?}, the witness says {v}")); }
            }
        }
        Some("text") => {
            let Some(text) = case["text"].as_str().map(unesc) else { ctx.machinery_error("replay: no text".into()); return };
            check_text(ctx, &text, case["target"].as_str(), case["route"].as_str());
        }
        _ => ctx.machinery_error("replay: unknown part".into()),
    }
}
