//! C19 — a mounted directory serves exactly its files, byte-identical, and nothing else (DESIGN §5 C19).
//!
//! configuration = directory tree (generated on disk) × omit_extensions × mount route × optional sibling
//! param route (+ optional symlink to a file outside, + an on-disk modification after mounting);
//! requests = every file path, every directory path, traversal / encoding / near-miss variants.
//! Oracle: path → (bytes, mime) map computed from the tree; everything else is 404.

use crate::app::{self, Outcome};
use crate::core::{combinations, panic_kind, Ctx};
use crate::refmodel::router::{admissible, Entry, Match};
use ohkami::__verif__::{DynItem, DynRouting, VerifRouter};
use ohkami::{Ohkami, Route};
use serde::{Deserialize, Serialize};
use serde_json::{json, Value};
use std::collections::BTreeMap;
use std::path::{Path, PathBuf};

const DIRS: [&str; 4] = ["", "d", "ab", "d/ab"];
const FILES: [&str; 9] = ["index.html", "a.html", "a.txt", "ab.txt", "b.css", "x.y.js", "p.png", "empty.json", "n.txt.html"];

fn mime_of(name: &str) -> &'static str {
    match name.rsplit('.').next().unwrap() {
        "html" => "text/html", "txt" => "text/plain", "css" => "text/css", "js" => "text/javascript",
        "png" => "image/png", "json" => "application/json",
        // the other extensions the framework serves (IANA media types, written here independently of ohkami_lib::mime)
        "xml" => "text/xml", "csv" => "text/csv", "tsv" => "text/tab-separated-values", "vcard" => "text/vcard",
        "jpeg" => "image/jpeg", "gif" => "image/gif", "svg" => "image/svg+xml", "woff" => "font/woff", "woff2" => "font/woff2", "pdf" => "application/pdf",
        _ => "?",
    }
}

fn content_of(dir: &str, name: &str) -> Vec<u8> {
    match name {
        "empty.json" => vec![],
        "p.png" => { let mut v: Vec<u8> = (0..=255u8).collect(); v.extend_from_slice(dir.as_bytes()); v }
        n => format!("content of {n} in [{dir}]\r\n\r\nHTTP/1.1 200 OK\r\n").into_bytes(),
    }
}

#[derive(Clone, Debug, Serialize, Deserialize, PartialEq)]
pub struct Config {
    /// (dir, file name)
    pub entries: Vec<(String, String)>,
    pub omit: Vec<String>,
    pub mount: String,
    pub param_sibling: bool,
    pub symlink_outside: bool,
    /// after mounting: overwrite the first file, delete the last one, add `new.txt`
    pub mutate_after_mount: bool,
}

fn leak(s: &str) -> &'static str { Box::leak(s.to_string().into_boxed_str()) }

fn work_root() -> PathBuf {
    let base = std::env::var("VERIF_SHARD_WORK").map(PathBuf::from).unwrap_or_else(|_| {
        let exe = std::env::current_exe().unwrap();
        // <root>/.target/verif/vmc -> <root>/.work
        exe.parent().and_then(Path::parent).and_then(Path::parent).map(|r| r.join(".work")).unwrap_or_else(std::env::temp_dir)
    });
    base.join(format!("c19-{}", std::process::id()))
}

/// expected table: request path (segments joined) -> (rel file, bytes, mime)
fn expected_map(c: &Config) -> Result<BTreeMap<String, (String, Vec<u8>, &'static str)>, String> {
    let mut m: BTreeMap<String, (String, Vec<u8>, &'static str)> = BTreeMap::new();
    let base = c.mount.trim_end_matches('/').to_string();
    let mut put = |path: String, rel: &str, bytes: Vec<u8>, mime: &'static str| -> Result<(), String> {
        let key = if path.is_empty() { "/".to_string() } else { path };
        if m.insert(key.clone(), (rel.to_string(), bytes, mime)).is_some() { return Err(format!("two files map to {key}")) }
        Ok(())
    };
    for (dir, name) in &c.entries {
        let rel = if dir.is_empty() { name.clone() } else { format!("{dir}/{name}") };
        let bytes = content_of(dir, name);
        let mime = mime_of(name);
        let dir_path = if dir.is_empty() { base.clone() } else { format!("{base}/{dir}") };
        let ext = name.rsplit('.').next().unwrap();
        let omitted = c.omit.iter().any(|e| e == ext);
        if name == "index.html" {
            put(dir_path.clone(), &rel, bytes.clone(), mime)?;
            if !omitted { put(format!("{dir_path}/{name}"), &rel, bytes, mime)?; }
            // with `html` omitted the statement leaves `/index` open (see `ambiguous_paths`)
        } else if omitted {
            put(format!("{dir_path}/{}", &name[..name.len() - ext.len() - 1]), &rel, bytes, mime)?;
        } else {
            put(format!("{dir_path}/{name}"), &rel, bytes, mime)?;
        }
    }
    Ok(m)
}

fn ambiguous_paths(c: &Config) -> Vec<String> {
    let base = c.mount.trim_end_matches('/').to_string();
    let mut v = vec![];
    if c.omit.iter().any(|e| e == "html") {
        for (dir, name) in &c.entries { if name == "index.html" {
            v.push(if dir.is_empty() { format!("{base}/index") } else { format!("{base}/{dir}/index") });
        } }
    }
    v
}

fn materialize(c: &Config, root: &Path) -> std::io::Result<PathBuf> {
    let _ = std::fs::remove_dir_all(root);
    let served = root.join("served");
    std::fs::create_dir_all(&served)?;
    for (dir, name) in &c.entries {
        let d = served.join(dir);
        std::fs::create_dir_all(&d)?;
        std::fs::write(d.join(name), content_of(dir, name))?;
    }
    std::fs::create_dir_all(root.join("outside"))?;
    std::fs::write(root.join("outside").join("secret.txt"), b"TOP SECRET outside the served directory")?;
    // a sibling directory whose name merely *extends* the served directory's name (string prefix, not a path prefix)
    std::fs::create_dir_all(root.join("served2"))?;
    std::fs::write(root.join("served2").join("secret2.txt"), b"TOP SECRET in a sibling directory named served2")?;
    if c.symlink_outside {
        std::os::unix::fs::symlink(root.join("outside").join("secret.txt"), served.join("ln.txt"))?;
        std::os::unix::fs::symlink(root.join("served2").join("secret2.txt"), served.join("ln2.txt"))?;
    }
    Ok(served)
}

fn build(c: &Config, served: &Path) -> Result<VerifRouter, String> {
    crate::core::guarded(|| {
        let mut dir = leak(&c.mount).Dir(leak(served.to_str().unwrap()));
        dir = match c.omit.len() {
            0 => dir, 1 => dir.omit_extensions([leak(&c.omit[0])]), 2 => dir.omit_extensions([leak(&c.omit[0]), leak(&c.omit[1])]),
            n => panic!("c19: {n} omit extensions not generated"),
        };
        let mut items = vec![];
        if c.param_sibling {
            let route = if c.mount == "/" { "/:p".to_string() } else { format!("{}/:p", c.mount) };
            items.push(DynItem::Handlers(leak(&route).GET(|p: String| async move { format!("PARAM:{p}") })));
        }
        items.push(DynItem::Dir(dir));
        VerifRouter::from(Ohkami::new(DynRouting(items)))
    })
}

fn requests(c: &Config, exp: &BTreeMap<String, (String, Vec<u8>, &'static str)>) -> Vec<(String, String, &'static str)> {
    let base = c.mount.trim_end_matches('/').to_string();
    let mut out: Vec<(String, String, &'static str)> = vec![];
    let mut add = |m: &str, p: String, kind: &'static str| { if !out.iter().any(|(mm, pp, _)| mm == m && *pp == p) { out.push((m.to_string(), p, kind)) } };
    for p in exp.keys() {
        add("GET", p.clone(), "file");
        add("HEAD", p.clone(), "file-head");
        add("POST", p.clone(), "file-post");
        if p != "/" { add("GET", format!("{p}/"), "file-trailing-slash"); add("GET", format!("{p}//"), "doubled-separator"); }
        // near misses
        if p.len() > 1 { add("GET", p[..p.len() - 1].to_string(), "near-miss:shorter"); }
        add("GET", format!("{p}x"), "near-miss:longer");
        if let Some(i) = p.rfind('/') { if i > 0 {
            add("GET", format!("{}//{}", &p[..i], &p[i + 1..]), "doubled-separator");
            add("GET", format!("{}%2F{}", &p[..i], &p[i + 1..]), "encoded-separator");
            add("GET", format!("{}/../{}", &p[..i], &p[i + 1..]), "dotdot");
            add("GET", format!("{}/x/../{}", &p[..i], &p[i + 1..]), "dotdot");
            add("GET", format!("{}/%2e%2e/{}", &p[..i], &p[i + 1..]), "dotdot-encoded");
        } }
    }
    for (dir, name) in &c.entries {
        let dp = if dir.is_empty() { base.clone() } else { format!("{base}/{dir}") };
        // directory paths, extension variants
        add("GET", if dp.is_empty() { "/".into() } else { dp.clone() }, "directory");
        add("GET", format!("{dp}/"), "directory");
        add("GET", format!("{dp}/{name}"), "full-name");
        let stem = &name[..name.rfind('.').unwrap()];
        add("GET", format!("{dp}/{stem}"), "stem");
        add("GET", format!("{dp}/{stem}."), "near-miss:dot");
        add("GET", format!("{dp}/{name}.{}", name.rsplit('.').next().unwrap()), "near-miss:double-ext");
        if !dir.is_empty() { add("GET", format!("{base}/{name}"), "wrong-directory"); }
    }
    for p in ["/secret.txt", "/outside/secret.txt", "/ln.txt", "/../outside/secret.txt", "/served/a.txt", "/new.txt", "/zz", "/ln2.txt", "/secret2.txt", "/2/secret2.txt", "/served2/secret2.txt"] {
        add("GET", format!("{base}{p}"), "outside");
    }
    add("GET", "/..".into(), "dotdot"); add("GET", "/".into(), "root"); add("GET", format!("{base}/%2e%2e/outside/secret.txt"), "dotdot-encoded");
    out
}

fn check_config(ctx: &mut Ctx, c: &Config, only: Option<(&str, &str)>) {
    let exp = match expected_map(c) { Ok(m) => m, Err(_) => { ctx.skip(); return } }; // two files -> one path: documented as unsupported
    let root = work_root();
    let served = match materialize(c, &root) { Ok(s) => s, Err(e) => { ctx.machinery_error(format!("cannot create tree: {e}")); return } };
    let router = build(c, &served);
    if c.mutate_after_mount && router.is_ok() {
        if let Some((d, n)) = c.entries.first() { let _ = std::fs::write(served.join(d).join(n), b"MODIFIED AFTER START-UP"); }
        if c.entries.len() > 1 { let (d, n) = c.entries.last().unwrap(); let _ = std::fs::remove_file(served.join(d).join(n)); }
        let _ = std::fs::write(served.join("new.txt"), b"added after start-up");
    }
    let router = match router {
        Ok(r) => r,
        Err(p) => {
            let _ = std::fs::remove_dir_all(&root);
            // a directory named `ab` next to a file that maps to `/ab` etc. is a registration conflict the framework reports: out of domain
            if p.contains("Conflicting") { ctx.skip(); return }
            ctx.violation(&format!("C19/registration/{}/rejected:{}", if c.symlink_outside { "symlink" } else { "plain" }, panic_kind(&p)), true, || json!({"config": c, "observed": format!("panic: {p}")}));
            return
        }
    };
    ctx.states += 1;
    // reference routing table: the files, plus the param sibling
    let mut table: Vec<Entry> = exp.keys().map(|p| Entry { segs: crate::appgen::split_route(p), method: "GET".into(), hid: format!("file:{p}") }).collect();
    if c.param_sibling {
        let mut segs = crate::appgen::split_route(&c.mount); segs.push(":p".into());
        table.push(Entry { segs, method: "GET".into(), hid: "param".into() });
    }
    let amb = ambiguous_paths(c);
    let reqs = match only { Some((m, p)) => vec![(m.to_string(), p.to_string(), "replay")], None => requests(c, &exp) };
    for (method, path, kind) in &reqs {
        ctx.transitions += 1;
        let out = app::oneshot(&router, &app::request(method, path, &[("Host", "h")], b""));
        let adm = admissible(&table, method, path);
        let witness = |note: String| json!({"config": c, "method": method, "path": path, "kind": kind, "observed": out.kind(),
            "observed_content_type": out.parsed().and_then(|p| p.header("Content-Type").map(str::to_string)), "observed_body": out.body().map(|b| crate::core::esc(&b[..b.len().min(80)])), "note": note});
        let feature = if c.symlink_outside { "symlink-outside" } else if c.mutate_after_mount { "modified-after-mount" } else if !c.omit.is_empty() { "omit" } else { "plain" };
        let trimmed = path.trim_end_matches('/');
        if amb.iter().any(|a| a == trimmed) || path.contains('%') && !path.contains("%2F") && !path.contains("%2e") { ctx.ambiguous(kind); continue }
        if adm.len() != 1 { ctx.ambiguous("routing-reading"); continue }
        match adm.into_iter().next().unwrap() {
            Match::Handler { hid, .. } if hid.starts_with("file:") => {
                let (_rel, bytes, mime) = &exp[&hid[5..]];
                match &out {
                    Outcome::Response { parsed: Ok(p), .. } if p.status == 200 => {
                        let ct_ok = p.header("Content-Type").map(|ct| ct == *mime || ct.starts_with(&format!("{mime};"))).unwrap_or(false);
                        let body_ok = if method == "HEAD" { p.body.is_empty() } else { p.body == *bytes };
                        if !ct_ok { ctx.violation(&format!("C19/{feature}/{kind}/wrong-content-type"), true, || witness(format!("expected {mime}"))) }
                        else if !body_ok { ctx.violation(&format!("C19/{feature}/{kind}/wrong-bytes"), true, || witness(format!("expected {} bytes", bytes.len()))) }
                        else { ctx.pass(&format!("served:{kind}:{mime}"), true, matches!(*kind, "file-trailing-slash" | "file-head") || c.param_sibling) }
                    }
                    Outcome::Response { parsed: Err(e), raw, .. } => {
                        // the message is not well-formed: say how (the usual reason: declared length != bytes that follow)
                        let e = e.clone(); let n = raw.len();
                        let sym = if e.contains("after the end of the message") { "body-not-covered-by-content-length".to_string() } else { format!("malformed:{}", panic_kind(&e)) };
                        ctx.violation(&format!("C19/{feature}/{}/{}", if bytes.is_empty() { "empty-file" } else { "file" }, sym), true, || witness(format!("{e}; {n} bytes on the wire")))
                    }
                    other => ctx.violation(&format!("C19/{feature}/{kind}/not-served({})", other.kind()), true, || witness("file should be served".into())),
                }
            }
            Match::Handler { .. } => match out.body() {
                Some(b) if b.starts_with(b"PARAM:") => ctx.pass(&format!("param-sibling:{kind}"), true, true),
                _ => ctx.violation(&format!("C19/{feature}/{kind}/param-sibling-not-reached({})", out.kind()), true, || witness("the sibling param route should answer".into())),
            },
            Match::NoHandler => match &out {
                Outcome::Response { parsed: Ok(p), .. } if p.status == 404 || (p.status == 405 && *method != "GET") => ctx.pass(&format!("404:{kind}"), true, matches!(*kind, "dotdot" | "dotdot-encoded" | "encoded-separator" | "doubled-separator" | "outside")),
                other => ctx.violation(&format!("C19/{feature}/{kind}/served-should-404({})", other.kind()), true, || witness("nothing is registered at this path".into())),
            },
        }
    }
    ctx.sample(|| json!({"config": c, "requests": reqs.len(), "expected_paths": exp.keys().collect::<Vec<_>>() }));
    let _ = std::fs::remove_dir_all(&root);
}

pub fn run(ctx: &mut Ctx) {
    app::pin_clock();
    let quick = ctx.quick();
    let all_entries: Vec<(String, String)> = DIRS.iter().flat_map(|d| FILES.iter().map(move |f| (d.to_string(), f.to_string()))).collect();
    let omits: Vec<Vec<String>> = vec![vec![], vec!["html".into()], vec!["html".into(), "txt".into()]];
    let mounts = ["/", "/s", "/s/t"];
    let max_entries = if quick { 2 } else { 3 };
    for k in 1..=max_entries {
        for combo in combinations(all_entries.len(), k) {
            for (oi, omit) in omits.iter().enumerate() { for (mi, mount) in mounts.iter().enumerate() {
                // (quick used to thin the pairs to a third; the whole product costs under two seconds on tmpfs)
                for variant in 0..4 {
                    if !ctx.mine() { continue }
                    if ctx.out_of_time() { return }
                    let c = Config { entries: combo.iter().map(|&i| all_entries[i].clone()).collect(), omit: omit.clone(), mount: mount.to_string(),
                        param_sibling: variant == 1, symlink_outside: variant == 2, mutate_after_mount: variant == 3 };
                    check_config(ctx, &c, None);
                }
            } }
        }
    }
    // "with the Content-Type of its extension": one tree holding a file of every supported extension (the trees above use six)
    for (oi, omit) in omits.iter().enumerate() { for mount in mounts.iter() {
        if !ctx.mine() { continue }
        let _ = oi;
        let exts = ["txt", "html", "css", "js", "xml", "csv", "tsv", "vcard", "jpeg", "gif", "png", "svg", "woff", "woff2", "json", "pdf"];
        let c = Config { entries: exts.iter().enumerate().map(|(i, e)| (if i % 2 == 0 { "".to_string() } else { "d".to_string() }, format!("f{i}.{e}"))).collect(),
            omit: omit.clone(), mount: mount.to_string(), param_sibling: false, symlink_outside: false, mutate_after_mount: false };
        check_config(ctx, &c, None);
    } }
    ctx.extra.insert("rule".into(), json!("case = (directory tree on disk, omit_extensions, mount route, variant {plain, sibling param route, symlink to an outside file, files modified/deleted/added after mounting}, request); non-trivial = every case (each request is compared with the path->(bytes,mime) map of the tree); collision = requests built to hit a shortcut: trailing slash / HEAD on a file, traversal and encoded/doubled separators, paths of outside files, requests next to a sibling param route"));
    ctx.extra.insert("bounds".into(), json!({"dirs": DIRS, "files": FILES, "entries_per_tree": max_entries, "omit": omits, "mounts": mounts, "variants": 4,
        "thinning": if quick { "none (all single entries and all pairs, all variants)" } else { "none (all single entries, pairs and triples, all variants)" }}));
    ctx.traces_validated = ctx.transitions;
}

pub fn replay(ctx: &mut Ctx, case: &Value) {
    app::pin_clock();
    let c: Config = serde_json::from_value(case["config"].clone()).expect("config");
    match (case["method"].as_str(), case["path"].as_str()) {
        (Some(m), Some(p)) => check_config(ctx, &c, Some((m, p))),
        _ => check_config(ctx, &c, None),
    }
}
