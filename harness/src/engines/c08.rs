//! C08 — network-facing decoders are total and memory-safe on arbitrary bytes (DESIGN §5 C08).
//!
//! One case = (decoder, target type, input bytes).  Every case inside the bound is executed on the real
//! decoder; the oracle is the statement itself: the call returns `Ok`/`Err` (no panic, no abort, no hang),
//! every yielded `str`/`String`/`char` re-validates, every borrowed slice lies inside the input (pointer range),
//! and an `Err`'s message is itself valid UTF-8.
//!
//! Isolation: all decoder calls of a unit run in a **forked child** of the worker.  Before each call the child
//! stores the call index in a shared page, pass counters live in that shared page too, and every violation is
//! written to a pipe immediately.  If the child dies from a signal (SIGABRT from a non-unwinding panic of
//! `unwrap_unchecked` / `get_unchecked` precondition checks, SIGSEGV, stack overflow, allocation failure …) or
//! stops making progress, the parent knows the exact case, records it as `abort:<signal>` / `hang`, and forks
//! a new child that resumes with the next call.  Nothing is lost and nothing is re-run.
use crate::app;
use crate::core::{esc, guarded, unesc, Ctx};
use crate::exec::{Driver, RunResult};
use crate::refmodel::urlenc as refenc;
use crate::sio::ScriptedReader;
use ohkami::__verif__::{RawConn, VerifRouter};
use ohkami_lib::serde_multipart::File;
use serde::de::{self, Deserializer, IgnoredAny, MapAccess, SeqAccess, Visitor};
use serde::Deserialize;
use serde_json::{json, Value};
use std::borrow::Cow;
use std::collections::{BTreeMap, HashSet};
use std::sync::atomic::{AtomicU64, Ordering};

/* =====================================================================================================
   what a call can yield, and the checks on it
   ===================================================================================================== */

#[derive(Debug)]
pub enum CallOut {
    Err,
    /// `inspected`: at least one non-empty string / slice / char was actually checked
    Ok { inspected: bool },
    /// (symptom, observed detail)
    Bad(String, String),
}

pub struct Insp {
    lo: usize,
    hi: usize,
    /// a static the decoder may legitimately hand out instead of a slice of the input (`"/"` for the empty path)
    allowed_static: &'static str,
    inspected: u32,
    issue: Option<(&'static str, String)>,
}

fn short(b: &[u8]) -> String { esc(&b[..b.len().min(48)]) }

impl Insp {
    fn new(range: (usize, usize)) -> Self { Insp { lo: range.0, hi: range.1, allowed_static: "", inspected: 0, issue: None } }
    fn set(&mut self, kind: &'static str, detail: String) { if self.issue.is_none() { self.issue = Some((kind, detail)) } }
    /// pointer-range check; false = the memory must not be read
    fn range(&mut self, p: *const u8, len: usize) -> bool {
        if len == 0 { return true }
        self.inspected += 1;
        let a = p as usize;
        let inside = a >= self.lo && a.checked_add(len).map_or(false, |e| e <= self.hi);
        if !inside {
            self.set("out-of-range-slice", format!("slice of {} bytes at input offset {} (input has {} bytes)", len, a as i128 - self.lo as i128, self.hi - self.lo));
        }
        inside
    }
    fn utf8(&mut self, b: &[u8]) { if std::str::from_utf8(b).is_err() { self.set("invalid-utf8", short(b)) } }
    fn borrowed_bytes(&mut self, b: &[u8]) { self.range(b.as_ptr(), b.len()); }
    fn borrowed_str(&mut self, s: &str) {
        let a = s.as_ptr() as usize;
        let inside = a >= self.lo && a.checked_add(s.len()).map_or(false, |e| e <= self.hi);
        if !inside && !self.allowed_static.is_empty() && s.len() == self.allowed_static.len() && s == self.allowed_static { self.inspected += 1; return }
        if self.range(s.as_ptr(), s.len()) { self.utf8(s.as_bytes()) }
    }
    /// a `&str` of which we cannot know whether it is borrowed: if it starts inside the input it must end inside
    fn maybe_borrowed_str(&mut self, s: &str) {
        let a = s.as_ptr() as usize;
        if !s.is_empty() && a >= self.lo && a < self.hi { self.borrowed_str(s) } else { self.owned_str(s) }
    }
    fn owned_str(&mut self, s: &str) { if !s.is_empty() { self.inspected += 1 } self.utf8(s.as_bytes()) }
    fn ch(&mut self, c: char) {
        self.inspected += 1;
        let u = std::hint::black_box(c as u32);
        if char::from_u32(u).is_none() { self.set("invalid-char", format!("U+{u:X}")) }
    }
}

pub trait Inspect { fn chk(&self, x: &mut Insp); }
macro_rules! inspect_nothing { ($($t:ty),*) => { $( impl Inspect for $t { fn chk(&self, _: &mut Insp) {} } )* } }
inspect_nothing!(bool, u8, u16, u32, u64, u128, usize, i8, i16, i32, i64, isize, f32, f64, (), IgnoredAny, UnitS, E);
impl Inspect for char { fn chk(&self, x: &mut Insp) { x.ch(*self) } }
impl Inspect for &str { fn chk(&self, x: &mut Insp) { x.borrowed_str(self) } }
impl Inspect for String { fn chk(&self, x: &mut Insp) { x.owned_str(self) } }
impl Inspect for Cow<'_, str> {
    fn chk(&self, x: &mut Insp) { match self { Cow::Borrowed(s) => x.borrowed_str(s), Cow::Owned(s) => x.owned_str(s) } }
}
impl Inspect for &[u8] { fn chk(&self, x: &mut Insp) { x.borrowed_bytes(self) } }
impl Inspect for Cow<'_, [u8]> {
    fn chk(&self, x: &mut Insp) { match self { Cow::Borrowed(b) => x.borrowed_bytes(b), Cow::Owned(b) => { if !b.is_empty() { x.inspected += 1 } } } }
}
impl<T: Inspect> Inspect for Option<T> { fn chk(&self, x: &mut Insp) { if let Some(t) = self { t.chk(x) } } }
impl<T: Inspect> Inspect for Vec<T> { fn chk(&self, x: &mut Insp) { for t in self { t.chk(x) } } }
impl<A: Inspect, B: Inspect> Inspect for (A, B) { fn chk(&self, x: &mut Insp) { self.0.chk(x); self.1.chk(x) } }
impl<K: Inspect, V: Inspect> Inspect for BTreeMap<K, V> { fn chk(&self, x: &mut Insp) { for (k, v) in self { k.chk(x); v.chk(x) } } }
impl Inspect for File<'_> {
    fn chk(&self, x: &mut Insp) { x.borrowed_str(self.filename); x.borrowed_str(self.mimetype); x.borrowed_bytes(self.content) }
}

/* ---------------- the target catalogue ---------------- */

#[derive(Deserialize)] pub struct W<T> { #[serde(alias = "n")] a: T }
impl<T: Inspect> Inspect for W<T> { fn chk(&self, x: &mut Insp) { self.a.chk(x) } }
#[derive(Deserialize)] pub struct WCow<'x> { #[serde(alias = "n", borrow)] a: Cow<'x, str> }
impl Inspect for WCow<'_> { fn chk(&self, x: &mut Insp) { self.a.chk(x) } }
#[derive(Deserialize)] pub struct Two { #[serde(alias = "n")] a: String, #[serde(rename = "F", alias = "f")] f: u8 }
impl Inspect for Two { fn chk(&self, x: &mut Insp) { self.a.chk(x); self.f.chk(x) } }
#[derive(Deserialize)] #[serde(deny_unknown_fields)] pub struct TwoDeny { #[serde(alias = "n")] a: String, #[serde(rename = "F", alias = "f")] f: Option<u8> }
impl Inspect for TwoDeny { fn chk(&self, x: &mut Insp) { self.a.chk(x); self.f.chk(x) } }
#[derive(Deserialize)] pub struct Inner { #[serde(alias = "n")] a: String }
impl Inspect for Inner { fn chk(&self, x: &mut Insp) { self.a.chk(x) } }
#[derive(Deserialize)] pub struct UnitS;
#[derive(Deserialize)] pub enum E { #[serde(rename = "a")] A, F, #[serde(rename = "1")] One, #[serde(rename = "x")] X, #[serde(rename = "true")] T }
#[derive(Deserialize)] pub enum Mixed { #[serde(rename = "a")] A, #[serde(rename = "1")] N(u8), F { a: String }, #[serde(rename = "x")] T(u8, String) }
impl Inspect for Mixed {
    fn chk(&self, x: &mut Insp) { match self { Mixed::A | Mixed::N(_) => {}, Mixed::F { a } => a.chk(x), Mixed::T(_, s) => s.chk(x) } }
}
#[derive(Deserialize)] pub struct Nt<T>(T);
impl<T: Inspect> Inspect for Nt<T> { fn chk(&self, x: &mut Insp) { self.0.chk(x) } }
#[allow(dead_code)] #[derive(Deserialize)] pub struct Ts(u8, String);
impl Inspect for Ts { fn chk(&self, x: &mut Insp) { self.1.chk(x) } }

/// owned bytes through `deserialize_byte_buf`
pub struct BytesBuf(Vec<u8>);
impl Inspect for BytesBuf { fn chk(&self, x: &mut Insp) { if !self.0.is_empty() { x.inspected += 1 } } }
impl<'de> Deserialize<'de> for BytesBuf {
    fn deserialize<D: Deserializer<'de>>(d: D) -> Result<Self, D::Error> {
        struct V;
        impl<'de> Visitor<'de> for V {
            type Value = BytesBuf;
            fn expecting(&self, f: &mut std::fmt::Formatter) -> std::fmt::Result { f.write_str("bytes") }
            fn visit_bytes<E: de::Error>(self, v: &[u8]) -> Result<BytesBuf, E> { Ok(BytesBuf(v.to_vec())) }
            fn visit_byte_buf<E: de::Error>(self, v: Vec<u8>) -> Result<BytesBuf, E> { Ok(BytesBuf(v)) }
            fn visit_str<E: de::Error>(self, v: &str) -> Result<BytesBuf, E> { Ok(BytesBuf(v.as_bytes().to_vec())) }
        }
        d.deserialize_byte_buf(V)
    }
}

/// self-describing target: whatever `deserialize_any` offers
pub enum Any<'a> {
    Plain,
    Char(char),
    Str(Cow<'a, str>),
    Bytes(Cow<'a, [u8]>),
    Seq(Vec<Any<'a>>),
    Map(Vec<(Any<'a>, Any<'a>)>),
    Boxed(Box<Any<'a>>),
}
impl Inspect for Any<'_> {
    fn chk(&self, x: &mut Insp) {
        match self {
            Any::Plain => {}
            Any::Char(c) => x.ch(*c),
            Any::Str(s) => s.chk(x),
            Any::Bytes(b) => b.chk(x),
            Any::Seq(v) => for a in v { a.chk(x) },
            Any::Map(v) => for (k, w) in v { k.chk(x); w.chk(x) },
            Any::Boxed(b) => b.chk(x),
        }
    }
}
impl<'de: 'a, 'a> Deserialize<'de> for Any<'a> {
    fn deserialize<D: Deserializer<'de>>(d: D) -> Result<Self, D::Error> {
        struct V<'a>(std::marker::PhantomData<&'a ()>);
        impl<'de: 'a, 'a> Visitor<'de> for V<'a> {
            type Value = Any<'a>;
            fn expecting(&self, f: &mut std::fmt::Formatter) -> std::fmt::Result { f.write_str("anything") }
            fn visit_bool<E: de::Error>(self, _: bool) -> Result<Any<'a>, E> { Ok(Any::Plain) }
            fn visit_i64<E: de::Error>(self, _: i64) -> Result<Any<'a>, E> { Ok(Any::Plain) }
            fn visit_u64<E: de::Error>(self, _: u64) -> Result<Any<'a>, E> { Ok(Any::Plain) }
            fn visit_f64<E: de::Error>(self, _: f64) -> Result<Any<'a>, E> { Ok(Any::Plain) }
            fn visit_char<E: de::Error>(self, c: char) -> Result<Any<'a>, E> { Ok(Any::Char(c)) }
            fn visit_str<E: de::Error>(self, v: &str) -> Result<Any<'a>, E> { Ok(Any::Str(Cow::Owned(v.to_string()))) }
            fn visit_borrowed_str<E: de::Error>(self, v: &'de str) -> Result<Any<'a>, E> { Ok(Any::Str(Cow::Borrowed(v))) }
            fn visit_string<E: de::Error>(self, v: String) -> Result<Any<'a>, E> { Ok(Any::Str(Cow::Owned(v))) }
            fn visit_bytes<E: de::Error>(self, v: &[u8]) -> Result<Any<'a>, E> { Ok(Any::Bytes(Cow::Owned(v.to_vec()))) }
            fn visit_borrowed_bytes<E: de::Error>(self, v: &'de [u8]) -> Result<Any<'a>, E> { Ok(Any::Bytes(Cow::Borrowed(v))) }
            fn visit_byte_buf<E: de::Error>(self, v: Vec<u8>) -> Result<Any<'a>, E> { Ok(Any::Bytes(Cow::Owned(v))) }
            fn visit_none<E: de::Error>(self) -> Result<Any<'a>, E> { Ok(Any::Plain) }
            fn visit_unit<E: de::Error>(self) -> Result<Any<'a>, E> { Ok(Any::Plain) }
            fn visit_some<D: Deserializer<'de>>(self, d: D) -> Result<Any<'a>, D::Error> { Ok(Any::Boxed(Box::new(Any::deserialize(d)?))) }
            fn visit_newtype_struct<D: Deserializer<'de>>(self, d: D) -> Result<Any<'a>, D::Error> { Ok(Any::Boxed(Box::new(Any::deserialize(d)?))) }
            fn visit_seq<A: SeqAccess<'de>>(self, mut s: A) -> Result<Any<'a>, A::Error> {
                let mut v = Vec::new();
                while let Some(a) = s.next_element::<Any<'a>>()? { v.push(a); if v.len() > 10_000 { break } }
                Ok(Any::Seq(v))
            }
            fn visit_map<A: MapAccess<'de>>(self, mut m: A) -> Result<Any<'a>, A::Error> {
                let mut v = Vec::new();
                while let Some(k) = m.next_key::<Any<'a>>()? { let w = m.next_value::<Any<'a>>()?; v.push((k, w)); if v.len() > 10_000 { break } }
                Ok(Any::Map(v))
            }
        }
        d.deserialize_any(V(std::marker::PhantomData))
    }
}

type Range = (usize, usize);
fn range_of(b: &[u8]) -> Range { let p = b.as_ptr() as usize; (p, p + b.len()) }

pub struct Target {
    pub name: &'static str,
    pub kind: &'static str,
    urlenc: fn(&[u8], Range) -> CallOut,
    cookie: fn(&str, Range) -> CallOut,
    multipart: fn(&[u8], Range) -> CallOut,
    utf8: fn(&str, Range) -> CallOut,
    query: fn(&ohkami::Request, Range) -> CallOut,
}

fn panic_slug(msg: &str) -> String {
    let head = msg.split(" @ ").next().unwrap_or(msg).lines().next().unwrap_or("");
    // messages of str slicing embed the (possibly garbage) string and differ between runs once a str is invalid
    if head.contains("byte index") && (head.contains("out of bounds") || head.contains("char boundary")) { return "str-byte-index-out-of-bounds-or-not-a-char-boundary".into() }
    let head = head.replace("`=`", " EQ ").replace("`&`", " AMP ").replace("`; `", " SEMI-SP ").replace("`;`", " SEMI ").replace("` `", " SP ");
    let mut out = String::new();
    let mut last_dash = true;
    for c in head.chars() {
        let c = if c.is_ascii_digit() { '#' } else { c };
        if c.is_ascii_alphanumeric() || c == '#' {
            if c == '#' && out.ends_with('#') { continue }
            out.push(c); last_dash = false;
        } else if !last_dash { out.push('-'); last_dash = true }
        if out.len() >= 90 { break }
    }
    while out.ends_with('-') { out.pop(); }
    if out.is_empty() { out.push_str("unknown") }
    out
}

/// turn the guarded result of a decoder call into a `CallOut`, running the checks on an `Ok` value
fn fin<T: Inspect, Er: std::fmt::Display>(range: Range, r: Result<Result<T, Er>, String>) -> CallOut {
    match r {
        Err(p) => CallOut::Bad(format!("panic:{}", panic_slug(&p)), p),
        Ok(Err(e)) => match guarded(|| e.to_string()) {
            Err(p) => CallOut::Bad(format!("panic-in-error-display:{}", panic_slug(&p)), p),
            Ok(m) => if std::str::from_utf8(m.as_bytes()).is_err() { CallOut::Bad("invalid-utf8-in-error".into(), short(m.as_bytes())) } else { CallOut::Err },
        },
        Ok(Ok(t)) => fin_value(range, "", t),
    }
}
fn fin_value<T: Inspect>(range: Range, allowed_static: &'static str, t: T) -> CallOut {
    let mut x = Insp::new(range);
    x.allowed_static = allowed_static;
    if let Err(p) = guarded(|| t.chk(&mut x)) { return CallOut::Bad(format!("panic-reading-yielded-value:{}", panic_slug(&p)), p) }
    if let Err(p) = guarded(move || drop(t)) { return CallOut::Bad(format!("panic-dropping-yielded-value:{}", panic_slug(&p)), p) }
    match x.issue { Some((k, d)) => CallOut::Bad(k.into(), d), None => CallOut::Ok { inspected: x.inspected > 0 } }
}

macro_rules! catalogue {
    ($( $name:literal, $kind:literal, $ty:ty; )*) => {
        pub static TARGETS: &[Target] = &[ $( Target {
            name: $name, kind: $kind,
            urlenc:    |i, r| fin(r, guarded(|| ohkami_lib::serde_urlencoded::from_bytes::<$ty>(i))),
            cookie:    |s, r| fin(r, guarded(|| ohkami_lib::serde_cookie::from_str::<$ty>(s))),
            multipart: |i, r| fin(r, guarded(|| ohkami_lib::serde_multipart::from_bytes::<$ty>(i))),
            utf8:      |s, r| fin(r, guarded(|| ohkami_lib::serde_utf8::from_str::<$ty>(s))),
            query:     |q, r| fin(r, guarded(|| q.query.parse::<$ty>())),
        } ),* ];
    };
}

catalogue! {
    "f:bool", "field:prim-bool", W<bool>;
    "f:u8", "field:prim-int", W<u8>;
    "f:u16", "field:prim-int", W<u16>;
    "f:u32", "field:prim-int", W<u32>;
    "f:u64", "field:prim-int", W<u64>;
    "f:usize", "field:prim-int", W<usize>;
    "f:i8", "field:prim-int", W<i8>;
    "f:i16", "field:prim-int", W<i16>;
    "f:i32", "field:prim-int", W<i32>;
    "f:i64", "field:prim-int", W<i64>;
    "f:isize", "field:prim-int", W<isize>;
    "f:u128", "field:prim-int128", W<u128>;
    "f:f32", "field:prim-float", W<f32>;
    "f:f64", "field:prim-float", W<f64>;
    "f:char", "field:char", W<char>;
    "f:&str", "field:str-borrowed", W<&'_ str>;
    "f:String", "field:str-owned", W<String>;
    "f:Cow<str>", "field:str-cow", WCow<'_>;
    "f:&[u8]", "field:bytes-borrowed", W<&'_ [u8]>;
    "f:ByteBuf", "field:bytes-owned", W<BytesBuf>;
    "f:Option<String>", "field:option-str-owned", W<Option<String>>;
    "f:Option<u8>", "field:prim-int-in-option", W<Option<u8>>;
    "f:Option<&str>", "field:option-str-borrowed", W<Option<&'_ str>>;
    "f:()", "field:unit", W<()>;
    "f:UnitStruct", "field:unit-struct", W<UnitS>;
    "f:enum", "field:enum-unit", W<E>;
    "f:enum-with-data", "field:enum-data", W<Mixed>;
    "f:Newtype<u8>", "field:prim-int-in-newtype", W<Nt<u8>>;
    "f:Newtype<String>", "field:newtype-str-owned", W<Nt<String>>;
    "f:Vec<String>", "field:seq-of-str", W<Vec<String>>;
    "f:Vec<u8>", "field:seq-of-int", W<Vec<u8>>;
    "f:Vec<&str>", "field:seq-of-str-borrowed", W<Vec<&'_ str>>;
    "f:(u8,String)", "field:seq-tuple", W<(u8, String)>;
    "f:TupleStruct", "field:seq-tuple-struct", W<Ts>;
    "f:BTreeMap<String,String>", "field:map", W<BTreeMap<String, String>>;
    "f:struct", "field:struct", W<Inner>;
    "f:IgnoredAny", "field:ignored", W<IgnoredAny>;
    "f:Any", "field:any", W<Any<'_>>;
    "f:File", "field:file", W<File<'_>>;
    "f:Vec<File>", "field:seq-of-file", W<Vec<File<'_>>>;
    "f:Option<File>", "field:option-file", W<Option<File<'_>>>;
    "t:struct2", "top:struct(str,prim-int)", Two;
    "t:struct2-deny-unknown", "top:struct-deny-unknown(str,prim-int-in-option)", TwoDeny;
    "t:BTreeMap<String,String>", "top:map(str,str)", BTreeMap<String, String>;
    "t:BTreeMap<&str,&str>", "top:map(str-borrowed)", BTreeMap<&'_ str, &'_ str>;
    "t:BTreeMap<String,u8>", "top:map(str,prim-int)", BTreeMap<String, u8>;
    "t:Newtype<struct>", "top:newtype(struct(str))", Nt<W<String>>;
    "t:Vec<String>", "top:seq-of-str", Vec<String>;
    "t:(u8,String)", "top:seq-tuple", (u8, String);
    "t:String", "top:str-owned", String;
    "t:&str", "top:str-borrowed", &'_ str;
    "t:u8", "top:prim-int", u8;
    "t:i64", "top:prim-int", i64;
    "t:bool", "top:prim-bool", bool;
    "t:f64", "top:prim-float", f64;
    "t:char", "top:char", char;
    "t:Option<u8>", "top:prim-int-in-option", Option<u8>;
    "t:()", "top:unit", ();
    "t:enum", "top:enum-unit", E;
    "t:&[u8]", "top:bytes-borrowed", &'_ [u8];
    "t:IgnoredAny", "top:ignored", IgnoredAny;
    "t:Any", "top:any", Any<'_>;
    "t:File", "top:file", File<'_>;
}

/* =====================================================================================================
   decoders
   ===================================================================================================== */

#[derive(Clone, Copy, PartialEq, Eq, Debug)]
pub enum Dec {
    Urlenc, QueryParse, QueryIter, Cookie, CookiesIter, SetCookieName, SetCookiePath,
    Percent, RawParam, PathStr, PathParams, Multipart, Utf8,
}
const ALL_DECS: &[Dec] = &[Dec::Urlenc, Dec::QueryParse, Dec::QueryIter, Dec::Cookie, Dec::CookiesIter, Dec::SetCookieName,
    Dec::SetCookiePath, Dec::Percent, Dec::RawParam, Dec::PathStr, Dec::PathParams, Dec::Multipart, Dec::Utf8];

const PERCENT_T: &[(&str, &str)] = &[("percent_decode", "bytes-cow"), ("percent_decode_utf8", "str-cow")];
const RAWPARAM_T: &[(&str, &str)] = &[("String", "str-owned"), ("Cow<str>", "str-cow"), ("&str", "str-borrowed"), ("u8", "prim-int"), ("u64", "prim-int"), ("i8", "prim-int"), ("i64", "prim-int")];
const PATHSTR_T: &[(&str, &str)] = &[("Path::str", "str-cow"), ("Path::deref", "str-borrowed"), ("Path::fmt", "display")];
const PATHPARAMS_T: &[(&str, &str)] = &[("Path::params", "str-cow"), ("handler(String)", "str-owned")];
const SINGLE_T: &[(&str, &str)] = &[("iter", "pairs")];

impl Dec {
    pub fn name(self) -> &'static str {
        match self {
            Dec::Urlenc => "urlencoded", Dec::QueryParse => "query-parse", Dec::QueryIter => "query-iter",
            Dec::Cookie => "cookie", Dec::CookiesIter => "cookies-iter",
            Dec::SetCookieName => "setcookie@name", Dec::SetCookiePath => "setcookie@path",
            Dec::Percent => "percent", Dec::RawParam => "raw-param", Dec::PathStr => "path-str", Dec::PathParams => "path-params",
            Dec::Multipart => "multipart", Dec::Utf8 => "utf8",
        }
    }
    fn from_name(s: &str) -> Option<Dec> { ALL_DECS.iter().copied().find(|d| d.name() == s) }
    fn uses_catalogue(self) -> bool { matches!(self, Dec::Urlenc | Dec::QueryParse | Dec::Cookie | Dec::Multipart | Dec::Utf8) }
    fn other_targets(self) -> &'static [(&'static str, &'static str)] {
        match self {
            Dec::Percent => PERCENT_T, Dec::RawParam => RAWPARAM_T, Dec::PathStr => PATHSTR_T, Dec::PathParams => PATHPARAMS_T,
            _ => SINGLE_T,
        }
    }
    pub fn ntargets(self) -> usize { if self.uses_catalogue() { TARGETS.len() } else { self.other_targets().len() } }
    pub fn target_name(self, t: usize) -> &'static str { if self.uses_catalogue() { TARGETS[t].name } else { self.other_targets()[t].0 } }
    pub fn target_kind(self, t: usize) -> &'static str { if self.uses_catalogue() { TARGETS[t].kind } else { self.other_targets()[t].1 } }
    fn needs_utf8_input(self) -> bool { matches!(self, Dec::Cookie | Dec::CookiesIter | Dec::SetCookieName | Dec::SetCookiePath | Dec::Utf8) }
}

/// per-child state that is expensive to rebuild for every call
#[derive(Default)]
struct Cache {
    /// (index of the input the connection was read for, connection or None if the request was not accepted, base of its buffer)
    conn: Option<(usize, Option<RawConn>)>,
    router: Option<VerifRouter>,
}

fn read_request(raw: &[u8]) -> Result<Option<RawConn>, String> {
    guarded(|| {
        let mut conn = RawConn::init();
        let mut reader = ScriptedReader::new(vec![raw.to_vec()], false);
        reader.deliver_next();
        let mut d = Driver::new();
        let accepted = {
            let fut = conn.read(&mut reader);
            let mut fut = std::pin::pin!(fut);
            matches!(d.run(fut.as_mut(), 1000), RunResult::Ready(Ok(Some(()))))
        };
        if accepted { Some(conn) } else { None }
    })
}

/// address of the byte at `offset` of the request buffer, learnt from a borrowed query key that the harness put
/// at a known offset (`…?zq=1` at the end of the target, or the first key)
fn query_key_addr(conn: &RawConn, key: &str) -> Option<usize> {
    for (k, _) in conn.request().query.iter() {
        if let Cow::Borrowed(s) = &k { if *s == key { return Some(s.as_ptr() as usize) } }
    }
    None
}

fn params_router() -> VerifRouter {
    use ohkami::prelude::*;
    async fn all_params(req: &Request) -> String {
        req.path.params().map(|c| c.into_owned()).collect::<Vec<_>>().join("|")
    }
    async fn one_string(p: String) -> String { p }
    VerifRouter::from(Ohkami::new((
        "/p/:a".GET(all_params),
        "/s/:a".GET(one_string),
    )))
}

fn call(dec: Dec, t: usize, idx: usize, input: &[u8], cache: &mut Cache) -> CallOut {
    fn as_str(b: &[u8]) -> Option<&str> { std::str::from_utf8(b).ok() }
    match dec {
        Dec::Urlenc => (TARGETS[t].urlenc)(input, range_of(input)),
        Dec::Multipart => (TARGETS[t].multipart)(input, range_of(input)),
        Dec::Cookie => match as_str(input) { Some(s) => (TARGETS[t].cookie)(s, range_of(input)), None => CallOut::Err },
        Dec::Utf8 => match as_str(input) { Some(s) => (TARGETS[t].utf8)(s, range_of(input)), None => CallOut::Err },
        Dec::CookiesIter => {
            let Some(s) = as_str(input) else { return CallOut::Err };
            match guarded(|| ohkami::util::iter_cookies(s).collect::<Vec<_>>()) {
                Err(p) => CallOut::Bad(format!("panic:{}", panic_slug(&p)), p),
                Ok(v) => fin_value(range_of(input), "", v),
            }
        }
        Dec::QueryParse | Dec::QueryIter => {
            // GET /p?<input>&zq=1 would change the input; instead the buffer base is learnt from the path: "/p" is
            // always valid UTF-8, so `Deref` on the path is safe to call and points at offset 4 of the buffer
            if cache.conn.as_ref().map(|c| c.0) != Some(idx) {
                let mut raw = b"GET /p?".to_vec(); raw.extend_from_slice(input); raw.extend_from_slice(b" HTTP/1.1\r\n\r\n");
                match read_request(&raw) {
                    Ok(c) => cache.conn = Some((idx, c)),
                    Err(p) => { cache.conn = None; return CallOut::Bad(format!("panic-in-request-read:{}", panic_slug(&p)), p) }
                }
            }
            let Some((_, Some(conn))) = cache.conn.as_ref() else { return CallOut::Err };
            let req = conn.request();
            let path: &str = &req.path;
            let qlo = path.as_ptr() as usize + 3; // "/p?" precedes the query
            let range = (qlo, qlo + input.len());
            if dec == Dec::QueryParse { (TARGETS[t].query)(req, range) } else {
                match guarded(|| req.query.iter().collect::<Vec<_>>()) {
                    Err(p) => CallOut::Bad(format!("panic:{}", panic_slug(&p)), p),
                    Ok(v) => fin_value(range, "", v),
                }
            }
        }
        Dec::SetCookieName | Dec::SetCookiePath => {
            let Some(s) = as_str(input) else { return CallOut::Err };
            let built = guarded(|| {
                let mut res = ohkami::Response::OK();
                if dec == Dec::SetCookieName {
                    let name: &'static str = Box::leak(s.to_string().into_boxed_str());
                    res.headers.set().SetCookie(name, "", |d| d);
                } else {
                    res.headers.set().SetCookie("a", "1", |d| d.Path(s.to_string()));
                }
                res
            });
            let res = match built { Ok(r) => r, Err(p) => return CallOut::Bad(format!("panic-in-builder:{}", panic_slug(&p)), p) };
            let Some(raw) = res.headers.iter().find(|(k, _)| *k == "Set-Cookie").map(|(_, v)| v) else { return CallOut::Err };
            let range = range_of(raw.as_bytes());
            let parsed = guarded(|| res.headers.SetCookie().collect::<Vec<_>>());
            match parsed {
                Err(p) => CallOut::Bad(format!("panic:{}", panic_slug(&p)), p),
                Ok(v) if v.is_empty() => CallOut::Err,
                Ok(v) => {
                    let mut x = Insp::new(range);
                    let r = guarded(|| for sc in &v {
                        let (n, val) = sc.Cookie();
                        x.borrowed_str(n);
                        x.maybe_borrowed_str(val);
                        for d in [sc.Expires(), sc.Domain(), sc.Path()].into_iter().flatten() { x.borrowed_str(d) }
                        if let Some(ss) = sc.SameSite() { x.owned_str(ss) }
                        let _ = (sc.MaxAge(), sc.Secure(), sc.HttpOnly());
                    });
                    if let Err(p) = r { return CallOut::Bad(format!("panic-reading-yielded-value:{}", panic_slug(&p)), p) }
                    match x.issue { Some((k, d)) => CallOut::Bad(k.into(), d), None => CallOut::Ok { inspected: x.inspected > 0 } }
                }
            }
        }
        Dec::Percent => match t {
            0 => match guarded(|| ohkami_lib::percent_decode(input)) {
                Err(p) => CallOut::Bad(format!("panic:{}", panic_slug(&p)), p),
                Ok(c) => fin_value(range_of(input), "", c),
            },
            _ => fin(range_of(input), guarded(|| ohkami_lib::percent_decode_utf8(input))),
        },
        Dec::RawParam => {
            use ohkami::FromParam;
            fn go<'p, T: FromParam<'p> + Inspect>(input: &'p [u8]) -> CallOut {
                match guarded(|| T::from_raw_param(input)) {
                    Err(p) => CallOut::Bad(format!("panic:{}", panic_slug(&p)), p),
                    Ok(Err(_response)) => CallOut::Err,
                    Ok(Ok(v)) => fin_value(range_of(input), "", v),
                }
            }
            match t {
                0 => go::<String>(input), 1 => go::<Cow<str>>(input), 2 => go::<&str>(input),
                3 => go::<u8>(input), 4 => go::<u64>(input), 5 => go::<i8>(input), _ => go::<i64>(input),
            }
        }
        Dec::PathStr => {
            if cache.conn.as_ref().map(|c| c.0) != Some(idx) {
                let mut raw = b"GET /".to_vec(); raw.extend_from_slice(input); raw.extend_from_slice(b"?zq=1 HTTP/1.1\r\n\r\n");
                match read_request(&raw) {
                    Ok(c) => cache.conn = Some((idx, c)),
                    Err(p) => { cache.conn = None; return CallOut::Bad(format!("panic-in-request-read:{}", panic_slug(&p)), p) }
                }
            }
            let Some((_, Some(conn))) = cache.conn.as_ref() else { return CallOut::Err };
            // the key "zq" sits right after "GET /<input>?"  => buffer base = its address - (5 + len + 1)
            let Some(zq) = query_key_addr(conn, "zq") else { return CallOut::Err };
            let plo = zq - (input.len() + 2); // address of the leading '/'
            let range = (plo, plo + 1 + input.len());
            let req = conn.request();
            match t {
                0 => match guarded(|| req.path.str()) {
                    Err(p) => CallOut::Bad(format!("panic:{}", panic_slug(&p)), p),
                    Ok(c) => fin_value(range, "/", c),
                },
                1 => match guarded(|| { let s: &str = &req.path; s }) {
                    Err(p) => CallOut::Bad(format!("panic:{}", panic_slug(&p)), p),
                    Ok(s) => fin_value(range, "/", s),
                },
                _ => match guarded(|| format!("{} {:?}", req.path, req.path)) {
                    Err(p) => CallOut::Bad(format!("panic:{}", panic_slug(&p)), p),
                    Ok(s) => fin_value(range, "", s),
                },
            }
        }
        Dec::PathParams => {
            if cache.router.is_none() { cache.router = Some(params_router()) }
            let router = cache.router.as_ref().unwrap();
            let mut raw = if t == 0 { b"GET /p/".to_vec() } else { b"GET /s/".to_vec() };
            raw.extend_from_slice(input); raw.extend_from_slice(b" HTTP/1.1\r\n\r\n");
            match app::oneshot(router, &raw) {
                app::Outcome::Panic(stage, p) => CallOut::Bad(format!("panic@{stage}:{}", panic_slug(&p)), p),
                app::Outcome::Stall(stage) => CallOut::Bad(format!("stall@{stage}"), String::new()),
                app::Outcome::Closed => CallOut::Err,
                // the response bytes are C03's business; here only: did the handler run and is what it echoed a valid string
                app::Outcome::Response { raw: resp, .. } => {
                    if resp.starts_with(b"HTTP/1.1 200") {
                        let body = find(&resp, b"\r\n\r\n", 0).map(|i| &resp[i + 4..]).unwrap_or(&resp[..0]);
                        if std::str::from_utf8(body).is_err() { CallOut::Bad("invalid-utf8".into(), short(body)) } else { CallOut::Ok { inspected: !body.is_empty() } }
                    } else { CallOut::Err }
                }
            }
        }
    }
}

/* =====================================================================================================
   input-shape features (the last component of a class id) — deterministic functions of the input only
   ===================================================================================================== */

/// The class id carries ONE feature: the first hazard present, in a per-decoder priority order chosen so that the
/// hazard that explains a symptom comes first (`well-formed` = no hazard at all).
fn primary(h: Vec<&'static str>, priority: &[&'static str]) -> String {
    for p in priority { if h.contains(p) { return (*p).into() } }
    match h.first() { Some(f) => (*f).into(), None => "well-formed".into() }
}
fn push(h: &mut Vec<&'static str>, f: &'static str) { if !h.contains(&f) { h.push(f) } }

fn encoding_hazards(parts: &[&[u8]], h: &mut Vec<&'static str>) {
    if parts.iter().any(|p| p.iter().any(|b| *b >= 0x80)) { push(h, "raw-non-ascii") }
    if parts.iter().any(|p| !refenc::escapes_well_formed(p)) { push(h, "pct-malformed") }
    // what the decoders under test do with malformed escapes is to leave them alone; decode leniently for the UTF-8 question
    if parts.iter().any(|p| p.contains(&b'%') && std::str::from_utf8(&lenient_pct(p)).is_err()) { push(h, "pct-invalid-utf8") }
}
/// percent-decoding that leaves malformed escapes untouched (only used to *classify* inputs)
fn lenient_pct(s: &[u8]) -> Vec<u8> {
    let mut out = Vec::with_capacity(s.len());
    let mut i = 0;
    while i < s.len() {
        if s[i] == b'%' && i + 2 < s.len() && refenc::is_hex(s[i + 1]) && refenc::is_hex(s[i + 2]) {
            out.push(u8::from_str_radix(std::str::from_utf8(&s[i + 1..i + 3]).unwrap(), 16).unwrap()); i += 3;
        } else { out.push(s[i]); i += 1 }
    }
    out
}

fn feat_urlenc(s: &[u8]) -> String {
    if s.is_empty() { return "empty".into() }
    let mut h = Vec::new();
    let mut parts: Vec<&[u8]> = Vec::new();
    for (k, v) in refenc::split_pairs(s) {
        parts.push(k);
        match v {
            None => push(&mut h, "pair-without-eq"),
            Some(v) => {
                if k.is_empty() { push(&mut h, "empty-key") }
                if v.contains(&b'=') { push(&mut h, "value-eq") }
                parts.push(v);
            }
        }
    }
    encoding_hazards(&parts, &mut h);
    if s.contains(&b',') { push(&mut h, "comma") }
    primary(h, &["value-eq", "pair-without-eq", "empty-key", "pct-invalid-utf8", "raw-non-ascii", "pct-malformed", "comma"])
}

fn feat_cookie(s: &[u8]) -> String {
    if s.is_empty() { return "empty".into() }
    let mut h = Vec::new();
    let mut parts: Vec<&[u8]> = Vec::new();
    let text = String::from_utf8_lossy(s).into_owned();
    for pair in text.split("; ") {
        let pair = pair.as_bytes();
        if pair.contains(&b';') { push(&mut h, "bare-semicolon") }
        match pair.iter().position(|b| *b == b'=') {
            None => push(&mut h, "pair-without-eq"),
            Some(n) => {
                let (k, v) = (&pair[..n], &pair[n + 1..]);
                if k.is_empty() { push(&mut h, "empty-name") }
                if v.contains(&b'=') { push(&mut h, "value-eq") }
                let v = if v.len() >= 2 && v[0] == b'"' && v[v.len() - 1] == b'"' { &v[1..v.len() - 1] } else { v };
                if k.iter().any(|b| *b <= 32 || *b >= 127 || b"()<>@,;:\\\"/[]?={}".contains(b)) { push(&mut h, "bad-name-char") }
                if v.iter().any(|b| *b <= 32 || *b >= 127 || b",;\\\"".contains(b)) { push(&mut h, "bad-value-char") }
            }
        }
    }
    // the escapes are judged on the raw bytes of every `=`/`;`-separated piece
    for piece in s.split(|b| matches!(b, b'=' | b';')) { parts.push(piece) }
    let mut e = Vec::new();
    encoding_hazards(&parts, &mut e);
    for f in e { if f != "raw-non-ascii" { push(&mut h, f) } }
    primary(h, &["pct-invalid-utf8", "value-eq", "pair-without-eq", "empty-name", "bare-semicolon", "bad-name-char", "bad-value-char", "pct-malformed"])
}

fn feat_setcookie(s: &[u8]) -> String {
    let mut h = Vec::new();
    let text = String::from_utf8_lossy(s).into_owned();
    let mut pieces = text.split("; ");
    let first = pieces.next().unwrap_or("");
    if !first.contains('=') { push(&mut h, "no-eq") }
    for d in pieces {
        if let Some(v) = d.strip_prefix("Max-Age=") {
            if v.bytes().any(|b| b < b'0') { push(&mut h, "max-age-byte-below-0") }
            if v.bytes().any(|b| b > b'9') { push(&mut h, "max-age-byte-above-9") }
            if v.len() >= 20 { push(&mut h, "max-age-20+digits") }
        } else if d.starts_with("Max-Age") { push(&mut h, "max-age-without-eq") }
        else if !["Expires=", "Domain=", "Path=", "SameSite="].iter().any(|p| d.starts_with(p)) && !d.starts_with("Secure") && !d.starts_with("HttpOnly") {
            push(&mut h, "unknown-directive")
        }
    }
    if text.contains(';') && text.split("; ").any(|p| p.contains(';')) { push(&mut h, "bare-semicolon") }
    let mut e = Vec::new();
    encoding_hazards(&[s], &mut e);
    for f in e { push(&mut h, f) }
    primary(h, &["max-age-byte-below-0", "max-age-20+digits", "max-age-byte-above-9", "max-age-without-eq", "pct-invalid-utf8", "no-eq", "unknown-directive", "bare-semicolon", "pct-malformed", "raw-non-ascii"])
}

fn feat_percent(s: &[u8]) -> String {
    if s.is_empty() { return "empty".into() }
    let mut h = Vec::new();
    encoding_hazards(&[s], &mut h);
    primary(h, &["pct-invalid-utf8", "raw-non-ascii", "pct-malformed"])
}

fn feat_utf8(s: &[u8]) -> String {
    if s.is_empty() { return "empty".into() }
    if s.iter().any(|b| *b >= 0x80) { "non-ascii".into() } else { "ascii".into() }
}

fn find(hay: &[u8], needle: &[u8], from: usize) -> Option<usize> {
    if needle.is_empty() { return Some(from.min(hay.len())) }
    if hay.len() < needle.len() { return None }
    (from..=hay.len() - needle.len()).find(|&i| &hay[i..i + needle.len()] == needle)
}

/// tolerant scan of a multipart body, used only to name the shape of an input
fn feat_multipart(s: &[u8]) -> String {
    if s.is_empty() { return "empty".into() }
    let mut h = Vec::new();
    const CRLF: &[u8] = b"\r\n";
    let bend = find(s, CRLF, 0).unwrap_or(s.len());
    let boundary = &s[..bend];
    if boundary.is_empty() { push(&mut h, "empty-boundary") }
    else if !boundary.starts_with(b"--") { push(&mut h, "boundary-without-dashes") }
    let mut pos = bend;
    let mut parts = 0;
    loop {
        let rest = &s[pos..];
        if rest.is_empty() { push(&mut h, "no-closing-delimiter"); break }
        if rest.starts_with(b"--") && !rest.starts_with(CRLF) { if rest.len() > 2 { push(&mut h, "bytes-after-closing-delimiter") } break }
        if !rest.starts_with(CRLF) { push(&mut h, "garbage-after-boundary"); break }
        pos += 2;
        // headers
        let mut filename: Option<Vec<u8>> = None;
        let mut broken = false;
        loop {
            let rest = &s[pos..];
            if rest.starts_with(CRLF) { pos += 2; break }
            let Some(e) = find(s, CRLF, pos) else { push(&mut h, "unterminated-header"); broken = true; break };
            let line = &s[pos..e];
            let lower = line.to_ascii_lowercase();
            if lower.starts_with(b"content-disposition") {
                if !line[19..].starts_with(b": form-data; name=\"") { push(&mut h, "bad-disposition") }
                if let Some(f) = find(line, b"; filename=", 0) {
                    let v = &line[f + 11..];
                    if v.len() >= 2 && v[0] == b'"' && v[v.len() - 1] == b'"' { filename = Some(v[1..v.len() - 1].to_vec()) } else { push(&mut h, "bad-filename") }
                }
            } else if lower.starts_with(b"content-type") {
                if !line[12..].starts_with(b": ") { push(&mut h, "bad-content-type") }
            } else { push(&mut h, "other-header") }
            if line.iter().any(|b| *b >= 0x80) { push(&mut h, "non-ascii-in-header") }
            pos = e + 2;
        }
        if broken { break }
        let Some(b) = find(s, boundary, pos) else {
            // the decoder under test takes everything up to the end of the input as the content region in this case
            if s.len() - pos < 2 { push(&mut h, "content-shorter-than-crlf") }
            push(&mut h, "no-closing-delimiter"); break
        };
        let before = &s[pos..b];
        if before.len() < 2 { push(&mut h, "content-shorter-than-crlf") }
        else if !before.ends_with(CRLF) { push(&mut h, "content-without-crlf") }
        let content = if before.len() >= 2 { &before[..before.len() - 2] } else { &before[..0] };
        match &filename {
            Some(f) => { if f.is_empty() && content.is_empty() { push(&mut h, "empty-file-part") } }
            None => { if std::str::from_utf8(content).is_err() { push(&mut h, "non-utf8-text-part") } }
        }
        parts += 1;
        pos = b + boundary.len();
        if parts > 64 { break }
    }
    primary(h, &["content-shorter-than-crlf", "empty-file-part", "empty-boundary", "content-without-crlf", "non-utf8-text-part", "non-ascii-in-header",
        "bad-disposition", "bad-filename", "bad-content-type", "other-header", "unterminated-header", "garbage-after-boundary",
        "boundary-without-dashes", "bytes-after-closing-delimiter", "no-closing-delimiter"])
}

pub fn feature(dec: Dec, input: &[u8]) -> String {
    match dec {
        Dec::Urlenc | Dec::QueryParse | Dec::QueryIter => feat_urlenc(input),
        Dec::Cookie | Dec::CookiesIter => feat_cookie(input),
        Dec::SetCookieName => { let mut v = input.to_vec(); v.push(b'='); feat_setcookie(&v) }
        Dec::SetCookiePath => { let mut v = b"a=1; Path=".to_vec(); v.extend_from_slice(input); feat_setcookie(&v) }
        Dec::Percent | Dec::RawParam | Dec::PathStr | Dec::PathParams => feat_percent(input),
        Dec::Multipart => feat_multipart(input),
        Dec::Utf8 => feat_utf8(input),
    }
}

/// "the input has some structure" (used for the non-trivial count only)
fn structural(dec: Dec, input: &[u8]) -> bool {
    match dec {
        Dec::Urlenc | Dec::QueryParse | Dec::QueryIter | Dec::Cookie | Dec::CookiesIter | Dec::SetCookieName | Dec::SetCookiePath => input.contains(&b'=') && input.len() >= 2,
        Dec::Percent | Dec::RawParam | Dec::PathStr | Dec::PathParams => input.contains(&b'%'),
        Dec::Multipart => find(input, b"\r\n", 0).is_some(),
        Dec::Utf8 => !input.is_empty(),
    }
}

/* =====================================================================================================
   process isolation
   ===================================================================================================== */

const MAX_T: usize = 80;
const NCOUNT: usize = 4; // err, ok, ok+inspected, non-trivial
#[repr(C)]
struct Shm {
    cur: AtomicU64,
    done: AtomicU64,
    counters: [AtomicU64; MAX_T * NCOUNT],
}

fn shm() -> &'static Shm {
    use std::sync::OnceLock;
    static S: OnceLock<usize> = OnceLock::new();
    let p = *S.get_or_init(|| unsafe {
        let len = std::mem::size_of::<Shm>();
        let p = libc::mmap(std::ptr::null_mut(), len, libc::PROT_READ | libc::PROT_WRITE, libc::MAP_SHARED | libc::MAP_ANONYMOUS, -1, 0);
        assert!(p != libc::MAP_FAILED, "mmap of the shared page failed");
        std::ptr::write_bytes(p as *mut u8, 0, len);
        p as usize
    });
    unsafe { &*(p as *const Shm) }
}

pub struct Unit {
    pub dec: Dec,
    pub inputs: Vec<Vec<u8>>,
    pub targets: Vec<usize>,
    pub label: String,
}
/// Which part of the catalogue a phase uses.  In the urlencoded and cookie decoders every target that is not a
/// struct/map at top level fails the same way on *every* input (a debug assertion on the parsing side, see the
/// findings), so those targets (`Rest`) are explored with a smaller input bound than the struct-shaped ones (`Core`).
#[derive(Clone, Copy, PartialEq, Eq, Debug)]
pub enum Sel { All, Core, Rest, Multipart }
/// Targets used on the grammar-generated multipart bodies (one per serde entry point the multipart deserializer
/// distinguishes; the other catalogue entries take the same `deserialize_any` path as `f:u8`).
const MP_TARGETS: &[&str] = &["f:bool", "f:u8", "f:char", "f:&str", "f:String", "f:Cow<str>", "f:&[u8]", "f:Option<String>", "f:Option<&str>",
    "f:()", "f:enum", "f:Newtype<String>", "f:Vec<String>", "f:BTreeMap<String,String>", "f:struct", "f:IgnoredAny", "f:Any",
    "f:File", "f:Vec<File>", "f:Option<File>", "t:struct2", "t:struct2-deny-unknown", "t:BTreeMap<String,String>", "t:BTreeMap<&str,&str>", "t:Any", "t:File"];
fn is_core(kind: &str) -> bool {
    kind.starts_with("field:") || kind.starts_with("top:struct") || kind.starts_with("top:map") || kind.starts_with("top:newtype")
}
fn select(dec: Dec, sel: Sel) -> Vec<usize> {
    (0..dec.ntargets()).filter(|&t| match sel {
        Sel::All => true,
        Sel::Core => !dec.uses_catalogue() || is_core(dec.target_kind(t)),
        Sel::Rest => dec.uses_catalogue() && !is_core(dec.target_kind(t)),
        Sel::Multipart => MP_TARGETS.contains(&dec.target_name(t)),
    }).collect()
}
impl Unit {
    fn new(dec: Dec, sel: Sel, inputs: Vec<Vec<u8>>, label: String) -> Self { Unit { dec, inputs, targets: select(dec, sel), label } }
    fn total(&self) -> u64 { (self.inputs.len() * self.targets.len()) as u64 }
    fn locate(&self, c: u64) -> (usize, usize) { ((c / self.targets.len() as u64) as usize, self.targets[(c % self.targets.len() as u64) as usize]) }
}

fn write_all(fd: i32, mut b: &[u8]) {
    while !b.is_empty() {
        let n = unsafe { libc::write(fd, b.as_ptr() as *const libc::c_void, b.len()) };
        if n <= 0 { if n < 0 && std::io::Error::last_os_error().kind() == std::io::ErrorKind::Interrupted { continue } unsafe { libc::_exit(97) } }
        b = &b[n as usize..];
    }
}

fn one_line(s: &str) -> String {
    let mut o = String::new();
    for c in s.chars().take(300) { match c { '\t' => o.push_str("\\t"), '\n' => o.push_str("\\n"), '\r' => o.push_str("\\r"), c => o.push(c) } }
    o
}

fn child_main(unit: &Unit, start: u64, fd: i32) -> ! {
    unsafe {
        let lim = libc::rlimit { rlim_cur: 512 << 20, rlim_max: 512 << 20 }; // decoders of <= 200-byte inputs never need 512 MiB of address space
        libc::setrlimit(libc::RLIMIT_AS, &lim);
    }
    let s = shm();
    let mut cache = Cache::default();
    let nt = unit.targets.len() as u64;
    let mut samples_sent = 0;
    let mut cur_input = usize::MAX;
    let mut is_structural = false;
    for c in start..unit.total() {
        let (i, t) = ((c / nt) as usize, unit.targets[(c % nt) as usize]);
        if i != cur_input { cur_input = i; is_structural = structural(unit.dec, &unit.inputs[i]); }
        s.cur.store(c, Ordering::SeqCst);
        let out = call(unit.dec, t, i, &unit.inputs[i], &mut cache);
        let base = t * NCOUNT;
        match out {
            CallOut::Err => { s.counters[base].fetch_add(1, Ordering::Relaxed); if is_structural { s.counters[base + 3].fetch_add(1, Ordering::Relaxed); } }
            CallOut::Ok { inspected } => {
                s.counters[base + if inspected { 2 } else { 1 }].fetch_add(1, Ordering::Relaxed);
                s.counters[base + 3].fetch_add(1, Ordering::Relaxed);
                if inspected && samples_sent < 1 && start == 0 && unit.inputs[i].len() >= 3 {
                    samples_sent += 1;
                    write_all(fd, format!("S\t{c}\n").as_bytes());
                }
            }
            CallOut::Bad(sym, detail) => write_all(fd, format!("V\t{c}\t{}\t{}\n", one_line(&sym), one_line(&detail)).as_bytes()),
        }
        s.done.store(c + 1, Ordering::SeqCst);
    }
    write_all(fd, b"END\n");
    unsafe { libc::_exit(0) }
}

fn signal_name(sig: i32) -> String {
    match sig {
        libc::SIGABRT => "SIGABRT".into(), libc::SIGSEGV => "SIGSEGV".into(), libc::SIGBUS => "SIGBUS".into(),
        libc::SIGILL => "SIGILL".into(), libc::SIGFPE => "SIGFPE".into(), libc::SIGKILL => "SIGKILL".into(),
        libc::SIGTRAP => "SIGTRAP".into(), n => format!("SIG{n}"),
    }
}

fn class_of(dec: Dec, t: usize, sym: &str, input: &[u8]) -> (String, String) {
    let feat = feature(dec, input);
    (format!("C08/{}/{}/{}/{}", dec.name(), dec.target_kind(t), sym, feat), feat)
}

fn record_violation(ctx: &mut Ctx, unit: &Unit, c: u64, sym: &str, detail: &str) {
    let (i, t) = unit.locate(c);
    let input = &unit.inputs[i];
    let (class, feat) = class_of(unit.dec, t, sym, input);
    let dec = unit.dec;
    ctx.violation(&class, true, || json!({
        "decoder": dec.name(), "target": dec.target_name(t), "input": esc(input),
        "symptom": sym, "feature": feat, "observed": detail,
    }));
}

const HANG_S: f64 = 20.0;

/// Run every call of the unit (in forked children), folding the results into `ctx`.
pub fn run_unit(ctx: &mut Ctx, unit: &Unit) {
    let t0 = std::time::Instant::now();
    run_unit_inner(ctx, unit);
    bump(ctx, &format!("sum_ms_{}", unit.dec.name()), t0.elapsed().as_millis() as u64);
    bump(ctx, &format!("sum_calls_{}", unit.dec.name()), unit.total());
}
fn run_unit_inner(ctx: &mut Ctx, unit: &Unit) {
    let s = shm();
    for c in s.counters.iter() { c.store(0, Ordering::SeqCst) }
    let total = unit.total();
    let mut start = 0u64;
    let mut forks = 0u64;
    let mut isolated = 0u64;
    while start < total {
        if start > 0 && over_budget(ctx) { break }
        s.cur.store(u64::MAX, Ordering::SeqCst);
        s.done.store(start, Ordering::SeqCst);
        let mut fds = [0i32; 2];
        if unsafe { libc::pipe(fds.as_mut_ptr()) } != 0 { ctx.machinery_error("pipe() failed".into()); return }
        let pid = unsafe { libc::fork() };
        if pid < 0 { ctx.machinery_error("fork() failed".into()); return }
        if pid == 0 {
            unsafe { libc::close(fds[0]); }
            child_main(unit, start, fds[1]);
        }
        forks += 1;
        unsafe { libc::close(fds[1]); }
        let rfd = fds[0];
        let mut buf: Vec<u8> = Vec::new();
        let mut ended = false;
        let mut hang = false;
        let mut out_of_budget = false;
        let mut last_progress = (u64::MAX, u64::MAX);
        let mut last_change = std::time::Instant::now();
        loop {
            let mut pfd = libc::pollfd { fd: rfd, events: libc::POLLIN, revents: 0 };
            let pr = unsafe { libc::poll(&mut pfd, 1, 200) };
            if pr > 0 {
                let mut chunk = [0u8; 65536];
                let n = unsafe { libc::read(rfd, chunk.as_mut_ptr() as *mut libc::c_void, chunk.len()) };
                if n == 0 { break }
                if n < 0 { if std::io::Error::last_os_error().kind() == std::io::ErrorKind::Interrupted { continue } break }
                buf.extend_from_slice(&chunk[..n as usize]);
                while let Some(nl) = buf.iter().position(|b| *b == b'\n') {
                    let line: Vec<u8> = buf.drain(..=nl).collect();
                    let line = String::from_utf8_lossy(&line[..line.len() - 1]).into_owned();
                    let mut f = line.split('\t');
                    match f.next() {
                        Some("END") => ended = true,
                        Some("V") => {
                            let c: u64 = f.next().and_then(|x| x.parse().ok()).unwrap_or(0);
                            let sym = f.next().unwrap_or("?").to_string();
                            let detail = f.next().unwrap_or("").to_string();
                            record_violation(ctx, unit, c, &sym, &detail);
                        }
                        Some("S") => {
                            // at most one sample per decoder and worker, so that the evidence shows different decoders
                            static SAMPLED: std::sync::atomic::AtomicU32 = std::sync::atomic::AtomicU32::new(0);
                            let bit = 1u32 << ALL_DECS.iter().position(|d| *d == unit.dec).unwrap_or(31);
                            if SAMPLED.fetch_or(bit, Ordering::SeqCst) & bit != 0 { continue }
                            let c: u64 = f.next().and_then(|x| x.parse().ok()).unwrap_or(0);
                            let (i, t) = unit.locate(c);
                            let dec = unit.dec;
                            ctx.sample(|| json!({"decoder": dec.name(), "target": dec.target_name(t), "input": esc(&unit.inputs[i]), "observed": "Ok; every yielded str valid UTF-8 and inside the input"}));
                        }
                        _ => {}
                    }
                }
            }
            if over_budget(ctx) {
                // wall cap reached in the middle of a unit: stop the child, keep what was completed (the run is `capped`)
                out_of_budget = true;
                unsafe { libc::kill(pid, libc::SIGKILL); }
                break;
            }
            let p = (s.cur.load(Ordering::SeqCst), s.done.load(Ordering::SeqCst));
            if p != last_progress { last_progress = p; last_change = std::time::Instant::now(); }
            else if last_change.elapsed().as_secs_f64() > HANG_S {
                hang = true;
                unsafe { libc::kill(pid, libc::SIGKILL); }
                break;
            }
        }
        unsafe { libc::close(rfd); }
        let mut status = 0i32;
        loop {
            let r = unsafe { libc::waitpid(pid, &mut status, 0) };
            if r == pid || (r < 0 && std::io::Error::last_os_error().kind() != std::io::ErrorKind::Interrupted) { break }
        }
        if out_of_budget { break }
        if ended && !hang && libc::WIFEXITED(status) && libc::WEXITSTATUS(status) == 0 { break }
        // the child died (or hung) inside call `cur`
        let cur = s.cur.load(Ordering::SeqCst);
        let done = s.done.load(Ordering::SeqCst);
        if cur == u64::MAX || cur < start || cur >= total || done > cur {
            ctx.machinery_error(format!("C08 child for unit {} ended abnormally outside a decoder call (status {status}, cur {cur}, done {done})", unit.label));
            return;
        }
        let sym = if hang { "hang".to_string() }
            else if libc::WIFSIGNALED(status) { format!("abort:{}", signal_name(libc::WTERMSIG(status))) }
            else { format!("exit:{}", if libc::WIFEXITED(status) { libc::WEXITSTATUS(status) } else { -1 }) };
        if sym.starts_with("exit:") {
            ctx.machinery_error(format!("C08 child for unit {} exited with {sym} during call {cur}", unit.label));
            return;
        }
        isolated += 1;
        record_violation(ctx, unit, cur, &sym, "the worker's child process died inside this decoder call");
        start = cur + 1;
    }
    // fold the pass counters
    let dec = unit.dec;
    for &t in &unit.targets {
        let base = t * NCOUNT;
        let (e, o, oi, nt) = (s.counters[base].load(Ordering::SeqCst), s.counters[base + 1].load(Ordering::SeqCst),
                              s.counters[base + 2].load(Ordering::SeqCst), s.counters[base + 3].load(Ordering::SeqCst));
        ctx.evaluations += e + o + oi;
        ctx.nontrivial += nt;
        ctx.collisions += oi;
        let kind = dec.target_kind(t);
        for (n, what) in [(e, "err"), (o, "ok"), (oi, "ok+checked-str")] {
            if n > 0 { *ctx.outcomes.entry(format!("{}:{}:{}", dec.name(), kind, what)).or_insert(0) += n; }
        }
    }
    bump(ctx, "sum_child_processes", forks);
    bump(ctx, "sum_calls_that_killed_their_process", isolated);
}

fn bump(ctx: &mut Ctx, key: &str, n: u64) {
    let old = ctx.extra.get(key).and_then(|v| v.as_u64()).unwrap_or(0);
    ctx.extra.insert(key.into(), json!(old + n));
}

/* =====================================================================================================
   enumeration
   ===================================================================================================== */

fn count_strings(n: usize, max: usize) -> u64 { (0..=max as u32).map(|l| (n as u64).pow(l)).sum() }

/// the idx-th string over `alpha` in the order "shortest first, then lexicographic by token index"
fn string_at(alpha: &[&[u8]], mut idx: u64) -> Vec<u8> {
    let n = alpha.len() as u64;
    let mut len = 0u32;
    loop { let c = n.pow(len); if idx < c { break } idx -= c; len += 1; }
    let mut toks = vec![0usize; len as usize];
    for k in (0..len as usize).rev() { toks[k] = (idx % n) as usize; idx /= n; }
    let mut out = Vec::new();
    for t in toks { out.extend_from_slice(alpha[t]); }
    out
}

/// Phase A: every string of at most `max` tokens, in chunks
fn phase_all_strings(ctx: &mut Ctx, decs: &[(Dec, Sel)], alpha: &[&[u8]], max: usize, chunk: u64, what: &str) {
    let total = count_strings(alpha.len(), max);
    let mut lo = 0u64;
    while lo < total {
        let hi = (lo + chunk).min(total);
        for &(dec, sel) in decs {
            if over_budget(ctx) { return }
            if !ctx.mine() { continue }
            let inputs: Vec<Vec<u8>> = (lo..hi).map(|i| string_at(alpha, i)).collect();
            run_unit(ctx, &Unit::new(dec, sel, inputs, format!("{}:{what}:{sel:?}:all-strings[{lo}..{hi})", dec.name())));
        }
        lo = hi;
    }
}

/// all variants of `skel` with at most `max_edits` token edits (delete / replace / insert-before, each original
/// position edited at most once, positions increasing) whose *first* edit is at position `first`
/// (`first == usize::MAX`: the unedited skeleton)
fn edit_variants(skel: &[usize], nalpha: usize, first: usize, max_edits: usize) -> Vec<Vec<usize>> {
    fn rec(skel: &[usize], n: usize, pos: usize, left: usize, must_edit_here: bool, cur: &mut Vec<usize>, out: &mut Vec<Vec<usize>>) {
        let m = skel.len();
        if pos > m { return }
        if pos == m {
            if !must_edit_here { out.push(cur.clone()); }
            if left > 0 { for x in 0..n { cur.push(x); out.push(cur.clone()); cur.pop(); } }
            return;
        }
        if !must_edit_here { cur.push(skel[pos]); rec(skel, n, pos + 1, left, false, cur, out); cur.pop(); }
        if left > 0 {
            // delete
            rec(skel, n, pos + 1, left - 1, false, cur, out);
            for x in 0..n {
                if x != skel[pos] { cur.push(x); rec(skel, n, pos + 1, left - 1, false, cur, out); cur.pop(); }
                cur.push(x); cur.push(skel[pos]); rec(skel, n, pos + 1, left - 1, false, cur, out); cur.pop(); cur.pop();
            }
        }
    }
    let mut out = Vec::new();
    if first == usize::MAX { out.push(skel.to_vec()); return out }
    if max_edits == 0 { return out }
    let mut cur: Vec<usize> = skel[..first.min(skel.len())].to_vec();
    rec(skel, nalpha, first, max_edits, true, &mut cur, &mut out);
    out
}

/// Phase B: well-formed skeletons with at most `max_edits` token edits
fn phase_edits(ctx: &mut Ctx, decs: &[(Dec, Sel)], alpha: &[&[u8]], skeletons: &[Vec<usize>], max_edits: &dyn Fn(&[usize]) -> usize, skip_upto_tokens: usize, what: &str) {
    for (si, skel) in skeletons.iter().enumerate() {
        let k = max_edits(skel);
        let firsts: Vec<usize> = std::iter::once(usize::MAX).chain(0..=skel.len()).collect();
        for first in firsts {
            for &(dec, sel) in decs {
                if over_budget(ctx) { return }
                if !ctx.mine() { continue }
                let mut seen: HashSet<Vec<u8>> = HashSet::new();
                let mut inputs = Vec::new();
                for v in edit_variants(skel, alpha.len(), first, k) {
                    if v.len() <= skip_upto_tokens { continue } // already covered by phase A
                    let mut bytes = Vec::new();
                    for t in &v { bytes.extend_from_slice(alpha[*t]); }
                    if seen.insert(bytes.clone()) { inputs.push(bytes); }
                }
                if inputs.is_empty() { continue }
                let label = format!("{}:{what}:skeleton#{si}:first-edit@{}", dec.name(), if first == usize::MAX { "none".into() } else { first.to_string() });
                run_unit(ctx, &Unit::new(dec, sel, inputs, label));
            }
        }
    }
}

fn over_budget(ctx: &mut Ctx) -> bool {
    if !ctx.capped && ctx.started.elapsed().as_secs_f64() > ctx.wall_cap_s { ctx.capped = true }
    ctx.capped
}

/* ---- alphabets ---- */

const A_URLENC: &[&[u8]] = &[b"a", b"1", b"=", b"&", b"%", b"F", b",", b"-", b"\xFF"];
// 0xFF cannot occur in a `&str`; its place is taken by a two-byte non-ASCII character
const A_COOKIE: &[&[u8]] = &[b"a", b"1", b"=", b";", b" ", b"\"", b"%", b"F", "\u{e9}".as_bytes()];
const A_SETCOOKIE: &[&[u8]] = &[b"a", b"=", b";", b" ", b"Max-Age=", b"9", b"x", b"99999999999999999999", b"%", b"\""];
const A_PERCENT: &[&[u8]] = &[b"%", b"4", b"F", b"g", b"a", b"\xFF"];
const A_PERCENT_STR: &[&[u8]] = &[b"%", b"4", b"F", b"g", b"a", "\u{e9}".as_bytes()];
const A_MULTIPART: &[&[u8]] = &[b"--B", b"--", b"\r\n", b"Content-Disposition: form-data; name=", b"\"n\"", b"; filename=", b"\"f\"", b"\"\"",
    b"Content-Type: ", b"text/plain", b"x", b"\xFF"];
const A_UTF8: &[&[u8]] = &[b"a", b"1", b"-", b".", b"e", b"true", "\u{e9}".as_bytes()];

fn toks(alpha: &[&[u8]], text: &[&[u8]]) -> Vec<usize> {
    text.iter().map(|t| alpha.iter().position(|a| a == t).expect("token not in alphabet")).collect()
}

fn urlenc_skeletons() -> Vec<Vec<usize>> {
    let a = A_URLENC;
    vec![
        toks(a, &[b"a", b"=", b"1"]),
        toks(a, &[b"a", b"=", b"a", b"&", b"F", b"=", b"1"]),
        toks(a, &[b"F", b"=", b"1", b"&", b"a", b"=", b"a"]),
        toks(a, &[b"a", b"=", b"1", b",", b"1", b"&", b"F", b"=", b"-", b"1"]),
        toks(a, &[b"a", b"=", b"%", b"1", b"1", b"&", b"F", b"=", b"1"]),
        toks(a, &[b"1", b"=", b"a", b"&", b"a", b"=", b"a", b"&", b"F", b"=", b"1"]),
        toks(a, &[b"a", b"=", b"a", b"&", b"F", b"=", b"1", b"&", b"1", b"=", b"a"]),
    ]
}
fn cookie_skeletons() -> Vec<Vec<usize>> {
    let a = A_COOKIE;
    vec![
        toks(a, &[b"a", b"=", b"1"]),
        toks(a, &[b"a", b"=", b"a", b";", b" ", b"F", b"=", b"1"]),
        toks(a, &[b"F", b"=", b"1", b";", b" ", b"a", b"=", b"\"", b"a", b"\""]),
        toks(a, &[b"a", b"=", b"%", b"1", b"1", b";", b" ", b"F", b"=", b"1"]),
        toks(a, &[b"1", b"=", b"a", b";", b" ", b"a", b"=", b"a", b";", b" ", b"F", b"=", b"1"]),
        toks(a, &[b"a", b"=", b"a", b";", b" ", b"F", b"=", b"1", b";", b" ", b"1", b"=", b"a"]),
    ]
}
/// (skeleton, number of parts, contains a file part with empty filename and empty content)
fn multipart_skeletons() -> Vec<(Vec<usize>, usize, bool)> {
    const B: usize = 0; const DD: usize = 1; const NL: usize = 2; const CD: usize = 3; const N: usize = 4; const FN: usize = 5;
    const F: usize = 6; const EMPTY: usize = 7; const CT: usize = 8; const TP: usize = 9; const X: usize = 10; const FF: usize = 11;
    let mut parts: Vec<(Vec<usize>, bool)> = Vec::new();
    for value in [vec![], vec![X]] { let mut p = vec![NL, CD, N, NL, NL]; p.extend(value); p.extend([NL, B]); parts.push((p, false)); }
    { parts.push((vec![NL, CD, F, NL, NL, X, NL, B], false)); }
    for fname in [F, EMPTY] { for ctype in [false, true] { for content in [vec![], vec![X], vec![FF]] {
        let mut p = vec![NL, CD, N, FN, fname, NL];
        if ctype { p.extend([CT, TP, NL]); }
        p.push(NL); p.extend(content.clone()); p.extend([NL, B]);
        parts.push((p, fname == EMPTY && content.is_empty()));
    } } }
    let mut out = Vec::new();
    for fin in [true, false] {
        let close = |mut v: Vec<usize>| { if fin { v.push(DD); } v };
        out.push((close(vec![B]), 0, false));
        for (p, e) in &parts { let mut v = vec![B]; v.extend(p.clone()); out.push((close(v), 1, *e)); }
        for (p, e) in &parts { for (q, f) in &parts { let mut v = vec![B]; v.extend(p.clone()); v.extend(q.clone()); out.push((close(v), 2, *e || *f)); } }
    }
    out
}

pub fn run(ctx: &mut Ctx) {
    if let Err(e) = refenc::selftest() { ctx.machinery_error(e); return }
    assert!(TARGETS.len() <= MAX_T);
    app::pin_clock();
    let q = ctx.quick();
    let (len_form, len_rest, len_setcookie, len_percent, len_params, len_mp, len_utf8) = if q { (6, 3, 5, 7, 5, 5, 5) } else { (7, 4, 6, 8, 6, 6, 6) };
    let (edits_form, edits_mp_small, edits_mp_two, edits_mp_two_with_empty_file) = if q { (2, 1, 1, 0) } else { (3, 2, 1, 1) };
    const CH: u64 = 4096;

    use Sel::*;
    // ---- exhaustive strings ----
    phase_all_strings(ctx, &[(Dec::Urlenc, Core)], A_URLENC, len_form, CH, "form");
    phase_all_strings(ctx, &[(Dec::Urlenc, Rest), (Dec::QueryParse, Rest)], A_URLENC, len_rest, 64, "form-rest");
    phase_all_strings(ctx, &[(Dec::QueryParse, Core), (Dec::QueryIter, All)], A_URLENC, len_form - 1, CH, "query");
    phase_all_strings(ctx, &[(Dec::Cookie, Core), (Dec::CookiesIter, All)], A_COOKIE, len_form, CH, "cookie");
    phase_all_strings(ctx, &[(Dec::Cookie, Rest)], A_COOKIE, len_rest, 64, "cookie-rest");
    phase_all_strings(ctx, &[(Dec::SetCookieName, All), (Dec::SetCookiePath, All)], A_SETCOOKIE, len_setcookie, CH, "set-cookie");
    phase_all_strings(ctx, &[(Dec::Percent, All), (Dec::RawParam, All)], A_PERCENT, len_percent, 4 * CH, "percent");
    phase_all_strings(ctx, &[(Dec::PathStr, All)], A_PERCENT, len_percent - 1, 4 * CH, "path");
    phase_all_strings(ctx, &[(Dec::RawParam, All)], A_PERCENT_STR, len_percent - 1, 4 * CH, "percent-utf8-input");
    phase_all_strings(ctx, &[(Dec::PathParams, All)], A_PERCENT, len_params, CH, "params");
    phase_all_strings(ctx, &[(Dec::Multipart, All)], A_MULTIPART, len_mp, CH, "multipart");
    phase_all_strings(ctx, &[(Dec::Utf8, All)], A_UTF8, len_utf8, CH, "utf8");

    // ---- long values (phase C) ----
    // Short token strings never reach code that treats a *long* refused value differently from a short one (an error message that
    // quotes a cut of the input, a scratch buffer with a fixed size).  So: a value of 0..48 ASCII bytes followed by one multi-byte
    // character (2, 3 and 4 bytes; written raw and percent-encoded) and a short tail - every byte offset at which a cut could fall
    // inside the character - for every target, through the key=value decoders.
    {
        let mbs: [(&str, &str); 3] = [("\u{e9}", "%C3%A9"), ("\u{72fc}", "%E7%8B%BC"), ("\u{1f43a}", "%F0%9F%90%BA")];
        let mut by_dec: Vec<(Dec, Sel, Vec<Vec<u8>>)> = vec![(Dec::Urlenc, Core, vec![]), (Dec::QueryParse, Core, vec![]), (Dec::Cookie, Core, vec![]), (Dec::Utf8, All, vec![])];
        for pad in 0..=48usize { for (raw_c, pct_c) in mbs { for pct in [false, true] { for lead in ["x", "7"] {
            let value = format!("{}{}yz", lead.repeat(pad), if pct { pct_c } else { raw_c });
            by_dec[0].2.push(format!("a={value}").into_bytes());
            if pct { by_dec[1].2.push(format!("a={value}").into_bytes()); by_dec[2].2.push(format!("a={value}").into_bytes()); }
            if !pct { by_dec[3].2.push(value.clone().into_bytes()); }
        } } } }
        for (dec, sel, inputs) in by_dec {
            if !ctx.mine() { continue }
            run_unit(ctx, &Unit::new(dec, sel, inputs, format!("{}:long-value", dec.name())));
        }
    }
    // ---- well-formed skeletons with token edits ----
    phase_edits(ctx, &[(Dec::Urlenc, Core)], A_URLENC, &urlenc_skeletons(), &|_| edits_form, len_form, "form");
    phase_edits(ctx, &[(Dec::QueryParse, Core), (Dec::QueryIter, All)], A_URLENC, &urlenc_skeletons(), &|_| 1, len_form - 1, "query");
    phase_edits(ctx, &[(Dec::Cookie, Core), (Dec::CookiesIter, All)], A_COOKIE, &cookie_skeletons(), &|_| edits_form, len_form, "cookie");
    // An empty file part makes almost every target abort the process (see findings); each abort costs a fork, so in
    // the quick tier two-part bodies that contain such a part are run unedited only.
    let mp = multipart_skeletons();
    let mp_skels: Vec<Vec<usize>> = mp.iter().map(|s| s.0.clone()).collect();
    let info: std::collections::HashMap<Vec<usize>, (usize, bool)> = mp.iter().map(|s| (s.0.clone(), (s.1, s.2))).collect();
    phase_edits(ctx, &[(Dec::Multipart, Multipart)], A_MULTIPART, &mp_skels, &|s| {
        let (n, empty_file) = info[s];
        if n <= 1 { edits_mp_small } else if empty_file { edits_mp_two_with_empty_file } else { edits_mp_two }
    }, len_mp, "multipart");

    ctx.extra.insert("rule".into(), json!("one case = (decoder, target type, input bytes); inputs are (A) every string of at most N tokens over the decoder's alphabet and (B) every variant with at most k token edits (delete / replace / insert) of each well-formed skeleton; every case runs the real decoder in a forked child process; non-trivial = the decoder returned Ok, or the input contains the decoder's separator; collision (designed) = the call returned Ok and at least one non-empty yielded str/slice/char actually went through the UTF-8 and pointer-range checks. Phase-B inputs are de-duplicated per skeleton and inputs short enough to be in phase A are skipped."));
    ctx.extra.insert("bounds".into(), json!({
        "targets_in_catalogue": TARGETS.len(),
        "targets_core": select(Dec::Urlenc, Sel::Core).len(),
        "non_struct_top_level_targets_max_tokens": len_rest,
        "urlencoded": {"alphabet": A_URLENC.iter().map(|t| esc(t)).collect::<Vec<_>>(), "max_tokens": len_form, "skeletons": urlenc_skeletons().len(), "max_edits": edits_form},
        "query": {"alphabet": "as urlencoded", "max_tokens": len_form - 1, "skeletons": urlenc_skeletons().len(), "max_edits": 1},
        "cookie": {"alphabet": A_COOKIE.iter().map(|t| esc(t)).collect::<Vec<_>>(), "max_tokens": len_form, "skeletons": cookie_skeletons().len(), "max_edits": edits_form},
        "set_cookie": {"alphabet": A_SETCOOKIE.iter().map(|t| esc(t)).collect::<Vec<_>>(), "max_tokens": len_setcookie, "embeddings": ["cookie name", "Path directive"]},
        "percent": {"alphabet": A_PERCENT.iter().map(|t| esc(t)).collect::<Vec<_>>(), "max_tokens": len_percent, "path_str_max_tokens": len_percent - 1, "path_params_max_tokens": len_params},
        "multipart": {"alphabet": A_MULTIPART.iter().map(|t| esc(t)).collect::<Vec<_>>(), "max_tokens": len_mp, "skeletons": mp_skels.len(), "max_edits_0_or_1_part": edits_mp_small, "max_edits_2_parts": edits_mp_two, "max_edits_2_parts_one_of_them_an_empty_file": edits_mp_two_with_empty_file, "targets_on_skeletons": MP_TARGETS.len()},
        "utf8": {"alphabet": A_UTF8.iter().map(|t| esc(t)).collect::<Vec<_>>(), "max_tokens": len_utf8},
        "hang_budget_s": HANG_S,
    }));
    ctx.extra.insert("distinct_by_construction".into(), json!("phase A yes; phase B per skeleton"));
}

pub fn replay(ctx: &mut Ctx, case: &Value) {
    app::pin_clock();
    let Some(dec) = case["decoder"].as_str().and_then(Dec::from_name) else { ctx.machinery_error("replay: unknown decoder".into()); return };
    let tname = case["target"].as_str().unwrap_or("");
    let Some(t) = (0..dec.ntargets()).find(|&t| dec.target_name(t) == tname) else { ctx.machinery_error(format!("replay: unknown target {tname}")); return };
    let Some(input) = case["input"].as_str().map(unesc) else { ctx.machinery_error("replay: no input".into()); return };
    if dec.needs_utf8_input() && std::str::from_utf8(&input).is_err() { ctx.machinery_error("replay: this decoder takes a &str; the input is not UTF-8".into()); return }
    let mut unit = Unit::new(dec, Sel::All, vec![input], "replay".into());
    unit.targets = vec![t];
    run_unit(ctx, &unit);
}
