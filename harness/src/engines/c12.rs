//! C12 — JWT fang admits exactly the tokens signed with the configured key and valid now (DESIGN §5 C12).
//!
//! configuration = (secret, HS256/384/512, payload type `serde_json::Value` or a typed struct) in front of one
//! route `/` (GET and POST) whose handler counts its runs and echoes the payload it finds in the request context.
//! unit  = (configuration, pinned clock, payload); the payload is issued by the real `JWT::issue`, then the issued
//!         token and every member of the edit families below are sent through the real read → router → send path.
//! oracle = `refmodel::jwt::judge_authorization` (own base64url, own JSON reader with exact decimal comparison of
//!         the time claims, own HMAC construction over `sha2`; bound to Python's hmac/hashlib by fixed vectors).
//!
//! What is demanded (and nothing else):
//!   Refuse  — handler must not run and the response must carry an error status (>= 400);
//!   Accept  — handler must run, status 200, and the echoed payload equals the signed payload (as JSON values);
//!   Either  — the statement is silent (correctly signed token whose header is not the issued one, non-numeric
//!             time claim, `bearer` in another case / extra blanks, payload that does not fit the typed handler):
//!             counted as ambiguous; only "if the handler ran it saw the signed payload" is still required;
//!   OPTIONS — only "handler did not run".

use crate::app::{self, Outcome};
use crate::core::{esc, guarded, panic_kind, strings_over, unesc, Ctx};
use crate::refmodel::b64;
use crate::refmodel::jwt::{self as rj, Alg, Expect, Json, Verdict, ALGS};
use ohkami::__verif__::VerifRouter;
use ohkami::fang::{Context, JWT};
use ohkami::{Ohkami, Route};
use serde::{Deserialize, Serialize};
use serde_json::{json, Value};
use std::sync::atomic::{AtomicU64, Ordering};

static RUNS: AtomicU64 = AtomicU64::new(0);

async fn echo_value(Context(p): Context<'_, Value>) -> String {
    RUNS.fetch_add(1, Ordering::SeqCst);
    format!("ran:{}", serde_json::to_string(p).unwrap_or_else(|_| "<unserializable>".into()))
}

#[derive(Serialize, Deserialize, Clone, Debug, PartialEq)]
pub struct Claims {
    sub: String,
    admin: bool,
    #[serde(default, skip_serializing_if = "Option::is_none")]
    exp: Option<u64>,
}

async fn echo_claims(Context(p): Context<'_, Claims>) -> String {
    RUNS.fetch_add(1, Ordering::SeqCst);
    format!("ran:{}", serde_json::to_string(p).unwrap_or_else(|_| "<unserializable>".into()))
}

/* ------------------------------------------------------------- configurations ------------------------------ */

pub fn secrets() -> Vec<String> {
    // (the last one: a key with surrounding white space, as read from a file or an environment variable - it is the key as given,
    //  not its trimmed form)
    vec!["".into(), "s".into(), "secret".into(), rj::secret_70(), rj::secret_140(), "pä".into(), " secret\n".into()]
}

enum Issuer { Value(JWT<Value>), Claims(JWT<Claims>) }

pub struct Cfg { secret: String, alg: Alg, typed: bool, router: VerifRouter, issuer: Issuer,
    /// the Authorization value admitted last by this configuration (enters every witness: a violation that needs the earlier
    /// request is replayed with it)
    last_admitted: std::cell::RefCell<Option<String>> }

fn new_jwt<P>(alg: Alg, secret: &str) -> JWT<P> {
    match alg { Alg::HS256 => JWT::new_256(secret.to_string()), Alg::HS384 => JWT::new_384(secret.to_string()), Alg::HS512 => JWT::new_512(secret.to_string()) }
}

fn build(secret: &str, alg: Alg, typed: bool) -> Result<Cfg, String> {
    guarded(|| {
        if typed {
            let jwt = new_jwt::<Claims>(alg, secret);
            let router = VerifRouter::from(Ohkami::new((jwt.clone(), "/".GET(echo_claims).POST(echo_claims))));
            Cfg { secret: secret.to_string(), alg, typed, router, issuer: Issuer::Claims(jwt), last_admitted: Default::default() }
        } else {
            let jwt = new_jwt::<Value>(alg, secret);
            let router = VerifRouter::from(Ohkami::new((jwt.clone(), "/".GET(echo_value).POST(echo_value))));
            Cfg { secret: secret.to_string(), alg, typed, router, issuer: Issuer::Value(jwt), last_admitted: Default::default() }
        }
    })
}

impl Cfg {
    fn issue(&self, payload: &Value) -> Result<String, String> {
        guarded(|| match &self.issuer {
            Issuer::Value(j) => j.clone().issue(payload.clone()).to_string(),
            Issuer::Claims(j) => j.clone().issue(serde_json::from_value::<Claims>(payload.clone()).expect("typed payload alphabet fits Claims")).to_string(),
        })
    }
}

fn claims_shape(p: &Json) -> bool {
    let Json::Obj(m) = p else { return false };
    if p.has_duplicate_keys() { return false }
    let mut ok = m.iter().any(|(k, v)| k == "sub" && matches!(v, Json::Str(_))) && m.iter().any(|(k, v)| k == "admin" && matches!(v, Json::Bool(_)));
    for (k, v) in m {
        match k.as_str() {
            "sub" | "admin" => {}
            "exp" => ok &= matches!(v, Json::Num(n) if n.parse::<u64>().is_ok()),
            _ => ok = false,
        }
    }
    ok
}

/* ----------------------------------------------------------------- one case -------------------------------- */

pub struct Case<'a> {
    pub now: u64,
    pub method: &'a str,
    pub auth: Option<&'a str>,
    /// an additional header (the token in the wrong place)
    pub extra: Option<(&'a str, &'a str)>,
    /// edit family and feature; enters the class id
    pub label: &'a str,
}

fn expected_text(v: &Verdict, method: &str) -> String {
    if method == "OPTIONS" { return "handler does not run (nothing else is demanded of OPTIONS)".into() }
    match v.expect {
        Expect::Accept => "handler runs, 200, echoes the signed payload".into(),
        Expect::Refuse => format!("error status, handler does not run; grounds: {}", v.grounds.iter().map(|g| g.label()).collect::<Vec<_>>().join(", ")),
        Expect::Either => format!("not decided by the statement ({})", v.ambiguity.join("; ")),
    }
}

fn run_case(ctx: &mut Ctx, cfg: &Cfg, c: &Case) {
    ohkami::__verif__::set_clock(Some(c.now));
    let mut headers: Vec<(&str, &str)> = vec![("Host", "h")];
    if let Some(a) = c.auth { headers.push(("Authorization", a)) }
    if let Some(e) = c.extra { headers.push(e) }
    let raw = app::request(c.method, "/", &headers, b"");
    if raw.len() > 1000 { ctx.skip(); return }

    let mut v = rj::judge_authorization(cfg.secret.as_bytes(), cfg.alg, c.now, c.auth);
    let mut check_echo = true;
    if cfg.typed && v.expect != Expect::Refuse && !v.payload.as_ref().is_some_and(claims_shape) {
        v.expect = Expect::Either;
        v.ambiguity.push("the signed payload does not have the shape of the handler's payload type".into());
        check_echo = false;
    }

    if v.payload.as_ref().is_some_and(|p| p.has_duplicate_keys()) { check_echo = false } // which of two equal names the handler should see is not decided

    let before = RUNS.load(Ordering::SeqCst);
    let out = app::oneshot(&cfg.router, &raw);
    let ran = RUNS.load(Ordering::SeqCst) != before;
    ctx.distinct_key(&(&cfg.secret, cfg.alg, cfg.typed, c.now, c.method, c.auth, c.extra));
    let prior = cfg.last_admitted.borrow().clone();
    // only a request the reference admits too: a chain of wrongly admitted requests would not replay from its last link
    if ran && v.expect == Expect::Accept { *cfg.last_admitted.borrow_mut() = c.auth.map(|a| a.to_string()) }

    // feature of the class id: the edit label; for unedited tokens what the reference found in the claims
    let feature = if c.label == "issued" || c.label.starts_with("crafted") {
        let detail = match v.expect {
            Expect::Refuse => v.grounds.iter().map(|g| g.label()).collect::<Vec<_>>().join("+"),
            _ => if v.claims.is_empty() { "no-claims".to_string() } else { v.claims.join("+") },
        };
        format!("{}:{}", c.label, detail)
    } else { c.label.to_string() };
    let class = |symptom: &str| format!("C12/{}{}/{}/{}", cfg.alg.name(), if cfg.typed { "+typed" } else { "" }, feature, symptom);
    let nontrivial = v.grounds.len() <= 1 && c.auth.is_some();
    let collision = (v.expect == Expect::Refuse && v.grounds.len() == 1 && c.auth.is_some_and(|a| a.starts_with("Bearer ") && a.len() > 7)) || v.claim_at_now;

    let witness = |observed: String| {
        let w = json!({"secret": esc(cfg.secret.as_bytes()), "alg": cfg.alg.name(), "typed": cfg.typed, "now": c.now, "method": c.method,
                       "authorization": c.auth, "extra_header": c.extra.map(|(k, v)| json!([k, v])), "label": c.label, "prior_admitted_authorization": prior.clone(),
                       "expected": expected_text(&v, c.method), "observed": observed});
        move || w
    };

    match &out {
        Outcome::Panic(stage, msg) => { ctx.violation(&class(&format!("panic@{stage}:{}", panic_kind(msg))), nontrivial, witness(out.kind())); return }
        Outcome::Stall(stage) => { ctx.violation(&class(&format!("stall@{stage}")), nontrivial, witness(out.kind())); return }
        Outcome::Closed => { ctx.violation(&class("closed-without-response"), nontrivial, witness(out.kind())); return }
        Outcome::Response { parsed: Err(e), .. } => { ctx.violation(&class("malformed-response"), nontrivial, witness(format!("malformed response: {e}"))); return }
        Outcome::Response { parsed: Ok(_), .. } => {}
    }
    let p = out.parsed().unwrap();
    let body = String::from_utf8_lossy(&p.body).to_string();
    let observed = format!("status {} ran={} body={:?}", p.status, ran, body);

    if c.method == "OPTIONS" {
        if ran { ctx.violation(&class("handler-ran-on-OPTIONS"), nontrivial, witness(observed)) }
        else { ctx.pass(&format!("options:{}", p.status), nontrivial, false) }
        return
    }
    // does the echo show exactly the signed payload?
    let echo_matches = || -> bool {
        let Some(text) = body.strip_prefix("ran:") else { return false };
        match (rj::parse_json(text.as_bytes()), &v.payload) { (Ok(seen), Some(signed)) => rj::json_eq(&seen, signed), _ => false }
    };
    match v.expect {
        Expect::Refuse => {
            if ran { ctx.violation(&class("accepted-should-refuse"), nontrivial, witness(observed)) }
            else if p.status < 400 { ctx.violation(&class(&format!("refused-without-error-status:{}", p.status)), nontrivial, witness(observed)) }
            else { ctx.pass(&format!("refused:{}:{}", p.status, v.grounds[0].label().split(['=', '@']).next().unwrap_or("")), nontrivial, collision) }
        }
        Expect::Accept => {
            if !ran { ctx.violation(&class(&format!("refused-should-accept:{}", p.status)), nontrivial, witness(observed)) }
            else if p.status != 200 { ctx.violation(&class(&format!("handler-ran-but-status:{}", p.status)), nontrivial, witness(observed)) }
            else if !echo_matches() { ctx.violation(&class("wrong-payload"), nontrivial, witness(observed)) }
            else { ctx.pass(if v.claims.is_empty() { "accepted" } else { "accepted:time-claims-admit" }, nontrivial, collision) }
        }
        Expect::Either => {
            if ran && check_echo && !echo_matches() { ctx.violation(&class("wrong-payload"), nontrivial, witness(observed)) }
            else if !ran && p.status < 400 { ctx.violation(&class(&format!("refused-without-error-status:{}", p.status)), nontrivial, witness(observed)) }
            else { ctx.ambiguous(&format!("{}:{}", c.label.split(['@', '>']).next().unwrap_or(""), if ran { "ran".to_string() } else { p.status.to_string() })) }
        }
    }
    // History of length two: after a request that was not admitted (whichever error path it took) a token issued by the same
    // configuration must verify - state kept across requests must not leak.  Once per (configuration, kind of request).
    if v.expect != Expect::Accept && c.label != "probe-after" {
        thread_local! { static PROBED: std::cell::RefCell<std::collections::HashSet<(String, u8, bool, String)>> = Default::default(); }
        let key = (cfg.secret.clone(), cfg.alg as u8, cfg.typed, c.label.split(['@', '>', '(']).next().unwrap_or("").to_string());
        if PROBED.with(|p| p.borrow_mut().insert(key)) {
            if let Ok(tok) = cfg.issue(&json!({"sub": "u"})) {
                let auth = format!("Bearer {tok}");
                let raw2 = app::request("GET", "/", &[("Host", "h"), ("Authorization", &auth)], b"");
                let before = RUNS.load(Ordering::SeqCst);
                let out2 = app::oneshot(&cfg.router, &raw2);
                let ran2 = RUNS.load(Ordering::SeqCst) != before;
                ctx.transitions += 1;
                if !ran2 && !cfg.typed {
                    ctx.violation(&format!("C12/{}/after:{}/issued-token-refused", cfg.alg.name(), c.label.split(['@', '>', '(']).next().unwrap_or("")), true,
                        witness(format!("then `GET / Authorization: {auth}`: {}", out2.kind())));
                }
            }
        }
    }
}

/* -------------------------------------------------------------- payload alphabet --------------------------- */

/// payloads handed to the real `JWT::issue` (as `serde_json::Value`)
fn value_payloads(now: u64, full: bool) -> Vec<(String, Value)> {
    let mut out: Vec<(String, Value)> = vec![
        ("empty-object".into(), json!({})),
        ("sub".into(), json!({"sub": "u"})),
        ("nested".into(), json!({"sub": "u", "roles": ["a", {"k": [1, 2.5, null, true, -3]}], "inner": {"exp": 1, "nbf": 99999999999u64}, "uni": "pä\n\"q\" \u{1F600}"})),
        ("string-payload".into(), json!("just a string")),
        ("array-payload".into(), json!(["exp", 1])),
        // "the handler then observes exactly the signed payload": decimals with 16-17 significant digits, for which a JSON reader
        // that does not round correctly comes out one unit in the last place off (found by search: 8 of the first 93 candidates)
        ("float-payload".into(), json!({"sub": "u", "f": [985690694.6328695, 0.21291890726713458, 198136406.38684994, 92.42132512813595,
            1.8057721557255225e-6, 925.9338926496359, 972610478.8033849, 0.9720916325967499, 985.6906946328695, 0.1, 1e-7, 5e-324, 1.7976931348623157e308]})),
    ];
    // integer claims: the full product {absent, now-1, now, now+1}^3
    let opts: Vec<Option<u64>> = { let mut v = vec![None]; if now > 0 { v.push(Some(now - 1)) } v.push(Some(now)); v.push(Some(now + 1)); v };
    for e in &opts { for n in &opts { for i in &opts {
        if e.is_none() && n.is_none() && i.is_none() { continue }
        let singles = [e, n, i].iter().filter(|x| x.is_some()).count() == 1;
        if !full && !singles { continue }
        let mut m = serde_json::Map::new();
        m.insert("sub".into(), json!("u"));
        if let Some(e) = e { m.insert("exp".into(), json!(e)); }
        if let Some(n) = n { m.insert("nbf".into(), json!(n)); }
        if let Some(i) = i { m.insert("iat".into(), json!(i)); }
        out.push(("int-claims".into(), Value::Object(m)));
    } } }
    // claims that are numbers but not u64, and claims that are not numbers
    let nowf = now as f64;
    for name in ["exp", "nbf", "iat"] {
        let mut vals: Vec<Value> = vec![json!(-1), json!(-(now as i64) - 1), json!(nowf - 0.5), json!(nowf + 0.5), json!(nowf), json!(nowf + 1.0), json!(1e30), json!(-0.0)];
        if now > 0 { vals.push(json!(nowf - 1.0)) }
        vals.extend([json!((now + 1000).to_string()), json!(now.saturating_sub(1000).to_string()), json!(null), json!(true), json!([now + 1000]), json!({"v": now + 1000})]);
        for v in vals { out.push(("odd-claim".into(), json!({"sub": "u", name: v}))); }
    }
    out
}

/// payload *texts* that `issue` cannot produce from a `Value`; signed by the reference with the issued header
fn crafted_payload_texts(now: u64) -> Vec<(String, Vec<u8>)> {
    let out = crafted_payload_strings(now);
    let mut out: Vec<(String, Vec<u8>)> = out.into_iter().map(|(l, t)| (l, t.into_bytes())).collect();
    out.push(("crafted:not-utf8".into(), b"{\"sub\":\"\xff\"}".to_vec()));
    out
}

fn crafted_payload_strings(now: u64) -> Vec<(String, String)> {
    let mut out = vec![];
    for name in ["exp", "nbf", "iat"] {
        for (tag, num) in [
            ("exponent-now", format!("{now}e0")), ("exponent-future", format!("{}E0", now + 1)), ("scaled-fraction-future", format!("{}5e-1", now)),
            ("scaled-fraction-past", format!("{}5e-1", now.saturating_sub(1))), ("point-zero-now", format!("{now}.0")), ("point-zero-future", format!("{}.000", now + 1)),
            ("u64-max", "18446744073709551615".to_string()), ("two-pow-64", "18446744073709551616".to_string()), ("minus-zero", "-0".to_string()),
            ("zero", "0".to_string()), ("one", "1".to_string()),
        ] {
            out.push((format!("crafted:{tag}"), format!(r#"{{"sub":"u","{name}":{num}}}"#)));
        }
        out.push(("crafted:duplicate-claim".into(), format!(r#"{{"{name}":{},"{name}":{}}}"#, now.saturating_sub(1), now + 1)));
        out.push(("crafted:duplicate-claim".into(), format!(r#"{{"{name}":{},"{name}":{}}}"#, now + 1, now.saturating_sub(1))));
    }
    out.push(("crafted:white-space".into(), "{ \"sub\" : \"u\" }\n".to_string()));
    out.push(("crafted:escapes".into(), r#"{"sub":"ü\/😀"}"#.to_string()));
    out.push(("crafted:number-payload".into(), "42".to_string()));
    out.push(("crafted:null-payload".into(), "null".to_string()));
    out.push(("crafted:not-json".into(), "{sub:u}".to_string()));
    out.push(("crafted:empty-text".into(), "".to_string()));
    out
}

fn typed_payloads(now: u64) -> Vec<(String, Value)> {
    let mut v = vec![
        ("typed".to_string(), json!({"sub": "u", "admin": false})),
        ("typed".to_string(), json!({"sub": "üser \"x\"", "admin": true, "exp": now + 1})),
        ("typed".to_string(), json!({"sub": "", "admin": true, "exp": now})),
    ];
    if now > 0 { v.push(("typed".to_string(), json!({"sub": "u", "admin": false, "exp": now - 1}))) }
    v
}

/* ---------------------------------------------------------------- edit families ---------------------------- */

struct Edit { label: String, method: &'static str, auth: Option<String>, extra: Option<(String, String)> }

fn bearer(label: impl Into<String>, token: impl AsRef<str>) -> Edit {
    Edit { label: label.into(), method: "GET", auth: Some(format!("Bearer {}", token.as_ref())), extra: None }
}

const MUT_ALPHABET: &[u8] = b"ABCDEFGHIJKLMNOPQRSTUVWXYZabcdefghijklmnopqrstuvwxyz0123456789-_.=+/";

fn mutation_label(token: &str, pos: usize, new: u8) -> String {
    let b = token.as_bytes();
    let d1 = b.iter().position(|c| *c == b'.').unwrap_or(b.len());
    let d2 = b.iter().skip(d1 + 1).position(|c| *c == b'.').map_or(b.len(), |i| i + d1 + 1);
    let (part, start, end) = if pos < d1 { ("header", 0, d1) } else if pos == d1 { ("dot1", d1, d1 + 1) }
        else if pos < d2 { ("payload", d1 + 1, d2) } else if pos == d2 { ("dot2", d2, d2 + 1) } else { ("signature", d2 + 1, b.len()) };
    let at = if part.starts_with("dot") { "" } else if pos == start { ":first" } else if pos + 1 == end { ":last" } else { ":middle" };
    let repl = match new { b'.' => "dot", b'=' => "pad", b'+' | b'/' => "std", _ => "b64" };
    format!("mutation@{part}{at}>{repl}")
}

fn other_secret_for(secret: &str) -> String { if secret == "x-other" { "y-other".into() } else { "x-other".into() } }

/// the small set of edits applied to every token the reference accepts
fn light_edits(cfg: &Cfg, token: &str, header: &[u8], payload: &[u8]) -> Vec<Edit> {
    let parts: Vec<&str> = token.split('.').collect();
    let mut out = vec![
        bearer("parts:extra-empty", format!("{token}.")),
        bearer("parts:extra-x", format!("{token}.x")),
        bearer("resign:other-secret", rj::craft(cfg.alg, other_secret_for(&cfg.secret).as_bytes(), header, payload)),
    ];
    if let Ok(sig) = b64::url_decode(parts.get(2).unwrap_or(&"").as_bytes()) {
        out.push(bearer("sig-length:first-16-bytes", format!("{}.{}.{}", parts[0], parts[1], b64::url_encode(&sig[..sig.len().min(16)]))));
        let mut flipped = sig.clone();
        if let Some(l) = flipped.last_mut() { *l ^= 1 }
        out.push(bearer("sig-bytes:last-bit-flipped", format!("{}.{}.{}", parts[0], parts[1], b64::url_encode(&flipped))));
    }
    for a in ALGS { if a != cfg.alg {
        out.push(bearer(format!("resign:header-names-other-alg({})", a.name()), rj::craft(cfg.alg, cfg.secret.as_bytes(), a.issued_header().as_bytes(), payload)));
    } }
    out.push(Edit { label: "method:POST".into(), method: "POST", auth: Some(format!("Bearer {token}")), extra: None });
    out
}

/// the complete edit families of DESIGN §5 C12 (except the single-character substitutions, see `mutations`)
fn full_edits(cfg: &Cfg, token: &str, header: &[u8], payload: &[u8]) -> Vec<Edit> {
    let parts: Vec<&str> = token.split('.').collect();
    if parts.len() != 3 { return vec![] }
    let (h, p, s) = (parts[0], parts[1], parts[2]);
    let mut out = vec![];

    // part counts
    for (label, t) in [
        ("parts:empty-token", String::new()), ("parts:dot", ".".into()), ("parts:two-dots", "..".into()), ("parts:three-dots", "...".into()),
        ("parts:header-only", h.to_string()), ("parts:header-dot", format!("{h}.")), ("parts:no-signature-part", format!("{h}.{p}")),
        ("parts:empty-signature", format!("{h}.{p}.")), ("parts:empty-header", format!(".{p}.{s}")), ("parts:empty-payload", format!("{h}..{s}")),
        ("parts:payload-and-signature-only", format!("{p}.{s}")), ("parts:signature-only", s.to_string()),
        ("parts:extra-signature", format!("{token}.{s}")), ("parts:extra-token", format!("{token}.{token}")), ("parts:extra-two", format!("{token}.x.y")),
        ("parts:extra-empty-twice", format!("{token}..")), ("parts:leading-dot", format!(".{token}")),
        ("parts:reversed", format!("{s}.{p}.{h}")), ("parts:payload-first", format!("{p}.{h}.{s}")),
        ("parts:comma-separated", format!("{h},{p},{s}")), ("parts:token-twice-space", format!("{token} {token}")), ("parts:token-twice-comma", format!("{token}, Bearer {token}")),
    ] { out.push(bearer(label, t)); }

    // signature length / encoding
    if let Ok(sig) = b64::url_decode(s.as_bytes()) {
        for k in 1..=4usize {
            out.push(bearer(format!("sig-length:chars-short-{k}"), format!("{h}.{p}.{}", &s[..s.len().saturating_sub(k)])));
            out.push(bearer(format!("sig-length:chars-long-{k}(A)"), format!("{h}.{p}.{s}{}", "A".repeat(k))));
            out.push(bearer(format!("sig-length:chars-long-{k}(last)"), format!("{h}.{p}.{s}{}", s[s.len() - 1..].repeat(k))));
            out.push(bearer(format!("sig-length:bytes-short-{k}"), format!("{h}.{p}.{}", b64::url_encode(&sig[..sig.len() - k]))));
            out.push(bearer(format!("sig-length:bytes-long-{k}(zero)"), format!("{h}.{p}.{}", b64::url_encode(&[&sig[..], &vec![0u8; k][..]].concat()))));
        }
        for n in [0usize, 1, 8, 16, 20, 31] { if n < sig.len() {
            out.push(bearer(format!("sig-length:first-{n}-bytes"), format!("{h}.{p}.{}", b64::url_encode(&sig[..n]))));
        } }
        out.push(bearer("sig-length:last-16-bytes", format!("{h}.{p}.{}", b64::url_encode(&sig[sig.len() - 16..]))));
        out.push(bearer("sig-length:twice", format!("{h}.{p}.{}", b64::url_encode(&[&sig[..], &sig[..]].concat()))));
        out.push(bearer("sig-encoding:padded", format!("{h}.{p}.{}", b64::encode(b64::Alphabet::UrlSafe, true, &sig)) + if sig.len() % 3 == 0 { "=" } else { "" }));
        out.push(bearer("sig-encoding:standard-alphabet", format!("{h}.{p}.{}", b64::encode(b64::Alphabet::Standard, false, &sig)) + if s.contains(['-', '_']) { "" } else { "+" }));
        out.push(bearer("sig-encoding:hex", format!("{h}.{p}.{}", sig.iter().map(|b| format!("{b:02x}")).collect::<String>())));
        out.push(bearer("sig-encoding:double-base64", format!("{h}.{p}.{}", b64::url_encode(s.as_bytes()))));
        for i in [0, sig.len() / 2, sig.len() - 1] {
            let mut f = sig.clone(); f[i] ^= 0x80;
            out.push(bearer(format!("sig-bytes:bit-flipped@{}", if i == 0 { "first" } else if i + 1 == sig.len() { "last" } else { "middle" }), format!("{h}.{p}.{}", b64::url_encode(&f))));
        }
        out.push(bearer("sig-bytes:all-zero", format!("{h}.{p}.{}", b64::url_encode(&vec![0u8; sig.len()]))));
        // non-canonical last symbol: every symbol that decodes to the same bytes but has unused bits set
        for alt in b"ABCDEFGHIJKLMNOPQRSTUVWXYZabcdefghijklmnopqrstuvwxyz0123456789-_" {
            let mut t = s.as_bytes().to_vec();
            if *t.last().unwrap() == *alt { continue }
            *t.last_mut().unwrap() = *alt;
            if b64::decode_lenient_bits(b64::Alphabet::UrlSafe, b64::Padding::Forbidden, &t).ok().as_deref() == Some(&sig[..]) {
                out.push(bearer("sig-encoding:noncanonical-last-symbol", format!("{h}.{p}.{}", String::from_utf8(t).unwrap())));
            }
        }
    }

    // re-signing with other keys and algorithms
    let all_secrets = { let mut v = secrets(); v.push("x-other".into()); v.push(format!("{}\u{0}", cfg.secret)); v.push(format!("{} ", cfg.secret)); v.push(cfg.secret.to_uppercase()); v };
    for other in &all_secrets {
        if *other == cfg.secret { continue }
        // (`secret` + NUL is the *same* HMAC key when it fits the block; the reference computes the verdict from the token, so that token is simply expected to be accepted)
        let rel = if cfg.secret.starts_with(other.as_str()) { "prefix-of-configured" } else if other.starts_with(cfg.secret.as_str()) { "extends-configured" } else { "unrelated" };
        out.push(bearer(format!("resign:other-secret({rel})"), rj::craft(cfg.alg, other.as_bytes(), header, payload)));
        for a in ALGS { if a != cfg.alg {
            out.push(bearer("resign:other-configuration", rj::craft(a, other.as_bytes(), a.issued_header().as_bytes(), payload)));
        } }
    }
    for a in ALGS { if a != cfg.alg {
        out.push(bearer(format!("resign:signature-by-other-alg({})", a.name()), rj::craft(a, cfg.secret.as_bytes(), header, payload)));
        out.push(bearer(format!("resign:header-names-other-alg({})", a.name()), rj::craft(cfg.alg, cfg.secret.as_bytes(), a.issued_header().as_bytes(), payload)));
        out.push(bearer(format!("resign:other-alg-same-secret({})", a.name()), rj::craft(a, cfg.secret.as_bytes(), a.issued_header().as_bytes(), payload)));
    } }
    // the secret used as a *public* text: signature = base64url(secret), signature = HMAC with the header as key
    out.push(bearer("resign:signature-is-secret-text", format!("{h}.{p}.{}", b64::url_encode(cfg.secret.as_bytes()))));
    out.push(bearer("resign:keyed-by-header", rj::craft(cfg.alg, header, header, payload)));

    // header variations, each correctly signed (configured secret + algorithm over the new first part), with a
    // wrong signature, and — for the alg:none family — with empty / missing signature
    let a = cfg.alg.name();
    let other_alg = ALGS.into_iter().find(|x| *x != cfg.alg).unwrap().name();
    let headers: Vec<(&str, String)> = vec![
        ("alg:none", r#"{"typ":"JWT","alg":"none"}"#.into()), ("alg:None", r#"{"typ":"JWT","alg":"None"}"#.into()), ("alg:NONE", r#"{"alg":"NONE"}"#.into()),
        ("alg:absent", r#"{"typ":"JWT"}"#.into()), ("alg:absent-empty-header", "{}".into()),
        ("alg:lowercase", format!(r#"{{"typ":"JWT","alg":"{}"}}"#, a.to_lowercase())), ("alg:trailing-space", format!(r#"{{"typ":"JWT","alg":"{a} "}}"#)),
        ("alg:prefix", format!(r#"{{"typ":"JWT","alg":"{}"}}"#, &a[..4])), ("alg:extended", format!(r#"{{"typ":"JWT","alg":"{a}6"}}"#)),
        ("alg:empty-string", r#"{"typ":"JWT","alg":""}"#.into()), ("alg:null", r#"{"typ":"JWT","alg":null}"#.into()),
        ("alg:number", format!(r#"{{"typ":"JWT","alg":{}}}"#, &a[2..])), ("alg:array", format!(r#"{{"typ":"JWT","alg":["{a}"]}}"#)), ("alg:object", format!(r#"{{"typ":"JWT","alg":{{"alg":"{a}"}}}}"#)),
        ("alg:other-hs", format!(r#"{{"typ":"JWT","alg":"{other_alg}"}}"#)), ("alg:RS256", r#"{"typ":"JWT","alg":"RS256"}"#.into()),
        ("alg:member-name-case", format!(r#"{{"typ":"JWT","ALG":"{a}"}}"#)), ("alg:nested-only", format!(r#"{{"typ":"JWT","x":{{"alg":"{a}"}}}}"#)),
        ("alg:duplicate-none-first", format!(r#"{{"alg":"none","alg":"{a}"}}"#)), ("alg:duplicate-none-last", format!(r#"{{"alg":"{a}","alg":"none"}}"#)),
        ("header:alg-only", format!(r#"{{"alg":"{a}"}}"#)), ("header:reordered", format!(r#"{{"alg":"{a}","typ":"JWT"}}"#)), ("header:white-space", format!(r#"{{ "typ" : "JWT", "alg" : "{a}" }}"#)),
        ("header:typ-lowercase", format!(r#"{{"typ":"jwt","alg":"{a}"}}"#)), ("header:typ-other", format!(r#"{{"typ":"JOSE","alg":"{a}"}}"#)), ("header:typ-number", format!(r#"{{"typ":1,"alg":"{a}"}}"#)),
        ("header:cty-JWT", format!(r#"{{"typ":"JWT","cty":"JWT","alg":"{a}"}}"#)), ("header:cty-other", format!(r#"{{"typ":"JWT","cty":"x","alg":"{a}"}}"#)),
        ("header:extra-member", format!(r#"{{"typ":"JWT","alg":"{a}","kid":"1"}}"#)), ("header:crit", format!(r#"{{"typ":"JWT","alg":"{a}","crit":["exp"]}}"#)),
        ("header:escaped-alg-name", format!(r#"{{"typ":"JWT","\u0061lg":"{a}"}}"#)), ("header:escaped-alg-value", format!(r#"{{"typ":"JWT","alg":"\u0048{}"}}"#, &a[1..])),
        ("header:not-object-string", format!(r#""{a}""#)), ("header:not-object-array", format!(r#"["alg","{a}"]"#)), ("header:not-object-null", "null".into()),
        ("header:not-json", format!("typ=JWT&alg={a}")), ("header:truncated-json", format!(r#"{{"typ":"JWT","alg":"{a}""#)), ("header:trailing-garbage", format!(r#"{{"typ":"JWT","alg":"{a}"}}x"#)),
        ("header:is-payload", String::from_utf8_lossy(payload).to_string()),
    ];
    for (label, text) in &headers {
        out.push(bearer(format!("{label}/signed"), rj::craft(cfg.alg, cfg.secret.as_bytes(), text.as_bytes(), payload)));
        out.push(bearer(format!("{label}/wrong-signature"), rj::craft(cfg.alg, other_secret_for(&cfg.secret).as_bytes(), text.as_bytes(), payload)));
        out.push(bearer(format!("{label}/original-signature"), format!("{}.{p}.{s}", b64::url_encode(text.as_bytes()))));
        if label.starts_with("alg:") {
            out.push(bearer(format!("{label}/empty-signature"), format!("{}.{p}.", b64::url_encode(text.as_bytes()))));
            out.push(bearer(format!("{label}/no-signature-part"), format!("{}.{p}", b64::url_encode(text.as_bytes()))));
        }
    }
    // header / payload in other encodings of the same bytes
    out.push(bearer("encoding:header-padded", format!("{}.{p}.{s}", b64::encode(b64::Alphabet::UrlSafe, true, header)) .replacen('.', if header.len() % 3 == 0 { "=." } else { "." }, 1)));
    out.push(bearer("encoding:payload-padded", format!("{h}.{}=.{s}", p)));
    out.push(bearer("encoding:header-raw-json", format!("{}.{p}.{s}", String::from_utf8_lossy(header))));

    // where and how the token is carried
    let t = token;
    for (label, auth, extra) in [
        ("auth:absent", None, None),
        ("auth:no-scheme", Some(t.to_string()), None), ("auth:scheme-Basic", Some(format!("Basic {t}")), None), ("auth:scheme-Token", Some(format!("Token {t}")), None),
        ("auth:scheme-JWT", Some(format!("JWT {t}")), None), ("auth:scheme-Bearer-glued", Some(format!("Bearer{t}")), None), ("auth:scheme-Bearer-colon", Some(format!("Bearer: {t}")), None),
        ("auth:scheme-Bearer=", Some(format!("Bearer={t}")), None), ("auth:scheme-prefix", Some(format!("Bear {t}")), None), ("auth:scheme-extended", Some(format!("Bearers {t}")), None),
        ("auth:scheme-lowercase", Some(format!("bearer {t}")), None), ("auth:scheme-uppercase", Some(format!("BEARER {t}")), None), ("auth:scheme-mixed-case", Some(format!("bEARER {t}")), None),
        ("auth:two-spaces", Some(format!("Bearer  {t}")), None), ("auth:tab", Some(format!("Bearer\t{t}")), None), ("auth:trailing-space", Some(format!("Bearer {t} ")), None),
        ("auth:leading-space", Some(format!(" Bearer {t}")), None), ("auth:quoted", Some(format!("Bearer \"{t}\"")), None), ("auth:scheme-only", Some("Bearer".to_string()), None),
        ("auth:scheme-and-space-only", Some("Bearer ".to_string()), None), ("auth:empty-value", Some(String::new()), None),
        ("auth:other-header-only(X-Authorization)", None, Some(("X-Authorization", format!("Bearer {t}")))), ("auth:other-header-only(Proxy-Authorization)", None, Some(("Proxy-Authorization", format!("Bearer {t}")))),
        ("auth:other-header-only(Cookie)", None, Some(("Cookie", format!("token={t}")))),
        ("auth:garbage+token-elsewhere", Some("Bearer x.y.z".to_string()), Some(("X-Authorization", format!("Bearer {t}")))),
    ] {
        out.push(Edit { label: label.into(), method: "GET", auth, extra: extra.map(|(k, v)| (k.to_string(), v)) });
    }

    // methods
    out.push(Edit { label: "method:POST".into(), method: "POST", auth: Some(format!("Bearer {t}")), extra: None });
    out.push(Edit { label: "method:POST+parts:extra-empty".into(), method: "POST", auth: Some(format!("Bearer {t}.")), extra: None });
    out.push(Edit { label: "method:POST+resign:other-secret".into(), method: "POST", auth: Some(format!("Bearer {}", rj::craft(cfg.alg, other_secret_for(&cfg.secret).as_bytes(), header, payload))), extra: None });
    out.push(Edit { label: "method:POST+auth:absent".into(), method: "POST", auth: None, extra: None });
    for (label, auth) in [("method:OPTIONS+valid-token", Some(format!("Bearer {t}"))), ("method:OPTIONS+auth:absent", None), ("method:OPTIONS+garbage", Some("Bearer x".to_string())),
                          ("method:OPTIONS+parts:extra-empty", Some(format!("Bearer {t}.")))] {
        out.push(Edit { label: label.into(), method: "OPTIONS", auth, extra: None });
    }
    out
}

fn run_edit(ctx: &mut Ctx, cfg: &Cfg, now: u64, e: &Edit) {
    run_case(ctx, cfg, &Case { now, method: e.method, auth: e.auth.as_deref(), extra: e.extra.as_ref().map(|(k, v)| (k.as_str(), v.as_str())), label: &e.label });
}

/// every single-character substitution at every position over base64url + `. = + /`
fn mutations(ctx: &mut Ctx, cfg: &Cfg, now: u64, token: &str) {
    let b = token.as_bytes();
    for pos in 0..b.len() {
        if ctx.out_of_time() { return }
        for c in MUT_ALPHABET {
            if b[pos] == *c { continue }
            let mut m = b.to_vec();
            m[pos] = *c;
            let auth = format!("Bearer {}", std::str::from_utf8(&m).unwrap());
            run_case(ctx, cfg, &Case { now, method: "GET", auth: Some(&auth), extra: None, label: &mutation_label(token, pos, *c) });
        }
    }
    // one character removed / one inserted, at every position
    for pos in 0..b.len() {
        let mut m = b.to_vec(); m.remove(pos);
        let auth = format!("Bearer {}", std::str::from_utf8(&m).unwrap());
        run_case(ctx, cfg, &Case { now, method: "GET", auth: Some(&auth), extra: None, label: &mutation_label(token, pos, b'A').replace("mutation@", "deletion@").replace(">b64", "") });
    }
    for pos in 0..=b.len() {
        for c in [b'A', b'.'] {
            let mut m = b.to_vec(); m.insert(pos, c);
            let auth = format!("Bearer {}", std::str::from_utf8(&m).unwrap());
            // a dot appended to the whole token is the `parts:extra-empty` shape, not a new one
            let l = if pos == b.len() && c == b'.' { "parts:extra-empty".to_string() } else { mutation_label(token, pos.min(b.len() - 1), c).replace("mutation@", "insertion@") };
            run_case(ctx, cfg, &Case { now, method: "GET", auth: Some(&auth), extra: None, label: &l });
        }
    }
}

/// deviation bound 2 (thorough only): every pair of positions x every pair of replacement characters of one
/// minimal token; one sharding unit per first position
fn double_mutations(ctx: &mut Ctx, cfg: &Cfg, now: u64, token: &str) {
    let b = token.as_bytes();
    let part = |pos: usize| { let l = mutation_label(token, pos, b'A'); l["mutation@".len()..].split([':', '>']).next().unwrap_or("").to_string() };
    for i in 0..b.len() {
        if !ctx.mine() { continue }
        for j in i + 1..b.len() {
            if ctx.out_of_time() { return }
            let label = format!("mutation2@{}+{}", part(i), part(j));
            for c1 in MUT_ALPHABET { if *c1 == b[i] { continue }
                for c2 in MUT_ALPHABET { if *c2 == b[j] { continue }
                    let mut m = b.to_vec();
                    m[i] = *c1; m[j] = *c2;
                    let auth = format!("Bearer {}", std::str::from_utf8(&m).unwrap());
                    run_case(ctx, cfg, &Case { now, method: "GET", auth: Some(&auth), extra: None, label: &label });
                }
            }
        }
    }
}

/* ------------------------------------------------------------------- the run ------------------------------- */

struct Routers { cache: Vec<Option<Cfg>>, secrets: Vec<String> }

impl Routers {
    fn index(&self, si: usize, ai: usize, typed: bool) -> usize { (si * 3 + ai) * 2 + typed as usize }
    fn get(&mut self, ctx: &mut Ctx, si: usize, ai: usize, typed: bool) -> Option<&Cfg> {
        let i = self.index(si, ai, typed);
        if self.cache[i].is_none() {
            match build(&self.secrets[si], ALGS[ai], typed) {
                Ok(c) => self.cache[i] = Some(c),
                Err(p) => {
                    let (s, a) = (self.secrets[si].clone(), ALGS[ai]);
                    ctx.violation(&format!("C12/{}/build/panic:{}", a.name(), panic_kind(&p)), true, || json!({"secret": esc(s.as_bytes()), "alg": a.name(), "typed": typed, "build_only": true, "observed": p}));
                    return None
                }
            }
        }
        self.cache[i].as_ref()
    }
}

/// The issued token must itself be what the statement calls a token of this configuration: three base64url
/// parts, header naming the algorithm, payload equal to what was handed in, signature = HMAC of the two parts.
fn check_issue(ctx: &mut Ctx, cfg: &Cfg, now: u64, payload: &Value, issued: &Result<String, String>) -> Option<(String, Vec<u8>, Vec<u8>)> {
    let class = |s: &str| format!("C12/{}{}/issue/{}", cfg.alg.name(), if cfg.typed { "+typed" } else { "" }, s);
    let witness = |obs: String| { let w = json!({"secret": esc(cfg.secret.as_bytes()), "alg": cfg.alg.name(), "typed": cfg.typed, "now": now, "issue_payload": payload, "observed": obs}); move || w };
    let token = match issued {
        Err(p) => { ctx.violation(&class(&format!("panic:{}", panic_kind(p))), true, witness(p.clone())); return None }
        Ok(t) => t,
    };
    let parts: Vec<&str> = token.split('.').collect();
    let decoded: Vec<Option<Vec<u8>>> = parts.iter().map(|p| b64::url_decode(p.as_bytes()).ok()).collect();
    if parts.len() != 3 || decoded.iter().any(|d| d.is_none()) {
        ctx.violation(&class("not-three-base64url-parts"), true, witness(token.clone())); return None
    }
    let (header, body, sig) = (decoded[0].clone().unwrap(), decoded[1].clone().unwrap(), decoded[2].clone().unwrap());
    let expected_payload = rj::parse_json(serde_json::to_string(payload).unwrap().as_bytes()).expect("harness payloads are JSON");
    let header_ok = rj::parse_json(&header).ok().is_some_and(|h| h.get_all("alg").len() == 1 && h.get_all("alg")[0].as_str() == Some(cfg.alg.name()));
    let payload_ok = rj::parse_json(&body).ok().is_some_and(|p| rj::json_eq(&p, &expected_payload));
    let sig_ok = sig == rj::hmac(cfg.alg, cfg.secret.as_bytes(), format!("{}.{}", parts[0], parts[1]).as_bytes());
    if !header_ok { ctx.violation(&class("header-does-not-name-algorithm"), true, witness(token.clone())); return None }
    if !payload_ok { ctx.violation(&class("payload-differs-from-input"), true, witness(token.clone())); return None }
    if !sig_ok { ctx.violation(&class("signature-is-not-the-hmac"), true, witness(token.clone())); return None }
    ctx.pass("issue-ok", true, false);
    Some((token.clone(), header, body))
}

fn clocks(quick: bool) -> Vec<u64> { if quick { vec![app::CLOCK, 0] } else { vec![app::CLOCK, 0, 1 << 32] } }

pub fn run(ctx: &mut Ctx) {
    let quick = ctx.quick();
    // the reference must reproduce the Python-derived tokens, or nothing below means anything
    for (secret, alg, token) in rj::py_vectors() {
        if rj::craft(alg, secret.as_bytes(), alg.issued_header().as_bytes(), br#"{"sub":"u"}"#) != token {
            ctx.machinery_error(format!("reference HMAC/base64url disagrees with the Python-derived vector for {} / {:?}", alg.name(), secret));
            return
        }
    }
    compositions(ctx);
    let secrets = secrets();
    let mut routers = Routers { cache: (0..secrets.len() * 3 * 2).map(|_| None).collect(), secrets: secrets.clone() };
    let (mut n_units, mut n_tokens_mutated, mut n_issued) = (0u64, 0u64, 0u64);

    for (ci, &now) in clocks(quick).iter().enumerate() {
        let main_clock = ci == 0;
        for si in 0..secrets.len() { for ai in 0..3 {
            /* --- untyped payloads through the real issue() --- */
            for (pi, (pname, payload)) in value_payloads(now, main_clock || !quick).into_iter().enumerate() {
                if !ctx.mine() { continue }
                if ctx.out_of_time() { return finish(ctx, quick, n_units, n_tokens_mutated, n_issued) }
                let Some(cfg) = routers.get(ctx, si, ai, false) else { continue };
                n_units += 1;
                ohkami::__verif__::set_clock(Some(now));
                let issued = cfg.issue(&payload);
                let Some((token, header, body)) = check_issue(ctx, cfg, now, &payload, &issued) else { continue };
                n_issued += 1;
                let auth = format!("Bearer {token}");
                run_case(ctx, cfg, &Case { now, method: "GET", auth: Some(&auth), extra: None, label: "issued" });
                if n_issued <= 2 {
                    ctx.sample(|| json!({"secret": esc(cfg.secret.as_bytes()), "alg": cfg.alg.name(), "now": now, "payload": payload, "issued_token": token, "expected": "handler runs and echoes the payload"}));
                    ctx.sample(|| { let mut m = token.clone().into_bytes(); let l = m.len(); m[l - 1] = if m[l - 1] == b'A' { b'B' } else { b'A' };
                        json!({"secret": esc(cfg.secret.as_bytes()), "alg": cfg.alg.name(), "now": now, "authorization": format!("Bearer {}", String::from_utf8_lossy(&m)), "label": "mutation@signature:last>b64", "expected": "error status, handler does not run"}) });
                }
                let v = rj::judge_token(cfg.secret.as_bytes(), cfg.alg, now, &token);
                if v.expect == Expect::Refuse {
                    // a token the claims refuse stays refused under POST; the other edits would be trivial (two grounds)
                    run_case(ctx, cfg, &Case { now, method: "POST", auth: Some(&auth), extra: None, label: "issued" });
                    continue
                }
                for e in light_edits(cfg, &token, &header, &body) { run_edit(ctx, cfg, now, &e) }
                // full edit families: every token the reference does not refuse, at the main clock
                if main_clock { for e in full_edits(cfg, &token, &header, &body) { run_edit(ctx, cfg, now, &e) } }
                // every single-character mutation: quick = accepted tokens of the plain payloads and of the integer-claim
                // product at the main clock; thorough = every token the reference does not refuse, at every clock
                let mutate = if quick { main_clock && v.expect == Expect::Accept && (pi < 5 || pname == "int-claims") } else { true };
                if mutate { n_tokens_mutated += 1; mutations(ctx, cfg, now, &token) }
            }
            /* --- payload texts only the reference can sign --- */
            if main_clock || !quick {
                for (label, text) in crafted_payload_texts(now) {
                    if !ctx.mine() { continue }
                    if ctx.out_of_time() { return finish(ctx, quick, n_units, n_tokens_mutated, n_issued) }
                    let Some(cfg) = routers.get(ctx, si, ai, false) else { continue };
                    n_units += 1;
                    let bytes: Vec<u8> = text;
                    let token = rj::craft(cfg.alg, cfg.secret.as_bytes(), cfg.alg.issued_header().as_bytes(), &bytes);
                    let auth = format!("Bearer {token}");
                    run_case(ctx, cfg, &Case { now, method: "GET", auth: Some(&auth), extra: None, label: &label });
                    if rj::judge_token(cfg.secret.as_bytes(), cfg.alg, now, &token).expect != Expect::Refuse {
                        for e in light_edits(cfg, &token, cfg.alg.issued_header().as_bytes(), &bytes) { run_edit(ctx, cfg, now, &e) }
                    }
                }
            }
            /* --- typed payload --- */
            if main_clock && (!quick || si % 2 == 0) {
                for (pi, (_, payload)) in typed_payloads(now).into_iter().enumerate() {
                    if !ctx.mine() { continue }
                    if ctx.out_of_time() { return finish(ctx, quick, n_units, n_tokens_mutated, n_issued) }
                    let Some(cfg) = routers.get(ctx, si, ai, true) else { continue };
                    n_units += 1;
                    ohkami::__verif__::set_clock(Some(now));
                    let issued = cfg.issue(&payload);
                    let Some((token, header, body)) = check_issue(ctx, cfg, now, &payload, &issued) else { continue };
                    let auth = format!("Bearer {token}");
                    run_case(ctx, cfg, &Case { now, method: "GET", auth: Some(&auth), extra: None, label: "issued" });
                    if rj::judge_token(cfg.secret.as_bytes(), cfg.alg, now, &token).expect == Expect::Refuse { continue }
                    for e in light_edits(cfg, &token, &header, &body) { run_edit(ctx, cfg, now, &e) }
                    if pi == 1 { for e in full_edits(cfg, &token, &header, &body) { run_edit(ctx, cfg, now, &e) } }
                    if pi == 0 { n_tokens_mutated += 1; mutations(ctx, cfg, now, &token) }
                    // correctly signed payloads that do not fit the handler's type (not decided by the statement)
                    if pi == 0 {
                        for text in [r#"{}"#, r#"{"sub":5,"admin":false}"#, r#"{"sub":"u","admin":false,"x":1}"#, r#"{"sub":"u","admin":false,"exp":"soon"}"#, r#""u""#] {
                            let t = rj::craft(cfg.alg, cfg.secret.as_bytes(), cfg.alg.issued_header().as_bytes(), text.as_bytes());
                            run_case(ctx, cfg, &Case { now, method: "GET", auth: Some(&format!("Bearer {t}")), extra: None, label: "crafted:typed-shape-mismatch" });
                        }
                    }
                }
            }
            /* --- arbitrary short Authorization values --- */
            if main_clock {
                if !ctx.mine() { continue }
                let Some(cfg) = routers.get(ctx, si, ai, false) else { continue };
                n_units += 1;
                let h_ok = b64::url_encode(cfg.alg.issued_header().as_bytes());
                let alphabet: [&[u8]; 7] = [b"Bearer ", b".", b"e30" /* {} */, h_ok.as_bytes(), b"A", b" ", b"bearer"];
                for s in strings_over(&alphabet, if quick { 4 } else { 5 }) {
                    if ctx.out_of_time() { return finish(ctx, quick, n_units, n_tokens_mutated, n_issued) }
                    let text = String::from_utf8(s).unwrap();
                    if text.ends_with(' ') && !text.ends_with("Bearer ") || text.starts_with(' ') { continue } // blanks around the field value: C02's business
                    let dots = text.matches('.').count();
                    run_case(ctx, cfg, &Case { now, method: "GET", auth: Some(&text), extra: None, label: &format!("arbitrary:{}-dots", dots) });
                }
            }
        } }
    }
    if !quick {
        // two-character substitutions of the minimal token (`{}` payload, secret `s`, HS256) at the main clock
        let now = app::CLOCK;
        if let Some(cfg) = routers.get(ctx, 1, 0, false) {
            ohkami::__verif__::set_clock(Some(now));
            if let Ok(token) = cfg.issue(&json!({})) {
                if rj::judge_token(cfg.secret.as_bytes(), cfg.alg, now, &token).expect == Expect::Accept { double_mutations(ctx, cfg, now, &token) }
            }
        }
    }
    finish(ctx, quick, n_units, n_tokens_mutated, n_issued)
}

fn finish(ctx: &mut Ctx, quick: bool, n_units: u64, n_mut: u64, n_issued: u64) {
    ctx.extra.insert("rule".into(), json!("case = (secret, algorithm, payload type, pinned clock, method, Authorization value [+ one other header]); non-trivial = an Authorization header for which the reference finds at most one ground of refusal (a valid token, or a token exactly one defect away from valid); collision = refused on exactly one ground (the single shortcut the edit family targets: prefix compare, skipped alg test, ignored claim, unchecked part count, lenient base64) or a time claim exactly equal to the clock"));
    ctx.extra.insert("bounds".into(), json!({
        "secrets": ["", "s", "secret", "70 bytes", "140 bytes", "pä", "` secret\\n`"], "algorithms": ["HS256", "HS384", "HS512"], "payload_types": ["serde_json::Value", "struct Claims{sub,admin,exp?}"],
        "clocks": clocks(quick), "payloads_per_configuration_main_clock": value_payloads(app::CLOCK, true).len(), "crafted_payload_texts": crafted_payload_texts(app::CLOCK).len(),
        "single_character_alphabet": String::from_utf8_lossy(MUT_ALPHABET), "mutations": "every substitution at every position + every deletion + insertion of `A` / `.` at every position",
        "mutated_tokens": if quick { "per (secret, alg), main clock: the five plain payloads and every accepted member of the integer-claim product (17); one typed token" } else { "per (secret, alg), every clock: every issued token the reference does not refuse; one typed token per configuration; all two-character substitutions of the minimal HS256 token" },
        "arbitrary_authorization_values": format!("all strings of <= {} symbols over [`Bearer `, `.`, `e30`, b64(issued header), `A`, ` `, `bearer`]", if quick { 4 } else { 5 }),
        "methods": ["GET", "POST", "OPTIONS"],
    }));
    ctx.extra.insert("sum_units".into(), json!(n_units));
    ctx.extra.insert("sum_tokens_fully_mutated".into(), json!(n_mut));
    ctx.extra.insert("sum_tokens_issued_by_subject".into(), json!(n_issued));
    ctx.extra.insert("python_cross_check".into(), json!("18 (secret, alg) tokens computed with Python hmac+hashlib+base64 are compiled into refmodel/jwt.rs and re-derived by the reference at the start of every worker; the driver-side re-check of every issued token is not implemented (no post-step in the driver)"));
}

pub fn replay(ctx: &mut Ctx, case: &Value) {
    if case.get("composition").is_some() { return replay_composition(ctx, case) }
    let secret = String::from_utf8(unesc(case["secret"].as_str().expect("secret"))).expect("secret is UTF-8");
    let alg = Alg::from_name(case["alg"].as_str().expect("alg")).expect("known alg");
    let typed = case["typed"].as_bool().unwrap_or(false);
    let now = case["now"].as_u64().unwrap_or(app::CLOCK);
    let cfg = match build(&secret, alg, typed) {
        Ok(c) => c,
        Err(p) => { ctx.violation(&format!("C12/{}/build/panic:{}", alg.name(), panic_kind(&p)), true, || json!({"secret": esc(secret.as_bytes()), "alg": alg.name(), "typed": typed, "build_only": true, "observed": p})); return }
    };
    if case["build_only"] == true { ctx.pass("build-ok", true, true); return }
    if let Some(payload) = case.get("issue_payload") {
        ohkami::__verif__::set_clock(Some(now));
        let issued = cfg.issue(payload);
        check_issue(ctx, &cfg, now, payload, &issued);
        return
    }
    if let Some(prior) = case["prior_admitted_authorization"].as_str() {
        // the request admitted last before the witness (same configuration): sent first, not judged here
        ohkami::__verif__::set_clock(Some(now));
        let raw = app::request("GET", "/", &[("Host", "h"), ("Authorization", prior)], b"");
        let _ = app::oneshot(&cfg.router, &raw);
    }
    let extra: Option<(String, String)> = case["extra_header"].as_array().map(|a| (a[0].as_str().unwrap_or("").to_string(), a[1].as_str().unwrap_or("").to_string()));
    run_case(ctx, &cfg, &Case {
        now, method: case["method"].as_str().unwrap_or("GET"), auth: case["authorization"].as_str(),
        extra: extra.as_ref().map(|(k, v)| (k.as_str(), v.as_str())), label: case["label"].as_str().unwrap_or("replay"),
    });
}

/* ------------------------------------------------------------ compositions (fourth round) ------------------ */
// More than one fang (or more than one instance of the JWT fang) on the way to a handler, all sharing the payload type
// `serde_json::Value`, and short histories over them.  Every gate on a path is a JWT fang of its own (secret, token
// source); the statement applies to each: the handler runs iff *every* gate in front of it admits the token presented to
// it, and then sees the payload the innermost gate verified.  Nothing a request leaves behind - in the request context
// (an outer fang's payload, a preset value of the same type) or in the process (anything remembered from an earlier
// request, by this instance or by another) - may change that.

use ohkami::fang::Context as CtxFang;

#[derive(Clone)]
struct Gate { secret: &'static str, outer_header: bool }

struct Composition { kind: &'static str, alg: Alg, router: VerifRouter, paths: Vec<(&'static str, Vec<Gate>)>, secrets: Vec<&'static str>,
    /// the request admitted last (rightly) on this composition in this process: the context of every witness
    last_legit: std::cell::RefCell<Option<CompReq>> }

fn outer_token(req: &ohkami::Request) -> Option<&str> { req.headers.get("X-Outer-Token") }

fn comp_jwt(alg: Alg, g: &Gate) -> JWT<Value> {
    let j = new_jwt::<Value>(alg, g.secret);
    if g.outer_header { j.get_token_by(outer_token, ohkami::openapi::SecurityScheme::APIKey("outer", ohkami::openapi::security::APIKey::header("X-Outer-Token"))) } else { j }
}

const COMP_KINDS: [&str; 5] = ["context-before-jwt", "outer-and-inner", "siblings", "same-fang-parent-and-child", "siblings-prefix-secrets"];

fn build_composition(kind: &'static str, alg: Alg) -> Result<Composition, String> {
    guarded(|| {
        let g = |secret: &'static str, outer_header: bool| Gate { secret, outer_header };
        match kind {
            "context-before-jwt" => {
                let a = g("secret", false);
                let router = VerifRouter::from(Ohkami::new((CtxFang::new(json!({"preset": true})), comp_jwt(alg, &a), "/".GET(echo_value))));
                Composition { kind, alg, router, paths: vec![("/", vec![a])], secrets: vec!["secret", "x-other"], last_legit: Default::default() }
            }
            "outer-and-inner" => {
                let (o, i) = (g("outer-secret", true), g("secret", false));
                let router = VerifRouter::from(Ohkami::new((comp_jwt(alg, &o), "/".GET(echo_value),
                    "/in".By(Ohkami::new((comp_jwt(alg, &i), "/".GET(echo_value)))))));
                Composition { kind, alg, router, paths: vec![("/", vec![o.clone()]), ("/in", vec![o, i])], secrets: vec!["outer-secret", "secret"], last_legit: Default::default() }
            }
            "siblings" | "siblings-prefix-secrets" => {
                let (sa, sb) = if kind == "siblings" { ("secret", "x-other") } else { ("s", "secret") };
                let (a, b) = (g(sa, false), g(sb, false));
                let router = VerifRouter::from(Ohkami::new((
                    "/a".By(Ohkami::new((comp_jwt(alg, &a), "/".GET(echo_value)))),
                    "/b".By(Ohkami::new((comp_jwt(alg, &b), "/".GET(echo_value)))))));
                Composition { kind, alg, router, paths: vec![("/a", vec![a]), ("/b", vec![b])], secrets: vec![sa, sb], last_legit: Default::default() }
            }
            "same-fang-parent-and-child" => {
                let a = g("secret", false);
                let jwt = comp_jwt(alg, &a);
                let router = VerifRouter::from(Ohkami::new((jwt.clone(), "/".GET(echo_value), "/in".By(Ohkami::new((jwt, "/".GET(echo_value)))))));
                Composition { kind, alg, router, paths: vec![("/", vec![a.clone()]), ("/in", vec![a.clone(), a])], secrets: vec!["secret", "x-other"], last_legit: Default::default() }
            }
            _ => unreachable!(),
        }
    })
}

/// token menu of a composition: per secret a valid token with its own payload; cross-forged tokens (head and payload of one,
/// signature of the other - what a cache keyed by part of the token would confuse); a non-token; absent
fn comp_tokens(c: &Composition) -> Vec<(String, Option<String>)> {
    let hdr = c.alg.issued_header();
    let valid: Vec<String> = c.secrets.iter().map(|s| rj::craft(c.alg, s.as_bytes(), hdr.as_bytes(), format!(r#"{{"sub":"signed-with-{}"}}"#, s).as_bytes())).collect();
    let mut out: Vec<(String, Option<String>)> = vec![("absent".into(), None)];
    for (i, s) in c.secrets.iter().enumerate() { out.push((format!("valid:{s}"), Some(valid[i].clone()))) }
    for i in 0..valid.len() { for j in 0..valid.len() { if i != j {
        let (hp, _) = valid[i].rsplit_once('.').unwrap();
        let (_, sig) = valid[j].rsplit_once('.').unwrap();
        out.push((format!("forged:body-of-{}+signature-of-{}", c.secrets[i], c.secrets[j]), Some(format!("{hp}.{sig}"))));
    } } }
    // the admin payload under the signature of the first valid token (same head): what a signature-keyed memo admits
    let forged_payload = format!("{}.{}.{}", b64::url_encode(hdr.as_bytes()), b64::url_encode(br#"{"sub":"root","admin":true}"#), valid[0].rsplit_once('.').unwrap().1);
    out.push(("forged:other-payload+signature-of-first".into(), Some(forged_payload)));
    out.push(("garbage".into(), Some("not.a.token".into())));
    out
}

#[derive(Clone)]
struct CompReq { path: &'static str, bearer: usize, outer: usize }

fn comp_requests(c: &Composition, menu: &[(String, Option<String>)]) -> Vec<CompReq> {
    let uses_outer = c.paths.iter().any(|(_, gs)| gs.iter().any(|g| g.outer_header));
    let mut v = vec![];
    for (p, _) in &c.paths { for b in 0..menu.len() { for o in 0..(if uses_outer { menu.len() } else { 1 }) { v.push(CompReq { path: p, bearer: b, outer: o }) } } }
    v
}

/// runs one history on the composition; every step is judged on its own (the expectation never depends on the history)
fn run_comp_history(ctx: &mut Ctx, c: &Composition, menu: &[(String, Option<String>)], hist: &[CompReq]) {
    let now = app::CLOCK;
    ohkami::__verif__::set_clock(Some(now));
    let mut trace: Vec<Value> = vec![];
    let context: Option<CompReq> = c.last_legit.borrow().clone();
    for (k, r) in hist.iter().enumerate() {
        let gates = &c.paths.iter().find(|(p, _)| *p == r.path).unwrap().1;
        let bearer = menu[r.bearer].1.as_ref().map(|t| format!("Bearer {t}"));
        let outer = menu[r.outer].1.clone();
        let mut headers: Vec<(&str, &str)> = vec![("Host", "h")];
        if let Some(b) = &bearer { headers.push(("Authorization", b)) }
        if let Some(o) = &outer { headers.push(("X-Outer-Token", o)) }
        let raw = app::request("GET", r.path, &headers, b"");
        // reference: every gate judges the token of its own source
        let mut admit = true; let mut innermost: Option<Json> = None;
        for g in gates {
            let tok = if g.outer_header { outer.as_deref() } else { menu[r.bearer].1.as_deref() };
            let v = match tok { Some(t) => rj::judge_token(g.secret.as_bytes(), c.alg, now, t), None => rj::judge_authorization(g.secret.as_bytes(), c.alg, now, None) };
            if v.expect != Expect::Accept { admit = false; break }
            innermost = v.payload;
        }
        let before = RUNS.load(Ordering::SeqCst);
        let out = app::oneshot(&c.router, &raw);
        let ran = RUNS.load(Ordering::SeqCst) != before;
        ctx.transitions += 1;
        let step = json!({"path": r.path, "bearer": menu[r.bearer].0, "outer": if gates.iter().any(|g| g.outer_header) { json!(menu[r.outer].0) } else { Value::Null }});
        trace.push(step);
        let last = k + 1 == hist.len();
        let feature = format!("{}{}", if hist.len() > 1 { format!("after:{}>", menu[hist[0].bearer].0.split(':').next().unwrap_or("")) } else { String::new() },
                              menu[r.bearer].0.split(':').next().unwrap_or(""));
        let class = |symptom: &str| format!("C12/{}/composition:{}/{}/{}", c.alg.name(), c.kind, feature, symptom);
        let witness = |observed: String, expected: String| {
            let w = json!({"composition": c.kind, "alg": c.alg.name(), "history": hist.iter().map(|h| json!([h.path, h.bearer, h.outer])).collect::<Vec<_>>(),
                           "context_last_rightly_admitted": context.as_ref().map(|h| json!([h.path, h.bearer, h.outer])),
                           "history_readable": trace.clone(), "step": k, "expected": expected, "observed": observed});
            move || w
        };
        let Some(p) = out.parsed() else {
            ctx.violation(&class(&format!("no-response:{}", out.kind().split(':').next().unwrap_or(""))), true, witness(out.kind(), "a response".into()));
            return
        };
        let body = String::from_utf8_lossy(&p.body).to_string();
        let observed = format!("status {} ran={} body={:?}", p.status, ran, body);
        if admit {
            let echo_ok = body.strip_prefix("ran:").and_then(|t| rj::parse_json(t.as_bytes()).ok()).zip(innermost.as_ref()).is_some_and(|(seen, signed)| rj::json_eq(&seen, signed));
            if !ran { ctx.violation(&class(&format!("refused-should-accept:{}", p.status)), true, witness(observed, "every gate admits its token: handler runs".into())); return }
            if !echo_ok { ctx.violation(&class("wrong-payload"), true, witness(observed, "handler echoes the payload verified by the innermost gate".into())); return }
            *c.last_legit.borrow_mut() = Some(r.clone());
            if last { ctx.pass("composition:accepted", true, hist.len() > 1) }
        } else {
            if ran { ctx.violation(&class("accepted-should-refuse"), true, witness(observed, "a gate refuses its token: handler does not run".into())); return }
            if p.status < 400 { ctx.violation(&class(&format!("refused-without-error-status:{}", p.status)), true, witness(observed, "error status".into())); return }
            if last { ctx.pass(&format!("composition:refused:{}", p.status), true, hist.len() > 1) }
        }
    }
    ctx.distinct_key(&(c.kind, c.alg, hist.iter().map(|h| (h.path, h.bearer, h.outer)).collect::<Vec<_>>()));
    ctx.states += 1;
}

pub fn compositions(ctx: &mut Ctx) {
    let quick = ctx.quick();
    let algs: &[Alg] = if quick { &[Alg::HS256] } else { &ALGS };
    let mut n_hist = 0u64;
    for kind in COMP_KINDS { for &alg in algs {
        if !ctx.mine() { continue }
        let c = match build_composition(kind, alg) {
            Ok(c) => c,
            Err(p) => { ctx.violation(&format!("C12/{}/composition:{}/build/panic:{}", alg.name(), kind, panic_kind(&p)), true, || json!({"composition": kind, "alg": alg.name(), "build_only": true, "observed": p})); continue }
        };
        let menu = comp_tokens(&c);
        let reqs = comp_requests(&c, &menu);
        for a in &reqs { run_comp_history(ctx, &c, &menu, std::slice::from_ref(a)); n_hist += 1 }
        // histories of two: every ordered pair (thorough) / every pair whose first request carries a valid or forged bearer (quick)
        for a in &reqs {
            if ctx.out_of_time() { return }
            if quick && (menu[a.bearer].0 == "absent" || menu[a.bearer].0 == "garbage") && a.outer <= 1 { continue }
            for b in &reqs { run_comp_history(ctx, &c, &menu, &[a.clone(), b.clone()]); n_hist += 1 }
        }
        // histories of three on the two smallest request sets (thorough): a, b, a-again and a, b, c over bearer-only compositions
        if !quick && reqs.len() <= 20 {
            for a in &reqs { for b in &reqs { for d in &reqs { if ctx.out_of_time() { return } run_comp_history(ctx, &c, &menu, &[a.clone(), b.clone(), d.clone()]); n_hist += 1 } } }
        }
    } }
    ctx.extra.insert("sum_composition_histories".into(), json!(n_hist));
    ctx.extra.insert("compositions".into(), json!({"kinds": COMP_KINDS, "token_menu": "absent, one valid token per secret, cross-forged tokens (body of one + signature of another), another payload under a valid signature, a non-token",
        "histories": if quick { "all single requests, all ordered pairs whose first request carries a token" } else { "all single requests, all ordered pairs, all triples on compositions with <= 20 requests" }}));
}

pub fn replay_composition(ctx: &mut Ctx, case: &Value) {
    let kind = COMP_KINDS.iter().copied().find(|k| Some(*k) == case["composition"].as_str()).expect("known composition");
    let alg = Alg::from_name(case["alg"].as_str().expect("alg")).expect("known alg");
    let c = match build_composition(kind, alg) {
        Ok(c) => c,
        Err(p) => { ctx.violation(&format!("C12/{}/composition:{}/build/panic:{}", alg.name(), kind, panic_kind(&p)), true, || json!({"composition": kind, "alg": alg.name(), "build_only": true, "observed": p})); return }
    };
    if case["build_only"] == true { ctx.pass("build-ok", true, true); return }
    let menu = comp_tokens(&c);
    let req_of = |h: &Value| {
        let path = c.paths.iter().map(|(p, _)| *p).find(|p| Some(*p) == h[0].as_str()).expect("known path");
        CompReq { path, bearer: h[1].as_u64().unwrap() as usize, outer: h[2].as_u64().unwrap() as usize }
    };
    let hist: Vec<CompReq> = case["history"].as_array().expect("history").iter().map(req_of).collect();
    if case["context_last_rightly_admitted"].is_array() {
        // the request admitted last before the witness's history: run first (it is judged too, it must pass)
        let before = (ctx.evaluations, ctx.violations.len());
        run_comp_history(ctx, &c, &menu, &[req_of(&case["context_last_rightly_admitted"])]);
        if ctx.violations.len() != before.1 { return }
    }
    run_comp_history(ctx, &c, &menu, &hist);
}
