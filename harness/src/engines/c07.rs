//! C07 — typed path, query and body extraction delivers exact values or stops the handler (DESIGN §5 C07).
//!
//! ONE application holds the whole compile-time catalogue of handler signatures the framework accepts
//! (the 20 `IntoHandler` impls of fang/handler/into_handler.rs: 0–2 params in the forms `P`, `(P,)`, `(P1,P2)`
//! × 0–4 `FromRequest` items).  Every handler echoes the typed values it received, one line per slot.
//! Every request of the alphabet goes through the real `Request::read` → `Router::handle` → `Response::send`;
//! the echo (or "handler did not run" + error status) is compared with a per-slot reference:
//!   integers  – `str::parse::<T>()` on the RFC 3986 percent-decoded segment (leading `+`: both readings admitted)
//!   strings   – RFC 3986 percent-decoding + UTF-8 check
//!   JSON      – serde_json into an equally shaped harness type
//!   Query / URLEncoded – the small split-on-`&`/`=` + percent-decoding below (anything outside its clean grammar: unclear, never alarmed)
//!   Multipart – the strict RFC 7578 text-field reader below on a few hand-made bodies
//!   Text      – UTF-8 check
//! A case is a pass only if every slot shows its *primary* expected outcome; an outcome that is merely admitted
//! (the statement is silent) counts as ambiguous.

use crate::app::{self, Outcome};
use crate::core::{esc, panic_kind, strings_over, unesc, Ctx};
use ohkami::__verif__::{DynItem, DynRouting, HandlerSet, VerifRouter};
use ohkami::format::{Multipart, Query, Text, URLEncoded, JSON};
use ohkami::{FromParam, FromRequest, Ohkami, Route};
use serde_json::{json, Value};
use std::borrow::Cow;

/* ================================================================================================
   slot types
================================================================================================ */

#[derive(Clone, Copy, PartialEq, Eq, Debug)]
pub enum PTy { String, Cow, Str, U8, U16, U32, U64, Usize, I8, I16, I32, I64, Isize }

impl PTy {
    pub fn name(self) -> &'static str {
        match self {
            PTy::String => "String", PTy::Cow => "Cow", PTy::Str => "str",
            PTy::U8 => "u8", PTy::U16 => "u16", PTy::U32 => "u32", PTy::U64 => "u64", PTy::Usize => "usize",
            PTy::I8 => "i8", PTy::I16 => "i16", PTy::I32 => "i32", PTy::I64 => "i64", PTy::Isize => "isize",
        }
    }
    pub fn is_int(self) -> bool { !matches!(self, PTy::String | PTy::Cow | PTy::Str) }
    pub fn is_signed(self) -> bool { matches!(self, PTy::I8 | PTy::I16 | PTy::I32 | PTy::I64 | PTy::Isize) }
}

#[derive(Clone, Copy, PartialEq, Eq, Debug)]
pub enum Fmt { Query, Json, Urlenc, Multipart, Text }

impl Fmt {
    pub const ALL: [Fmt; 5] = [Fmt::Query, Fmt::Json, Fmt::Urlenc, Fmt::Multipart, Fmt::Text];
    pub fn name(self) -> &'static str {
        match self { Fmt::Query => "Query", Fmt::Json => "JSON", Fmt::Urlenc => "URLEncoded", Fmt::Multipart => "Multipart", Fmt::Text => "Text" }
    }
    pub fn letter(self) -> char { match self { Fmt::Query => 'q', Fmt::Json => 'j', Fmt::Urlenc => 'u', Fmt::Multipart => 'm', Fmt::Text => 't' } }
    /// the media type a body item is "under" (the statement's matching Content-Type)
    pub fn mime(self) -> &'static str {
        match self { Fmt::Json => "application/json", Fmt::Urlenc => "application/x-www-form-urlencoded", Fmt::Multipart => "multipart/form-data", Fmt::Text => "text/plain", Fmt::Query => "" }
    }
}

#[derive(Clone, Copy, PartialEq, Eq, Debug)]
pub enum SlotTy { Param(PTy), Item(Fmt, /*Option<..>*/ bool) }

impl SlotTy {
    pub fn name(self) -> String {
        match self {
            SlotTy::Param(p) => p.name().to_string(),
            SlotTy::Item(f, false) => f.name().to_string(),
            SlotTy::Item(f, true) => format!("Option<{}>", f.name()),
        }
    }
}

/// Implemented by every type that appears in a handler signature of the catalogue: its run-time description
/// (so that the reference can never be out of sync with the compiled signature) and its canonical echo.
pub trait Slot: Sized {
    fn ty() -> SlotTy;
    fn show(&self) -> String;
}

impl Slot for String { fn ty() -> SlotTy { SlotTy::Param(PTy::String) } fn show(&self) -> String { format!("String:{:?}", self) } }
impl Slot for Cow<'static, str> { fn ty() -> SlotTy { SlotTy::Param(PTy::Cow) } fn show(&self) -> String { format!("Cow:{:?}", self.as_ref()) } }
impl Slot for &'static str { fn ty() -> SlotTy { SlotTy::Param(PTy::Str) } fn show(&self) -> String { format!("str:{:?}", self) } }
macro_rules! int_slots { ($($t:ty => $v:ident),*) => { $(
    impl Slot for $t { fn ty() -> SlotTy { SlotTy::Param(PTy::$v) } fn show(&self) -> String { format!("{}:{}", PTy::$v.name(), self) } }
)* } }
int_slots! { u8 => U8, u16 => U16, u32 => U32, u64 => U64, usize => Usize, i8 => I8, i16 => I16, i32 => I32, i64 => I64, isize => Isize }

/* payload types: the four structured formats carry a string and (where the codec supports it) a small integer */
#[derive(ohkami::serde::Deserialize, ohkami::openapi::Schema)]
pub struct Q { s: String, n: u16 }
#[derive(ohkami::serde::Deserialize, ohkami::openapi::Schema)]
pub struct J { s: String, n: u16 }
#[derive(ohkami::serde::Deserialize, ohkami::openapi::Schema)]
pub struct U { s: String, n: u16 }
#[derive(ohkami::serde::Deserialize, ohkami::openapi::Schema)]
pub struct M { s: String, t: String }

fn show_sn(name: &str, s: &str, n: u16) -> String { format!("{name}{{s:{s:?},n:{n}}}") }
fn show_st(name: &str, s: &str, t: &str) -> String { format!("{name}{{s:{s:?},t:{t:?}}}") }
fn show_text(s: &str) -> String { format!("Text({s:?})") }

impl Slot for Query<Q> { fn ty() -> SlotTy { SlotTy::Item(Fmt::Query, false) } fn show(&self) -> String { show_sn("Query", &self.0.s, self.0.n) } }
impl Slot for JSON<J> { fn ty() -> SlotTy { SlotTy::Item(Fmt::Json, false) } fn show(&self) -> String { show_sn("JSON", &self.0.s, self.0.n) } }
impl Slot for URLEncoded<U> { fn ty() -> SlotTy { SlotTy::Item(Fmt::Urlenc, false) } fn show(&self) -> String { show_sn("URLEncoded", &self.0.s, self.0.n) } }
impl Slot for Multipart<M> { fn ty() -> SlotTy { SlotTy::Item(Fmt::Multipart, false) } fn show(&self) -> String { show_st("Multipart", &self.0.s, &self.0.t) } }
impl Slot for Text<String> { fn ty() -> SlotTy { SlotTy::Item(Fmt::Text, false) } fn show(&self) -> String { show_text(&self.0) } }
impl<T: Slot> Slot for Option<T> {
    fn ty() -> SlotTy { match T::ty() { SlotTy::Item(f, false) => SlotTy::Item(f, true), other => panic!("Option of {other:?} is not in the catalogue") } }
    fn show(&self) -> String { match self { None => "None".to_string(), Some(x) => format!("Some({})", x.show()) } }
}

/* ================================================================================================
   the catalogue (compile time) and its run-time description
================================================================================================ */

#[derive(Clone, Debug)]
pub struct RouteDesc {
    /// route pattern as registered, e.g. `/p2/u8/String/:a/:b`
    pub pattern: String,
    pub method: &'static str,
    /// which `IntoHandler` impl serves it: P1 T1 T2 I0..I4 P1+Ik T1+Ik T2+Ik, `P1of2`/`T1of2` = one-param handler on a two-param route
    pub imp: String,
    pub route_params: usize,
    /// (slot name, type) in the order of the handler's arguments; params are `a`, `b`, items `i1`..`i4`
    pub slots: Vec<(&'static str, SlotTy)>,
}

pub struct Catalogue { pub items: Vec<DynItem>, pub routes: Vec<RouteDesc> }

const MARK: &str = "RAN";
/// object-safe face of `Slot::show`, so that the ~1000 handler bodies stay tiny (one out-of-line call each)
pub trait ShowDyn { fn show_dyn(&self) -> String; }
impl<T: Slot> ShowDyn for T { #[inline(never)] fn show_dyn(&self) -> String { self.show() } }
#[inline(never)]
fn echo(lines: &[(&'static str, &dyn ShowDyn)]) -> String {
    let mut out = String::from(MARK);
    for (n, v) in lines { out.push('\n'); out.push_str(n); out.push('='); out.push_str(&v.show_dyn()); }
    out
}
fn leak(s: String) -> &'static str { Box::leak(s.into_boxed_str()) }

impl Catalogue {
    #[inline(never)]
    fn add(&mut self, hs: HandlerSet, pattern: &'static str, method: &'static str, imp: &str, k: usize, slots: Vec<(&'static str, SlotTy)>) {
        let imp = if imp.ends_with('I') { format!("{imp}{k}") } else { imp.to_string() };
        let route_params = pattern.split('/').filter(|s| s.starts_with(':')).count();
        self.items.push(DynItem::Handlers(hs));
        self.routes.push(RouteDesc { pattern: pattern.to_string(), method, imp, route_params, slots });
    }
}

fn set_code(slots: &[(&'static str, SlotTy)]) -> String {
    let mut code = String::new();
    for f in Fmt::ALL {
        let st = slots.iter().find_map(|(_, t)| match t { SlotTy::Item(g, opt) if *g == f => Some(if *opt { '2' } else { '1' }), _ => None }).unwrap_or('0');
        code.push(f.letter()); code.push(st);
    }
    code
}
fn param_suffix(n: usize) -> &'static str { match n { 0 => "", 1 => "/:a", 2 => "/:a/:b", _ => "/:a/:b/:c" } }
#[inline(never)]
fn set_pattern(dir: &str, k: usize, slots: &[(&'static str, SlotTy)], n_params: usize) -> &'static str {
    leak(format!("/s/{dir}{k}/{}{}", set_code(slots), param_suffix(n_params)))
}
#[inline(never)]
fn param_pattern(dir: &str, slots: &[(&'static str, SlotTy)], n_params: usize) -> &'static str {
    leak(format!("/{dir}/{}{}", slots.iter().map(|(_, t)| t.name()).collect::<Vec<_>>().join("/"), param_suffix(n_params)))
}

/* ---- param-only handlers (GET) ---- */
fn reg_p1<A>(cat: &mut Catalogue, two: bool) where A: FromParam<'static> + Slot + Send + Sync + 'static {
    let slots = vec![("a", A::ty())];
    let (dir, imp) = if two { ("p1of2", "P1of2") } else { ("p1", "P1") };
    let pattern = param_pattern(dir, &slots, if two { 2 } else { 1 });
    let hs = pattern.GET(|a: A| async move { echo(&[("a", &a as &dyn ShowDyn)]) });
    cat.add(hs, pattern, "GET", imp, 0, slots);
}
fn reg_t1<A>(cat: &mut Catalogue, two: bool) where A: FromParam<'static> + Slot + Send + Sync + 'static {
    let slots = vec![("a", A::ty())];
    let (dir, imp) = if two { ("t1of2", "T1of2") } else { ("t1", "T1") };
    let pattern = param_pattern(dir, &slots, if two { 2 } else { 1 });
    let hs = pattern.GET(|(a,): (A,)| async move { echo(&[("a", &a as &dyn ShowDyn)]) });
    cat.add(hs, pattern, "GET", imp, 0, slots);
}
fn reg_t2<A, B>(cat: &mut Catalogue)
where A: FromParam<'static> + Slot + Send + Sync + 'static, B: FromParam<'static> + Slot + Send + Sync + 'static {
    let slots = vec![("a", A::ty()), ("b", B::ty())];
    let pattern = param_pattern("p2", &slots, 2);
    let hs = pattern.GET(|(a, b): (A, B)| async move { echo(&[("a", &a as &dyn ShowDyn), ("b", &b as &dyn ShowDyn)]) });
    cat.add(hs, pattern, "GET", "T2", 0, slots);
}

/// a two-param handler on a route with three param segments: it must get the first two (the framework accepts a handler
/// that takes fewer params than its route has)
fn reg_t2of3<A, B>(cat: &mut Catalogue)
where A: FromParam<'static> + Slot + Send + Sync + 'static, B: FromParam<'static> + Slot + Send + Sync + 'static {
    let slots = vec![("a", A::ty()), ("b", B::ty())];
    let pattern = param_pattern("t2of3", &slots, 3);
    let hs = pattern.GET(|(a, b): (A, B)| async move { echo(&[("a", &a as &dyn ShowDyn), ("b", &b as &dyn ShowDyn)]) });
    cat.add(hs, pattern, "GET", "T2of3", 0, slots);
}
fn reg_p1of3<A>(cat: &mut Catalogue) where A: FromParam<'static> + Slot + Send + Sync + 'static {
    let slots = vec![("a", A::ty())];
    let pattern = param_pattern("p1of3", &slots, 3);
    let hs = pattern.GET(|a: A| async move { echo(&[("a", &a as &dyn ShowDyn)]) });
    cat.add(hs, pattern, "GET", "P1of3", 0, slots);
}

/* ---- handlers with FromRequest items (POST); one generic function per framework impl ---- */
macro_rules! def_reg_items {
    ($name:ident, $k:literal; $($I:ident $i:ident $n:literal),*) => {
        fn $name<$($I),*>(cat: &mut Catalogue) where $($I: FromRequest<'static> + Slot + Send + Sync + 'static),* {
            let slots: Vec<(&'static str, SlotTy)> = vec![$(($n, <$I as Slot>::ty())),*];
            let pattern = set_pattern("i", $k, &slots, 0);
            let hs = pattern.POST(|$($i: $I),*| async move { echo(&[$(($n, &$i as &dyn ShowDyn)),*]) });
            cat.add(hs, pattern, "POST", "I", $k, slots);
        }
    };
}
macro_rules! def_reg_p_items {
    ($name:ident, $k:literal; $($I:ident $i:ident $n:literal),*) => {
        fn $name<A, $($I),*>(cat: &mut Catalogue) where A: FromParam<'static> + Slot + Send + Sync + 'static, $($I: FromRequest<'static> + Slot + Send + Sync + 'static),* {
            let slots: Vec<(&'static str, SlotTy)> = vec![("a", A::ty()), $(($n, <$I as Slot>::ty())),*];
            let pattern = set_pattern("p", $k, &slots, 1);
            let hs = pattern.POST(|a: A, $($i: $I),*| async move { echo(&[("a", &a as &dyn ShowDyn), $(($n, &$i as &dyn ShowDyn)),*]) });
            cat.add(hs, pattern, "POST", "P1+I", $k, slots);
        }
    };
}
macro_rules! def_reg_t_items {
    ($name:ident, $k:literal; $($I:ident $i:ident $n:literal),*) => {
        fn $name<A, $($I),*>(cat: &mut Catalogue) where A: FromParam<'static> + Slot + Send + Sync + 'static, $($I: FromRequest<'static> + Slot + Send + Sync + 'static),* {
            let slots: Vec<(&'static str, SlotTy)> = vec![("a", A::ty()), $(($n, <$I as Slot>::ty())),*];
            let pattern = set_pattern("t", $k, &slots, 1);
            let hs = pattern.POST(|(a,): (A,), $($i: $I),*| async move { echo(&[("a", &a as &dyn ShowDyn), $(($n, &$i as &dyn ShowDyn)),*]) });
            cat.add(hs, pattern, "POST", "T1+I", $k, slots);
        }
    };
}
macro_rules! def_reg_tt_items {
    ($name:ident, $k:literal; $($I:ident $i:ident $n:literal),*) => {
        fn $name<A, B, $($I),*>(cat: &mut Catalogue)
        where A: FromParam<'static> + Slot + Send + Sync + 'static, B: FromParam<'static> + Slot + Send + Sync + 'static, $($I: FromRequest<'static> + Slot + Send + Sync + 'static),* {
            let slots: Vec<(&'static str, SlotTy)> = vec![("a", A::ty()), ("b", B::ty()), $(($n, <$I as Slot>::ty())),*];
            let pattern = set_pattern("tt", $k, &slots, 2);
            let hs = pattern.POST(|(a, b): (A, B), $($i: $I),*| async move { echo(&[("a", &a as &dyn ShowDyn), ("b", &b as &dyn ShowDyn), $(($n, &$i as &dyn ShowDyn)),*]) });
            cat.add(hs, pattern, "POST", "T2+I", $k, slots);
        }
    };
}
def_reg_items!(reg_i1, 1; I1 i1 "i1");
def_reg_items!(reg_i2, 2; I1 i1 "i1", I2 i2 "i2");
def_reg_items!(reg_i3, 3; I1 i1 "i1", I2 i2 "i2", I3 i3 "i3");
def_reg_items!(reg_i4, 4; I1 i1 "i1", I2 i2 "i2", I3 i3 "i3", I4 i4 "i4");
def_reg_p_items!(reg_p_i1, 1; I1 i1 "i1");
def_reg_p_items!(reg_p_i2, 2; I1 i1 "i1", I2 i2 "i2");
def_reg_p_items!(reg_p_i3, 3; I1 i1 "i1", I2 i2 "i2", I3 i3 "i3");
def_reg_p_items!(reg_p_i4, 4; I1 i1 "i1", I2 i2 "i2", I3 i3 "i3", I4 i4 "i4");
def_reg_t_items!(reg_t_i1, 1; I1 i1 "i1");
def_reg_t_items!(reg_t_i2, 2; I1 i1 "i1", I2 i2 "i2");
def_reg_t_items!(reg_t_i3, 3; I1 i1 "i1", I2 i2 "i2", I3 i3 "i3");
def_reg_t_items!(reg_t_i4, 4; I1 i1 "i1", I2 i2 "i2", I3 i3 "i3", I4 i4 "i4");
def_reg_tt_items!(reg_tt_i1, 1; I1 i1 "i1");
def_reg_tt_items!(reg_tt_i2, 2; I1 i1 "i1", I2 i2 "i2");
def_reg_tt_items!(reg_tt_i3, 3; I1 i1 "i1", I2 i2 "i2", I3 i3 "i3");
def_reg_tt_items!(reg_tt_i4, 4; I1 i1 "i1", I2 i2 "i2", I3 i3 "i3", I4 i4 "i4");

fn reg_i0(cat: &mut Catalogue) {
    let hs = "/s/i0/q0j0u0m0t0".POST(|| async move { echo(&[]) });
    cat.add(hs, "/s/i0/q0j0u0m0t0", "POST", "I", 0, vec![]);
}

/* ---- the type lists ---- */
macro_rules! with_ptypes { ($cb:ident $($args:tt)*) => {
    $cb!{ [$($args)*] String, Cow<'static, str>, &'static str, u8, u16, u32, u64, usize, i8, i16, i32, i64, isize }
} }
macro_rules! reg_singles { ([$cat:ident] $($t:ty),*) => { $(
    reg_p1::<$t>(&mut $cat, false); reg_t1::<$t>(&mut $cat, false); reg_p1::<$t>(&mut $cat, true); reg_t1::<$t>(&mut $cat, true);
)* } }
macro_rules! reg_pairs { ([$cat:ident] $($t:ty),*) => { $( with_ptypes!(reg_pair_row $cat, $t); )* } }
macro_rules! reg_pair_row { ([$cat:ident, $t1:ty] $($t2:ty),*) => { $( reg_t2::<$t1, $t2>(&mut $cat); )* } }

/// every extractor set: each of the five extractors absent / required / `Option<..>`, sizes 1..=4 (3^5 - 1 - 32 = 210 sets).
/// Every set is registered under the no-param form and under exactly one of the three param forms
/// (`P`, `(P,)`, `(P1,P2)`: chosen by the sum of the five states mod 3, so each form meets ~70 sets of all sizes;
/// registering all 4 x 210 costs 30 s more compile time for no new framework code).  The item order differs per
/// form (natural, natural, reversed, rotated) so that extractor types meet different item positions; the param
/// types differ per arity.
macro_rules! reg_sets {
    (@go $cat:ident ($p0:tt $p1:tt $p2:tt) [$($acc:ty,)*]) => { reg_set!($cat $p0; $($acc,)*); };
    (@go $cat:ident ($p0:tt $p1:tt $p2:tt) [$($acc:ty,)*] ($x:ty) $($rest:tt)*) => {
        reg_sets!(@go $cat ($p0 $p1 $p2) [$($acc,)*] $($rest)*);
        reg_sets!(@go $cat ($p1 $p2 $p0) [$($acc,)* $x,] $($rest)*);
        reg_sets!(@go $cat ($p2 $p0 $p1) [$($acc,)* Option<$x>,] $($rest)*);
    };
    ($cat:ident) => { reg_sets!(@go $cat (P T TT) [] (Query<Q>) (JSON<J>) (URLEncoded<U>) (Multipart<M>) (Text<String>)); };
}
macro_rules! reg_set {
    ($cat:ident $f:tt; ) => { reg_i0(&mut $cat); };
    ($cat:ident P;  $a:ty,) => { reg_i1::<$a>(&mut $cat); reg_p_i1::<u8, $a>(&mut $cat); };
    ($cat:ident T;  $a:ty,) => { reg_i1::<$a>(&mut $cat); reg_t_i1::<String, $a>(&mut $cat); };
    ($cat:ident TT; $a:ty,) => { reg_i1::<$a>(&mut $cat); reg_tt_i1::<i16, String, $a>(&mut $cat); };
    ($cat:ident P;  $a:ty, $b:ty,) => { reg_i2::<$a, $b>(&mut $cat); reg_p_i2::<String, $a, $b>(&mut $cat); };
    ($cat:ident T;  $a:ty, $b:ty,) => { reg_i2::<$a, $b>(&mut $cat); reg_t_i2::<i64, $b, $a>(&mut $cat); };
    ($cat:ident TT; $a:ty, $b:ty,) => { reg_i2::<$a, $b>(&mut $cat); reg_tt_i2::<u64, u8, $b, $a>(&mut $cat); };
    ($cat:ident P;  $a:ty, $b:ty, $c:ty,) => { reg_i3::<$a, $b, $c>(&mut $cat); reg_p_i3::<i32, $a, $b, $c>(&mut $cat); };
    ($cat:ident T;  $a:ty, $b:ty, $c:ty,) => { reg_i3::<$a, $b, $c>(&mut $cat); reg_t_i3::<&'static str, $c, $b, $a>(&mut $cat); };
    ($cat:ident TT; $a:ty, $b:ty, $c:ty,) => { reg_i3::<$a, $b, $c>(&mut $cat); reg_tt_i3::<String, Cow<'static, str>, $b, $c, $a>(&mut $cat); };
    ($cat:ident P;  $a:ty, $b:ty, $c:ty, $d:ty,) => { reg_i4::<$a, $b, $c, $d>(&mut $cat); reg_p_i4::<Cow<'static, str>, $a, $b, $c, $d>(&mut $cat); };
    ($cat:ident T;  $a:ty, $b:ty, $c:ty, $d:ty,) => { reg_i4::<$a, $b, $c, $d>(&mut $cat); reg_t_i4::<u16, $d, $c, $b, $a>(&mut $cat); };
    ($cat:ident TT; $a:ty, $b:ty, $c:ty, $d:ty,) => { reg_i4::<$a, $b, $c, $d>(&mut $cat); reg_tt_i4::<isize, u32, $b, $c, $d, $a>(&mut $cat); };
    ($cat:ident $f:tt; $a:ty, $b:ty, $c:ty, $d:ty, $e:ty,) => { /* five items: no such handler exists */ };
}

pub fn catalogue() -> Catalogue {
    let mut cat = Catalogue { items: Vec::new(), routes: Vec::new() };
    with_ptypes!(reg_singles cat);
    with_ptypes!(reg_pairs cat);
    reg_t2of3::<String, String>(&mut cat); reg_t2of3::<u8, String>(&mut cat); reg_t2of3::<String, i32>(&mut cat); reg_t2of3::<u16, i64>(&mut cat);
    reg_p1of3::<String>(&mut cat); reg_p1of3::<u8>(&mut cat);
    reg_sets!(cat);
    cat
}

pub struct Subject { pub router: VerifRouter, pub routes: Vec<RouteDesc> }

pub fn subject() -> Result<Subject, String> {
    crate::core::guarded(|| {
        let cat = catalogue();
        let router = VerifRouter::from(Ohkami::new(DynRouting(cat.items)));
        Subject { router, routes: cat.routes }
    })
}

/* ================================================================================================
   requests
================================================================================================ */

#[derive(Clone, Debug, PartialEq, Eq)]
pub struct Req {
    /// raw (still percent-encoded) segments substituted for `:a`, `:b`
    pub params: Vec<Vec<u8>>,
    /// None: no `?`;  Some(b""): a bare `?`
    pub query: Option<Vec<u8>>,
    pub ctype: Option<String>,
    /// None: no Content-Length header;  Some(b""): `Content-Length: 0`
    pub body: Option<Vec<u8>>,
}

impl Req {
    pub fn path(&self, route: &RouteDesc) -> Vec<u8> {
        let mut out = Vec::new();
        for seg in route.pattern.split('/').skip(1) {
            out.push(b'/');
            match seg { ":a" => out.extend_from_slice(&self.params[0]), ":b" => out.extend_from_slice(&self.params[1]), s => out.extend_from_slice(s.as_bytes()) }
        }
        out
    }
    pub fn bytes(&self, route: &RouteDesc) -> Vec<u8> {
        let mut v = Vec::with_capacity(256);
        v.extend_from_slice(route.method.as_bytes()); v.push(b' ');
        v.extend_from_slice(&self.path(route));
        if let Some(q) = &self.query { v.push(b'?'); v.extend_from_slice(q); }
        v.extend_from_slice(b" HTTP/1.1\r\nHost: h\r\n");
        if let Some(ct) = &self.ctype { v.extend_from_slice(b"Content-Type: "); v.extend_from_slice(ct.as_bytes()); v.extend_from_slice(b"\r\n"); }
        if let Some(b) = &self.body { v.extend_from_slice(format!("Content-Length: {}\r\n", b.len()).as_bytes()); }
        v.extend_from_slice(b"\r\n");
        if let Some(b) = &self.body { v.extend_from_slice(b); }
        v
    }
    pub fn to_json(&self, route: &RouteDesc) -> Value {
        json!({"route": route.pattern, "method": route.method, "signature": route.slots.iter().map(|(n, t)| format!("{n}:{}", t.name())).collect::<Vec<_>>(),
               "params": self.params.iter().map(|p| esc(p)).collect::<Vec<_>>(),
               "query": self.query.as_ref().map(|q| esc(q)), "content_type": self.ctype, "body": self.body.as_ref().map(|b| esc(b)),
               "request": esc(&self.bytes(route))})
    }
    pub fn from_json(v: &Value) -> Option<Req> {
        Some(Req {
            params: v.get("params")?.as_array()?.iter().map(|p| p.as_str().map(unesc)).collect::<Option<Vec<_>>>()?,
            query: v.get("query").and_then(|q| q.as_str()).map(unesc),
            ctype: v.get("content_type").and_then(|q| q.as_str()).map(str::to_string),
            body: v.get("body").and_then(|q| q.as_str()).map(unesc),
        })
    }
}

/* ---- param segment alphabet ---- */
pub const ALPHA: [&[u8]; 8] = [b"0", b"1", b"9", b"-", b"+", b"a", b"%31", b"%FF"];

/// per-width boundary values (every type sees all of them), 64-bit overflow values, leading-zero and escaped forms
pub fn boundary_segments() -> Vec<Vec<u8>> {
    let mut v: Vec<String> = vec![];
    for bits in [8u32, 16, 32, 64] {
        let umax: i128 = (1i128 << bits) - 1;
        let imax: i128 = (1i128 << (bits - 1)) - 1;
        let imin: i128 = -(1i128 << (bits - 1));
        for x in [imin - 1, imin, imax, imax + 1, umax, umax + 1] { v.push(x.to_string()); }
        v.push(format!("0{umax}")); v.push(format!("0{imax}")); v.push(format!("-0{}", -imin));
        v.push(format!("+{umax}")); v.push(format!("+{imax}"));
    }
    let two64: i128 = 1i128 << 64;
    for x in [-1, 0, two64 + 1, -two64, -(two64 + 1), two64 * 10 + 5, (1i128 << 63) + (1i128 << 62)] { v.push(x.to_string()); }
    v.push(format!("1{}", "0".repeat(40)));                 // 10^40
    v.push(format!("-1{}", "0".repeat(40)));
    v.push(format!("{}7", "0".repeat(40)));                 // 41 characters, denotes 7
    v.push("0".repeat(40));
    for s in ["00", "007", "-007", "-0", "+0", "-00", "12abc", "12%20", "7f", "0x10", "1e3", "1.0", "1_0", "%2D1", "%2B1", "1%30", "25%35", "%32%35%36", "%2d12%38", "12%41", "x", "abc", "a%20b", "%E3%81%82", "%e3%81", "%00"] { v.push(s.to_string()); }
    let mut out: Vec<Vec<u8>> = vec![];
    for s in v { let b = s.into_bytes(); if !out.contains(&b) { out.push(b) } }
    out
}

/// all non-empty strings of at most `max_len` tokens over ALPHA, then the boundary values not among them
pub fn segments(max_len: usize) -> Vec<Vec<u8>> {
    let mut out: Vec<Vec<u8>> = strings_over(&ALPHA, max_len).filter(|s| !s.is_empty()).collect();
    let seen: std::collections::HashSet<Vec<u8>> = out.iter().cloned().collect();
    for b in boundary_segments() { if !seen.contains(&b) { out.push(b) } }
    out
}

/// canonical unremarkable value of a param type (used when a slot is not the one being varied)
pub fn plain_segment(t: PTy, second: bool) -> &'static [u8] { match (t.is_int(), second) { (true, false) => b"7", (true, true) => b"8", (false, false) => b"x", (false, true) => b"y" } }

/* ---- content types, bodies, queries ---- */
pub const BOUNDARY: &str = "XbX";

pub fn content_types() -> Vec<Option<String>> {
    let mut v: Vec<Option<String>> = vec![None];
    for f in [Fmt::Json, Fmt::Urlenc, Fmt::Multipart, Fmt::Text] {
        let m = f.mime();
        let bp = if f == Fmt::Multipart { format!("; boundary={BOUNDARY}") } else { String::new() };
        v.push(Some(format!("{m}{bp}")));
        v.push(Some(format!("{m}{bp}; charset=utf-8")));
        v.push(Some(format!("{}{bp}", m.to_ascii_uppercase())));
        v.push(Some(format!("{m}x{bp}")));
        // other media types that merely begin with this one and go on with a non-alphanumeric character
        // (`application/json-seq`, `application/json+x`: registered types of their own)
        v.push(Some(format!("{m}-seq{bp}")));
        v.push(Some(format!("{m}+x{bp}")));
        v.push(Some(format!("text/html; x={m}")));         // another type whose parameter mentions this one
    }
    v.push(Some("text/html".to_string()));
    v
}

fn mp(parts: &[(&str, &str)], close: bool) -> Vec<u8> {
    let mut s = String::new();
    for (n, c) in parts { s.push_str(&format!("--{BOUNDARY}\r\nContent-Disposition: form-data; name=\"{n}\"\r\n\r\n{c}\r\n")); }
    if parts.is_empty() { s.push_str(&format!("--{BOUNDARY}\r\n")) }
    if close { s.push_str(&format!("--{BOUNDARY}--\r\n")) }
    s.into_bytes()
}

pub fn bodies() -> Vec<(&'static str, Option<Vec<u8>>)> {
    vec![
        ("absent", None),
        ("empty", Some(vec![])),
        ("json-valid", Some(br#"{"s":"a","n":7}"#.to_vec())),
        ("json-unknown-field", Some(br#"{"s":"a b","z":[1],"n":65535}"#.to_vec())),
        ("json-invalid-syntax", Some(br#"{"s":"a","n":7"#.to_vec())),
        ("json-invalid-type", Some(br#"{"s":"a","n":"7"}"#.to_vec())),
        ("json-trailing-garbage", Some(br#"{"s":"a","n":7}x"#.to_vec())),
        ("urlenc-valid", Some(b"s=a&n=7".to_vec())),
        ("urlenc-unknown-field", Some(b"n=65535&z=1&s=a.b".to_vec())),
        ("urlenc-escape", Some(b"s=%31a%20&n=0".to_vec())),
        ("urlenc-missing-field", Some(b"s=a".to_vec())),
        ("urlenc-bad-int", Some(b"s=a&n=7a".to_vec())),
        ("urlenc-int-overflow", Some(b"s=a&n=65536".to_vec())),
        ("urlenc-non-utf8", Some(b"s=%FF&n=7".to_vec())),
        ("multipart-valid", Some(mp(&[("s", "a"), ("t", "b c")], true))),
        ("multipart-unknown-field", Some(mp(&[("t", "b"), ("z", "1"), ("s", "a")], true))),
        ("multipart-missing-field", Some(mp(&[("s", "a")], true))),
        ("multipart-no-close", Some(mp(&[("s", "a"), ("t", "b")], false))),
        ("text-valid", Some(b"hello".to_vec())),
        ("text-non-utf8", Some(b"\xff\xfeab".to_vec())),
    ]
}

pub fn queries() -> Vec<(&'static str, Option<Vec<u8>>)> {
    vec![
        ("absent", None),
        ("valid", Some(b"s=a&n=7".to_vec())),
        ("missing-field", Some(b"s=a".to_vec())),
        ("empty", Some(vec![])),
        ("reordered", Some(b"n=65535&s=a.b".to_vec())),
        ("unknown-field", Some(b"s=a&z=1&n=7".to_vec())),
        ("only-unknown-field", Some(b"z=1".to_vec())),
        ("escape", Some(b"s=%31a%20&n=0".to_vec())),
        ("empty-string", Some(b"s=&n=1".to_vec())),
        ("bad-int", Some(b"s=a&n=7a".to_vec())),
        ("int-overflow", Some(b"s=a&n=65536".to_vec())),
        ("negative-int", Some(b"s=a&n=-1".to_vec())),
        ("non-utf8", Some(b"s=%FF&n=7".to_vec())),
        ("plus-in-string", Some(b"s=a+b&n=7".to_vec())),
        ("escaped-int", Some(b"s=a&n=%37".to_vec())),
        ("duplicate-field", Some(b"s=a&n=7&n=8".to_vec())),
    ]
}

fn label_of(table: &[(&'static str, Option<Vec<u8>>)], x: &Option<Vec<u8>>) -> &'static str {
    table.iter().find(|(_, v)| v == x).map(|(l, _)| *l).unwrap_or("custom")
}

/* ================================================================================================
   reference
================================================================================================ */

/// strict RFC 3986 percent-decoding: `%` must be followed by two hex digits
pub fn pct_decode(raw: &[u8]) -> Option<Vec<u8>> {
    let mut out = Vec::with_capacity(raw.len());
    let mut i = 0;
    while i < raw.len() {
        if raw[i] == b'%' {
            let h = raw.get(i + 1..i + 3)?;
            if !h.iter().all(u8::is_ascii_hexdigit) { return None }
            out.push(u8::from_str_radix(std::str::from_utf8(h).ok()?, 16).ok()?);
            i += 3;
        } else { out.push(raw[i]); i += 1 }
    }
    Some(out)
}

#[derive(Clone, Debug, PartialEq, Eq)]
pub enum Exp { Val(String), Stop }

/// what one slot may show
#[derive(Clone, Debug)]
pub struct Adm {
    pub primary: Exp,
    /// outcomes the statement does not exclude (observing one of them makes the case `ambiguous`)
    pub alts: Vec<Exp>,
    /// the reference has no opinion at all on this slot
    pub any: bool,
    /// why outcomes other than the primary are admitted (key of the ambiguous counter)
    pub why: &'static str,
    /// input-shape feature of this slot (enters the class id)
    pub feature: String,
    pub trivial: bool,
    /// the input is one where a partial / prefix reading differs from the whole reading
    pub collision: bool,
}
impl Adm {
    fn admits(&self, e: &Exp) -> bool { self.any || self.primary == *e || self.alts.contains(e) }
    fn admits_stop(&self) -> bool { self.admits(&Exp::Stop) }
}

fn parse_int(t: PTy, s: &str) -> Option<String> {
    macro_rules! p { ($ty:ty) => { s.parse::<$ty>().ok().map(|v| format!("{}:{}", t.name(), v)) } }
    match t {
        PTy::U8 => p!(u8), PTy::U16 => p!(u16), PTy::U32 => p!(u32), PTy::U64 => p!(u64), PTy::Usize => p!(usize),
        PTy::I8 => p!(i8), PTy::I16 => p!(i16), PTy::I32 => p!(i32), PTy::I64 => p!(i64), PTy::Isize => p!(isize),
        _ => None,
    }
}
fn int_limits(t: PTy) -> (i128, i128) {
    match t {
        PTy::U8 => (0, u8::MAX as i128), PTy::U16 => (0, u16::MAX as i128), PTy::U32 => (0, u32::MAX as i128),
        PTy::U64 | PTy::Usize => (0, u64::MAX as i128),
        PTy::I8 => (i8::MIN as i128, i8::MAX as i128), PTy::I16 => (i16::MIN as i128, i16::MAX as i128), PTy::I32 => (i32::MIN as i128, i32::MAX as i128),
        PTy::I64 | PTy::Isize => (i64::MIN as i128, i64::MAX as i128),
        _ => (0, 0),
    }
}

/// label of a decoded segment relative to an integer type (labels only; the verdict is `str::parse`):
/// a magnitude class plus the modifiers `+plus-sign`, `+leading-zero`
pub fn int_feature(t: PTy, s: &str) -> String {
    let (sign, digits) = match s.as_bytes().first() { Some(b'-') => (Some('-'), &s[1..]), Some(b'+') => (Some('+'), &s[1..]), _ => (None, s) };
    let nd = digits.bytes().take_while(u8::is_ascii_digit).count();
    if nd == 0 { return "garbage".into() }
    if nd < digits.len() { return "trailing-garbage".into() }
    if sign == Some('-') && !t.is_signed() { return "minus-sign-unsigned".into() }
    let stripped = digits.trim_start_matches('0');
    let mag: Option<i128> = if stripped.len() <= 30 { Some(if stripped.is_empty() { 0 } else { stripped.parse().unwrap() }) } else { None };
    let val = mag.map(|m| if sign == Some('-') { -m } else { m });
    let (lo, hi) = int_limits(t);
    let base = match val {
        Some(v) if v >= lo && v <= hi => {
            if sign == Some('-') && v == 0 { "negative-zero" }
            else if v == i64::MIN as i128 { "i64-min" }
            else if v == lo && t.is_signed() { "min" }
            else if v == hi { "max" }
            else { "in-range" }
        }
        Some(v) if v > hi => if v <= i64::MAX as i128 { "above-max:fits-i64" } else if v <= u64::MAX as i128 { "above-max:fits-u64" } else { "above-max:beyond-u64" },
        Some(v) => if v > i64::MIN as i128 { "below-min:fits-i64" } else if v == i64::MIN as i128 { "i64-min:below-min" } else { "below-min:beyond-i64" },
        None => if sign == Some('-') { "below-min:beyond-i64" } else { "above-max:beyond-u64" },
    };
    let mut f = base.to_string();
    if sign == Some('+') { f.push_str("+plus-sign") }
    if digits.len() > 1 && digits.starts_with('0') { f.push_str("+leading-zero") }
    f
}

pub fn ref_param(t: PTy, raw: &[u8]) -> Adm {
    let escaped = raw.contains(&b'%');
    let esc_tag = |f: &str| if escaped { format!("{f}+escape") } else { f.to_string() };
    let Some(dec) = pct_decode(raw) else {
        return Adm { primary: Exp::Stop, alts: vec![], any: true, why: "malformed-escape", feature: "malformed-escape".into(), trivial: false, collision: false }
    };
    let Ok(s) = String::from_utf8(dec) else {
        return Adm { primary: Exp::Stop, alts: vec![], any: false, why: "", feature: "non-utf8-escape".into(), trivial: false, collision: true }
    };
    match t {
        PTy::String => Adm { primary: Exp::Val(format!("String:{s:?}")), alts: vec![], any: false, why: "", feature: esc_tag("string"), trivial: !escaped, collision: escaped },
        PTy::Cow => Adm { primary: Exp::Val(format!("Cow:{s:?}")), alts: vec![], any: false, why: "", feature: esc_tag("string"), trivial: !escaped, collision: escaped },
        // `&str` cannot hold a decoded segment; the framework documents that it refuses escaped segments
        PTy::Str => Adm { primary: Exp::Val(format!("str:{s:?}")), alts: if escaped { vec![Exp::Stop] } else { vec![] }, any: false, why: "&str-param-with-escape", feature: esc_tag("string"), trivial: !escaped, collision: escaped },
        _ => {
            let f = int_feature(t, &s);
            let (primary, alts) = match parse_int(t, &s) {
                Some(v) => (Exp::Val(v), if f.contains("+plus-sign") { vec![Exp::Stop] } else { vec![] }),
                None => (Exp::Stop, vec![]),
            };
            Adm { primary, alts, any: false, why: "leading-plus-sign", trivial: f == "in-range" && !escaped, collision: (f != "in-range" && f != "garbage") || escaped, feature: esc_tag(&f) }
        }
    }
}

/* ---- Query / URLEncoded: `s: String, n: u16` ---- */
#[derive(Clone, Debug, PartialEq, Eq)]
pub enum Dec<T> { Valid(T), Invalid, Unclear }

/// Clean grammar only: pairs `key=value` joined by `&`, key of [A-Za-z0-9_], value of unreserved characters and
/// well-formed escapes.  Everything else (`+`, a second `=`, empty pieces, escaped keys, duplicate known keys,
/// escapes inside the integer) is `Unclear`: the codec's own property (C09) decides those.
pub fn urlenc_sn(input: &[u8]) -> Dec<(String, u16)> {
    if input.is_empty() { return Dec::Invalid }   // no fields at all: `s` and `n` are missing under every reading
    let (mut s, mut n): (Option<&[u8]>, Option<&[u8]>) = (None, None);
    for piece in input.split(|b| *b == b'&') {
        let mut it = piece.splitn(2, |b| *b == b'=');
        let (k, v) = match (it.next(), it.next()) { (Some(k), Some(v)) => (k, v), _ => return Dec::Unclear };
        if k.is_empty() || !k.iter().all(|b| b.is_ascii_alphanumeric() || *b == b'_') { return Dec::Unclear }
        let mut i = 0;
        while i < v.len() {
            match v[i] {
                b'%' => { if !v.get(i + 1..i + 3).is_some_and(|h| h.iter().all(u8::is_ascii_hexdigit)) { return Dec::Unclear } i += 3 }
                b if b.is_ascii_alphanumeric() || matches!(b, b'_' | b'.' | b'~' | b'-') => i += 1,
                _ => return Dec::Unclear,
            }
        }
        match k { b"s" => { if s.replace(v).is_some() { return Dec::Unclear } } b"n" => { if n.replace(v).is_some() { return Dec::Unclear } } _ => {} }
    }
    let (Some(s), Some(n)) = (s, n) else { return Dec::Invalid };
    if n.contains(&b'%') { return Dec::Unclear }
    let Ok(sv) = String::from_utf8(pct_decode(s).expect("escapes were checked")) else { return Dec::Invalid };
    match std::str::from_utf8(n).unwrap().parse::<u16>() { Ok(nv) => Dec::Valid((sv, nv)), Err(_) => Dec::Invalid }
}

/* ---- JSON: serde_json into an equally shaped type ---- */
#[derive(serde::Deserialize)]
struct RefSN { s: String, n: u16 }
pub fn json_sn(input: &[u8]) -> Dec<(String, u16)> {
    match serde_json::from_slice::<RefSN>(input) { Ok(v) => Dec::Valid((v.s, v.n)), Err(_) => Dec::Invalid }
}

/* ---- Multipart: strict reader for text fields `s`, `t` ---- */
fn find(h: &[u8], n: &[u8]) -> Option<usize> { if n.is_empty() || h.len() < n.len() { return None } h.windows(n.len()).position(|w| w == n) }

pub fn multipart_st(input: &[u8], boundary: Option<&str>) -> Dec<(String, String)> {
    if !input.starts_with(b"--") { return Dec::Invalid }         // cannot be a multipart body under any boundary
    let Some(boundary) = boundary else { return Dec::Unclear };
    let delim = format!("--{boundary}").into_bytes();
    if !input.starts_with(&delim) { return Dec::Unclear }
    let mut rest = &input[delim.len()..];
    let sep = [b"\r\n".as_slice(), &delim].concat();
    let (mut s, mut t): (Option<String>, Option<String>) = (None, None);
    loop {
        if rest.starts_with(b"--") { return if &rest[2..] == b"\r\n" || rest.len() == 2 { match (s, t) { (Some(s), Some(t)) => Dec::Valid((s, t)), _ => Dec::Invalid } } else { Dec::Unclear } }
        if !rest.starts_with(b"\r\n") { return if rest.is_empty() { Dec::Invalid /* no close-delimiter (RFC 2046 5.1.1) */ } else { Dec::Unclear } }
        rest = &rest[2..];
        if rest.is_empty() { return Dec::Invalid }
        let Some(hend) = find(rest, b"\r\n\r\n") else { return Dec::Unclear };
        let head = &rest[..hend];
        let Some(name) = std::str::from_utf8(head).ok().and_then(|h| h.strip_prefix("Content-Disposition: form-data; name=\"")).and_then(|h| h.strip_suffix('"')) else { return Dec::Unclear };
        if name.contains('"') || name.contains('\r') { return Dec::Unclear }
        let after = &rest[hend + 4..];
        let Some(cend) = find(after, &sep) else { return Dec::Invalid /* part not terminated by a delimiter */ };
        let Ok(content) = std::str::from_utf8(&after[..cend]) else { return Dec::Invalid };
        match name { "s" => { if s.replace(content.to_string()).is_some() { return Dec::Unclear } } "t" => { if t.replace(content.to_string()).is_some() { return Dec::Unclear } } _ => {} }
        rest = &after[cend + sep.len()..];
    }
}

/* ---- Content-Type relation ---- */
#[derive(Clone, Copy, Debug, PartialEq, Eq)]
pub enum CtRel { Absent, Exact, WithParams, CaseVariant, LongerPrefix, OtherMentioning, Other }
impl CtRel {
    fn label(self) -> &'static str { match self { CtRel::Absent => "absent", CtRel::Exact => "exact", CtRel::WithParams => "params", CtRel::CaseVariant => "case-variant", CtRel::LongerPrefix => "longer-prefix", CtRel::OtherMentioning => "other-mentioning-type", CtRel::Other => "other" } }
}
pub fn ct_relation(f: Fmt, ct: Option<&str>) -> CtRel {
    let Some(ct) = ct else { return CtRel::Absent };
    let essence = ct.split(';').next().unwrap().trim_matches(|c| c == ' ' || c == '\t');
    let has_params = ct.contains(';');
    // multipart/form-data requires its boundary parameter: with it the type is "exact", a further parameter makes "params"
    let extra_params = if f == Fmt::Multipart { ct.matches(';').count() > 1 } else { has_params };
    if essence == f.mime() { if extra_params { CtRel::WithParams } else { CtRel::Exact } }
    else if essence.eq_ignore_ascii_case(f.mime()) { CtRel::CaseVariant }
    else if essence.starts_with(f.mime()) { CtRel::LongerPrefix }
    else if ct.contains(f.mime()) { CtRel::OtherMentioning }
    else { CtRel::Other }
}
fn boundary_param(ct: Option<&str>) -> Option<&str> {
    ct?.split(';').skip(1).find_map(|p| p.trim().strip_prefix("boundary="))
}

fn body_dec(f: Fmt, body: &[u8], ct: Option<&str>) -> Dec<String> {
    match f {
        Fmt::Json => match json_sn(body) { Dec::Valid((s, n)) => Dec::Valid(show_sn("JSON", &s, n)), Dec::Invalid => Dec::Invalid, Dec::Unclear => Dec::Unclear },
        Fmt::Urlenc => match urlenc_sn(body) { Dec::Valid((s, n)) => Dec::Valid(show_sn("URLEncoded", &s, n)), Dec::Invalid => Dec::Invalid, Dec::Unclear => Dec::Unclear },
        Fmt::Multipart => match multipart_st(body, boundary_param(ct)) { Dec::Valid((s, t)) => Dec::Valid(show_st("Multipart", &s, &t)), Dec::Invalid => Dec::Invalid, Dec::Unclear => Dec::Unclear },
        Fmt::Text => match std::str::from_utf8(body) { Ok(s) => Dec::Valid(show_text(s)), Err(_) => Dec::Invalid },
        Fmt::Query => unreachable!(),
    }
}

pub fn ref_item(f: Fmt, optional: bool, req: &Req) -> Adm {
    let some = |v: &str| if optional { format!("Some({v})") } else { v.to_string() };
    let none = Exp::Val("None".to_string());
    if f == Fmt::Query {
        let label = label_of(&queries(), &req.query);
        let feature = format!("query:{label}");
        let carried = req.query.as_ref().is_some_and(|q| !q.is_empty());
        let dec = urlenc_sn(req.query.as_deref().unwrap_or(b""));
        let (primary, alts, any, why) = match (&dec, optional, carried) {
            (Dec::Unclear, _, _) => (Exp::Stop, vec![], true, "urlencoded-outside-clean-grammar"),
            // the statement does not say whether a request without a query string "carries" a Query item
            (_, true, false) => (none, vec![Exp::Stop], false, "Option<Query>-without-query-string"),
            (Dec::Valid((s, n)), _, _) => (Exp::Val(some(&show_sn("Query", s, *n))), vec![], false, ""),
            (Dec::Invalid, _, _) => (Exp::Stop, vec![], false, ""),
        };
        return Adm { primary, alts, any, why, feature, trivial: matches!(label, "absent" | "valid"), collision: matches!(label, "escape" | "unknown-field" | "reordered") }
    }
    let ct = req.ctype.as_deref();
    let rel = ct_relation(f, ct);
    let blabel = label_of(&bodies(), &req.body);
    let feature = if matches!(rel, CtRel::Exact | CtRel::WithParams | CtRel::CaseVariant) { format!("content-type:{},body:{blabel}", rel.label()) } else { format!("content-type:{}", rel.label()) };
    let empty = req.body.as_ref().map_or(true, |b| b.is_empty());
    let dec = if empty { Dec::Invalid } else { body_dec(f, req.body.as_deref().unwrap(), ct) };
    // outcome under the reading "the Content-Type matches"
    let matching = |dec: &Dec<String>| -> (Exp, Vec<Exp>, bool) {
        if empty {
            // matching type but no payload: "cannot be produced" and "not carried" are both defensible; an empty text is a text
            let mut alts = vec![];
            if optional { alts.push(Exp::Stop) }
            if f == Fmt::Text { alts.push(Exp::Val(some(&show_text("")))) }
            return (if optional { none.clone() } else { Exp::Stop }, alts, false)
        }
        match dec { Dec::Valid(v) => (Exp::Val(some(v)), vec![], false), Dec::Invalid => (Exp::Stop, vec![], false), Dec::Unclear => (Exp::Stop, vec![], true) }
    };
    // outcome under the reading "the request carries no item of this type"
    let not_carried = if optional { none.clone() } else { Exp::Stop };
    let why = match rel {
        CtRel::CaseVariant => "content-type-in-another-case",
        _ if empty => "matching-content-type-but-empty-body",
        _ => if f == Fmt::Multipart { "multipart-outside-strict-reader" } else { "urlencoded-outside-clean-grammar" },
    };
    let (primary, alts, any) = match rel {
        CtRel::Exact | CtRel::WithParams => matching(&dec),
        // media types are case-insensitive (RFC 9110 8.3.1) but the statement does not say which comparison "matching" means
        CtRel::CaseVariant => { let (p, mut a, any) = matching(&dec); if p != not_carried { a.push(not_carried) } (p, a, any) }
        CtRel::Absent | CtRel::LongerPrefix | CtRel::OtherMentioning | CtRel::Other => (not_carried, vec![], false),
    };
    let trivial = matches!(rel, CtRel::Absent) && req.body.is_none();
    let collision = matches!(rel, CtRel::WithParams | CtRel::LongerPrefix | CtRel::CaseVariant | CtRel::OtherMentioning);
    Adm { primary, alts, any, why, feature, trivial, collision }
}

pub fn ref_slot(ty: SlotTy, name: &str, req: &Req) -> Adm {
    match ty {
        SlotTy::Param(p) => ref_param(p, &req.params[if name == "b" { 1 } else { 0 }]),
        SlotTy::Item(f, opt) => ref_item(f, opt, req),
    }
}

/* ================================================================================================
   observation and judgement
================================================================================================ */

#[derive(Clone, Debug, PartialEq, Eq)]
pub enum Obs {
    /// the handler ran; echoed (slot, value) lines
    Ran(Vec<(String, String)>),
    /// no echo, error status
    Stopped(u16),
    Panic(String),
    Broken(String),
}

pub fn observe(o: &Outcome) -> Obs {
    match o {
        Outcome::Response { parsed: Ok(p), .. } => {
            let body = String::from_utf8_lossy(&p.body);
            let ran = body == MARK || body.starts_with("RAN\n");
            if ran {
                if p.status != 200 { return Obs::Broken(format!("echo with status {}", p.status)) }
                let mut lines = vec![];
                for l in body.split('\n').skip(1) {
                    match l.split_once('=') { Some((n, v)) => lines.push((n.to_string(), v.to_string())), None => return Obs::Broken("unreadable echo line".into()) }
                }
                Obs::Ran(lines)
            } else if p.status >= 400 && p.status <= 599 { Obs::Stopped(p.status) }
            else { Obs::Broken(format!("no echo but status {}", p.status)) }
        }
        Outcome::Panic(stage, m) => Obs::Panic(format!("panic@{stage}:{}", panic_kind(m))),
        other => Obs::Broken(other.kind()),
    }
}

fn exec(sub: &Subject, route: &RouteDesc, req: &Req) -> Obs { observe(&app::oneshot(&sub.router, &req.bytes(route))) }

/// the same request with every slot except param slot `keep` made unremarkable (used only to attribute a stop/panic to one slot)
fn isolate(route: &RouteDesc, req: &Req, keep: usize) -> Req {
    let mut r = req.clone();
    for (i, (name, ty)) in route.slots.iter().enumerate() {
        if let SlotTy::Param(p) = ty { if keep != i { r.params[if *name == "b" { 1 } else { 0 }] = plain_segment(*p, *name == "b").to_vec(); } }
    }
    r.ctype = None; r.body = None;
    r.query = if route.slots.iter().any(|(_, t)| matches!(t, SlotTy::Item(Fmt::Query, _))) { Some(b"s=a&n=7".to_vec()) } else { None };
    r
}

static MAX_REQUEST_BYTES: std::sync::atomic::AtomicUsize = std::sync::atomic::AtomicUsize::new(0);

fn obs_kind(o: &Obs) -> &'static str { match o { Obs::Ran(_) => "ran", Obs::Stopped(_) => "stopped", Obs::Panic(_) => "panic", Obs::Broken(_) => "broken" } }

pub fn check_case(ctx: &mut Ctx, sub: &Subject, route: &RouteDesc, req: &Req) {
    // requests beyond the 1 KiB connection buffer are C02/C06 territory
    let raw = req.bytes(route);
    if raw.len() > 1024 { ctx.skip(); return }
    MAX_REQUEST_BYTES.fetch_max(raw.len(), std::sync::atomic::Ordering::Relaxed);
    let adms: Vec<Adm> = route.slots.iter().map(|(n, t)| ref_slot(*t, n, req)).collect();
    let obs = observe(&app::oneshot(&sub.router, &raw));
    let nontrivial = adms.iter().any(|a| !a.trivial);
    let collision = adms.iter().any(|a| a.collision);
    let slot_id = |i: usize| format!("{}:{}", route.slots[i].0, route.slots[i].1.name());
    let expected_json = |adms: &[Adm]| -> Value { json!(adms.iter().enumerate().map(|(i, a)| json!({"slot": slot_id(i), "feature": a.feature,
        "expected": match &a.primary { Exp::Val(v) => v.clone(), Exp::Stop => "<handler must not run, error status>".into() },
        "also_admitted": a.alts.iter().map(|e| match e { Exp::Val(v) => v.clone(), Exp::Stop => "<stop>".into() }).collect::<Vec<_>>(), "no_opinion": a.any})).collect::<Vec<_>>()) };
    let witness = |adms: &[Adm], obs: &Obs| { let mut w = req.to_json(route); w["expected"] = expected_json(adms); w["observed"] = json!(format!("{obs:?}")); w };

    // attribute a handler-level symptom (stop / panic / broken) to a slot: with several remarkable slots, find the one
    // that reproduces the symptom kind alone -- a param within this route with everything else made plain, an item on
    // the single-item route of the same type with the same query / Content-Type / body
    let blame = || -> (String, String) {
        if route.slots.len() == 1 { return (slot_id(0), adms[0].feature.clone()) }
        let suspects: Vec<usize> = (0..adms.len()).filter(|i| !adms[*i].trivial).collect();
        let kind = obs_kind(&obs);
        for &i in &suspects {
            let alone = match route.slots[i].1 {
                SlotTy::Param(_) => exec(sub, route, &isolate(route, req, i)),
                ty @ SlotTy::Item(..) => match sub.routes.iter().find(|r| r.imp == "I1" && r.slots[0].1 == ty) {
                    Some(single) => exec(sub, single, &Req { params: vec![], ..req.clone() }),
                    None => continue,
                },
            };
            if obs_kind(&alone) == kind { return (slot_id(i), adms[i].feature.clone()) }
        }
        // no remarkable slot reproduces it alone: does the route fail even when every slot is unremarkable?
        if obs_kind(&exec(sub, route, &isolate(route, req, usize::MAX))) == kind { return ("handler".into(), "all-slots-plain".into()) }
        ("handler".into(), suspects.iter().map(|i| format!("{}={}", route.slots[*i].0, adms[*i].feature)).collect::<Vec<_>>().join("&"))
    };

    match &obs {
        Obs::Ran(lines) => {
            if lines.len() != route.slots.len() || lines.iter().zip(&route.slots).any(|((n, _), (sn, _))| n != sn) {
                ctx.violation(&format!("C07/{}/handler/echo-shape/broken", route.imp), nontrivial, || witness(&adms, &obs));
                return
            }
            let mut all_primary = true;
            let mut why = "";
            for (i, (_, v)) in lines.iter().enumerate() {
                let a = &adms[i];
                let e = Exp::Val(v.clone());
                if a.primary == e { continue }
                all_primary = false;
                if why.is_empty() { why = a.why }
                if a.admits(&e) { continue }
                // the handler ran with a value this slot must not show
                let optional = matches!(route.slots[i].1, SlotTy::Item(_, true));
                let symptom = match (&a.primary, optional, v.as_str()) {
                    (Exp::Stop, _, _) => "accepted-should-refuse",
                    (Exp::Val(p), true, "None") if p != "None" => "none-though-carried",
                    (Exp::Val(p), true, _) if p == "None" => "some-though-not-carried",
                    _ => "wrong-value",
                };
                ctx.violation(&format!("C07/{}/{}/{}/{}", route.imp, slot_id(i), a.feature, symptom), nontrivial, || witness(&adms, &obs));
                return
            }
            if all_primary { ctx.pass(&format!("ran:{}", route.imp), nontrivial, collision) } else { ctx.ambiguous(&format!("{why}:ran")) }
        }
        Obs::Stopped(status) => {
            if adms.iter().any(|a| a.primary == Exp::Stop) { ctx.pass(&format!("stopped:{}:{status}", route.imp), nontrivial, collision) }
            else if let Some(a) = adms.iter().find(|a| a.admits_stop()) { ctx.ambiguous(&format!("{}:stopped({status})", a.why)) }
            else {
                let (slot, feature) = blame();
                ctx.violation(&format!("C07/{}/{}/{}/refused-should-accept({status})", route.imp, slot, feature), nontrivial, || witness(&adms, &obs));
            }
        }
        Obs::Panic(kind) => {
            let (slot, feature) = blame();
            ctx.violation(&format!("C07/{}/{}/{}/{}", route.imp, slot, feature, kind), nontrivial, || witness(&adms, &obs));
        }
        Obs::Broken(kind) => {
            let (slot, feature) = blame();
            ctx.violation(&format!("C07/{}/{}/{}/broken:{}", route.imp, slot, feature, kind), nontrivial, || witness(&adms, &obs));
        }
    }
}

/* ================================================================================================
   enumeration
================================================================================================ */

const CHUNK: usize = 4096;

pub fn run_engine(ctx: &mut Ctx) {
    let sub = match subject() { Ok(s) => s, Err(p) => { ctx.machinery_error(format!("C07: the catalogue application could not be built: {p}")); return } };
    let quick = ctx.quick();
    let (l1, l1t, l12, l2) = if quick { (5, 5, 4, 1) } else { (7, 6, 5, 3) };
    let segs_by_len: Vec<Vec<Vec<u8>>> = (0..=l1).map(segments).collect();
    let no_items = Req { params: vec![], query: None, ctype: None, body: None };

    /* (1) one param: every segment of the alphabet, every param type, the four single-param impls */
    for r in sub.routes.iter().filter(|r| matches!(r.imp.as_str(), "P1" | "T1" | "P1of2" | "T1of2")) {
        let len = match r.imp.as_str() { "P1" => l1, "T1" => l1t, _ => l12 };
        let segs = &segs_by_len[len];
        let seconds: Vec<&[u8]> = if r.route_params == 2 { vec![b"x", b"7"] } else { vec![b""] };
        for chunk in segs.chunks(CHUNK) {
            if !ctx.mine() { continue }
            if ctx.out_of_time() { break }
            for s in chunk { for b in &seconds {
                let mut req = no_items.clone();
                req.params = if r.route_params == 2 { vec![s.clone(), b.to_vec()] } else { vec![s.clone()] };
                check_case(ctx, &sub, r, &req);
            } }
        }
    }

    /* (2) two params: every pair of short / boundary segments for every pair of types */
    let segs2 = &segs_by_len[l2];
    for r in sub.routes.iter().filter(|r| r.imp == "T2") {
        for chunk in segs2.chunks(16) {
            if !ctx.mine() { continue }
            if ctx.out_of_time() { break }
            for a in chunk { for b in segs2.iter() {
                let mut req = no_items.clone();
                req.params = vec![a.clone(), b.clone()];
                check_case(ctx, &sub, r, &req);
            } }
        }
    }
    /* (2b) handlers taking fewer params than the route has three of: the third segment must not reach any slot */
    for r in sub.routes.iter().filter(|r| matches!(r.imp.as_str(), "T2of3" | "P1of3")) {
        if !ctx.mine() { continue }
        for a in segs2.iter() { for b in segs2.iter() { for c in [&b"zz"[..], &b"9"[..], &b"%33"[..]] {
            let mut req = no_items.clone();
            req.params = vec![a.clone(), b.clone(), c.to_vec()];
            check_case(ctx, &sub, r, &req);
        } } }
    }

    /* (3) extractor sets: Content-Type × body × query (× a few param segments where the signature has params) */
    let cts = content_types();
    let bods = bodies();
    let qs = queries();
    for r in sub.routes.iter().filter(|r| r.pattern.starts_with("/s/")) {
        if !ctx.mine() { continue }
        if ctx.out_of_time() { break }
        let has_query = r.slots.iter().any(|(_, t)| matches!(t, SlotTy::Item(Fmt::Query, _)));
        let n_params = r.slots.iter().filter(|(_, t)| matches!(t, SlotTy::Param(_))).count();
        let nq = if !has_query { 2 } else if quick && n_params > 0 { 4 } else { qs.len() };
        // param segments: a plain one, one with trailing garbage / an escape, one that cannot be the type
        // (the two slots never get the same segment, so that a mix-up of the slots shows)
        let choices = |t: PTy, second: bool| -> Vec<&'static [u8]> { match (t.is_int(), second) {
            (true, false) => vec![b"7", b"7a", b"%37", b"-"], (true, true) => vec![b"8", b"8b", b"%38", b"+"],
            (false, false) => vec![b"x", b"%31a", b"%FF"], (false, true) => vec![b"y", b"%32b", b"%FE"],
        } };
        let ptys: Vec<PTy> = r.slots.iter().filter_map(|(_, t)| if let SlotTy::Param(p) = t { Some(*p) } else { None }).collect();
        let mut combos: Vec<Vec<Vec<u8>>> = vec![];
        match ptys.len() {
            0 => combos.push(vec![]),
            1 => for a in choices(ptys[0], false) { combos.push(vec![a.to_vec()]) },
            _ => for (i, a) in choices(ptys[0], false).into_iter().enumerate() { for (j, b) in choices(ptys[1], true).into_iter().enumerate() {
                if quick && i > 0 && j > 0 { continue }
                combos.push(vec![a.to_vec(), b.to_vec()])
            } },
        }
        if quick && ptys.len() == 1 { combos.truncate(3) }
        for params in &combos { for ct in &cts { for (_, body) in &bods { for (_, q) in qs.iter().take(nq) {
            let req = Req { params: params.clone(), query: q.clone(), ctype: ct.clone(), body: body.clone() };
            check_case(ctx, &sub, r, &req);
        } } } }
    }

    let n = |f: &dyn Fn(&RouteDesc) -> bool| sub.routes.iter().filter(|r| f(r)).count();
    ctx.sample(|| json!({"catalogue_routes": sub.routes.len(), "example_signatures": sub.routes.iter().filter(|r| r.imp == "T2+I4" || r.imp == "P1").take(3).map(|r| json!({"route": r.pattern, "impl": r.imp, "slots": r.slots.iter().map(|(n, t)| format!("{n}:{}", t.name())).collect::<Vec<_>>() })).collect::<Vec<_>>() }));
    ctx.sample(|| { let r = sub.routes.iter().find(|r| r.pattern == "/p1/u8/:a").unwrap(); let req = Req { params: vec![b"%31".to_vec()], ..no_items.clone() }; json!({"request": esc(&req.bytes(r)), "observed": format!("{:?}", exec(&sub, r, &req))}) });
    ctx.sample(|| { let r = sub.routes.iter().find(|r| r.pattern == "/s/i2/q1j2u0m0t0").unwrap(); let req = Req { params: vec![], query: Some(b"s=a&n=7".to_vec()), ctype: Some("application/json; charset=utf-8".into()), body: Some(br#"{"s":"a","n":7}"#.to_vec()) }; json!({"request": esc(&req.bytes(r)), "observed": format!("{:?}", exec(&sub, r, &req))}) });
    ctx.extra.insert("rule".into(), json!("case = (handler signature of the compile-time catalogue, request); every case is a distinct (route, request) pair by construction; the request goes through the real Request::read / Router::handle / Response::send and the handler's echo of its typed arguments is compared slot by slot with the reference (str::parse on the percent-decoded segment, serde_json, split-on-&/= decoder, strict multipart reader, UTF-8 check). non-trivial = some slot's input is not a plain in-range value / an absent item; collision = some slot's input is one where a prefix or partial reading differs from the whole reading (digits followed by other bytes, values beyond the type's or the machine's width, leading zeros / signs, percent-escapes, Content-Type with parameters / in another case / a longer type with the same prefix)"));
    ctx.extra.insert("distinct_by_construction".into(), json!(true));
    ctx.extra.insert("max_request_bytes".into(), json!(MAX_REQUEST_BYTES.load(std::sync::atomic::Ordering::Relaxed)));
    ctx.extra.insert("bounds".into(), json!({
        "catalogue": {"routes": sub.routes.len(), "single-param (P, (P,), each also on a two-param route) x 13 types": n(&|r| r.slots.len() == 1 && matches!(r.slots[0].1, SlotTy::Param(_))),
                      "two-param (P1,P2) over 13 x 13 types": n(&|r| r.imp == "T2"), "extractor-set routes (210 sets of 1..4 items from 5 extractors x {absent, required, Option}, each under the no-param form and one of the three param forms, + the no-argument handler)": n(&|r| r.pattern.starts_with("/s/"))},
        "param_alphabet": ALPHA.iter().map(|t| esc(t)).collect::<Vec<_>>(),
        "segment_max_tokens": {"P": l1, "(P,)": l1t, "one-param handler on two-param route": l12, "(P1,P2) each": l2},
        "segments": {"P": segs_by_len[l1].len(), "(P,)": segs_by_len[l1t].len(), "one-of-two": segs_by_len[l12].len(), "(P1,P2) each": segs2.len()},
        "boundary_segments": boundary_segments().len(),
        "content_types": cts.len(), "bodies": bods.len(), "queries": qs.len(),
        "request_bytes_limit": 1024,
    }));
}

pub fn run(ctx: &mut Ctx) { app::pin_clock(); run_engine(ctx) }

pub fn replay(ctx: &mut Ctx, case: &Value) {
    app::pin_clock();
    let sub = match subject() { Ok(s) => s, Err(p) => { ctx.machinery_error(format!("C07: the catalogue application could not be built: {p}")); return } };
    let Some(pattern) = case.get("route").and_then(|r| r.as_str()) else { ctx.machinery_error("C07 replay: no `route`".into()); return };
    let Some(route) = sub.routes.iter().find(|r| r.pattern == pattern) else { ctx.machinery_error(format!("C07 replay: route {pattern} is not in the catalogue")); return };
    let Some(req) = Req::from_json(case) else { ctx.machinery_error("C07 replay: unreadable request".into()); return };
    if req.params.len() != route.route_params { ctx.machinery_error(format!("C07 replay: {} params for route {pattern}", req.params.len())); return }
    check_case(ctx, &sub, route, &req);
}

#[cfg(test)]
mod t {
    use super::*;
    #[test] fn reference_selftest() {
        assert_eq!(pct_decode(b"a%20b%31"), Some(b"a b1".to_vec()));
        assert_eq!(pct_decode(b"%3"), None);
        assert_eq!(urlenc_sn(b"s=a&n=7"), Dec::Valid(("a".into(), 7)));
        assert_eq!(urlenc_sn(b"n=65535&z=1&s=a.b"), Dec::Valid(("a.b".into(), 65535)));
        assert_eq!(urlenc_sn(b"s=%31a%20&n=0"), Dec::Valid(("1a ".into(), 0)));
        assert_eq!(urlenc_sn(b"s=a"), Dec::Invalid);
        assert_eq!(urlenc_sn(b"s=a&n=65536"), Dec::Invalid);
        assert_eq!(urlenc_sn(b"s=a+b&n=7"), Dec::Unclear);
        assert_eq!(urlenc_sn(b"s=a&n=%37"), Dec::Unclear);
        assert_eq!(multipart_st(&mp(&[("s", "a"), ("t", "b c")], true), Some(BOUNDARY)), Dec::Valid(("a".into(), "b c".into())));
        assert_eq!(multipart_st(&mp(&[("t", "b"), ("z", "1"), ("s", "a")], true), Some(BOUNDARY)), Dec::Valid(("a".into(), "b".into())));
        assert_eq!(multipart_st(&mp(&[("s", "a")], true), Some(BOUNDARY)), Dec::Invalid);
        assert_eq!(multipart_st(&mp(&[("s", "a"), ("t", "b")], false), Some(BOUNDARY)), Dec::Invalid);
        assert_eq!(multipart_st(b"hello", Some(BOUNDARY)), Dec::Invalid);
        assert_eq!(int_feature(PTy::U8, "255"), "max");
        assert_eq!(int_feature(PTy::U8, "256"), "above-max:fits-i64");
        assert_eq!(int_feature(PTy::I64, "-9223372036854775808"), "i64-min");
        assert_eq!(int_feature(PTy::I64, "9223372036854775808"), "above-max:fits-u64");
        assert_eq!(int_feature(PTy::U64, "18446744073709551616"), "above-max:beyond-u64");
        assert_eq!(int_feature(PTy::U8, "12abc"), "trailing-garbage");
        assert_eq!(int_feature(PTy::U8, "007"), "in-range+leading-zero");
        assert_eq!(int_feature(PTy::I8, "-9223372036854775808"), "i64-min:below-min");
        assert_eq!(ct_relation(Fmt::Json, Some("application/jsonx")), CtRel::LongerPrefix);
        assert_eq!(ct_relation(Fmt::Json, Some("application/json; charset=utf-8")), CtRel::WithParams);
        assert_eq!(ct_relation(Fmt::Multipart, Some("multipart/form-data; boundary=XbX")), CtRel::Exact);
    }
}
