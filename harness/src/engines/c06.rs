//! C06 — responses depend on the byte stream, not on how TCP segmented it (DESIGN §5 C06).
//!
//! Schedule space: streams (single requests and ordered pairs of a request menu) × every set of cut positions of
//! size 0, 1, 2 (3 on short streams in the thorough tier).  Oracle: the response sequence must equal that of the
//! per-request segmentation of the same stream.  The loop model is bound to the real `Session::manage` by
//! replaying 1-cut (and 2-cut) schedules of the shortest streams over loopback TCP.

use crate::core::{combinations, esc, Ctx};
use crate::engines::c05::{alphabet, Req};
use crate::wire::{self, End};
use serde_json::{json, Value};

const MENU: [&str; 11] = ["get-hit", "get-404", "get-params", "post-3", "post-nul-first", "post-buffer+1", "get-headers", "head-hit", "put-short", "get-close", "get-with-payload"];

struct Stream { names: Vec<&'static str>, bytes: Vec<u8>, /* per request: (start, head_len, total_len, request_line_len) */ layout: Vec<(usize, usize, usize, usize)>, heads: Vec<bool>, body_kinds: Vec<&'static str> }

fn layout_of(r: &Req) -> (usize, usize, usize) {
    let head = r.bytes.windows(4).position(|w| w == b"\r\n\r\n").map(|p| p + 4).unwrap_or(r.bytes.len());
    let rl = r.bytes.windows(2).position(|w| w == b"\r\n").map(|p| p + 2).unwrap_or(head);
    (head, r.bytes.len(), rl)
}

fn body_kind(r: &Req) -> &'static str {
    let (head, total, _) = layout_of(r);
    if total == head { "none" } else if r.bytes[head] == 0 { "nul-first" } else if total > 1024 { "spans-buffer" } else { "plain" }
}

fn streams(alpha: &[Req]) -> Vec<Stream> {
    let menu: Vec<&Req> = MENU.iter().map(|n| alpha.iter().find(|r| r.name == *n).expect("menu request")).collect();
    let mut out = vec![];
    let mk = |rs: &[&Req]| {
        let mut bytes = vec![]; let mut layout = vec![];
        for r in rs { let (h, t, rl) = layout_of(r); layout.push((bytes.len(), h, t, rl)); bytes.extend_from_slice(&r.bytes); }
        Stream { names: rs.iter().map(|r| r.name).collect(), bytes, layout, heads: rs.iter().map(|r| r.head).collect(), body_kinds: rs.iter().map(|r| body_kind(r)).collect() }
    };
    for a in &menu { out.push(mk(&[a])) }
    for a in &menu { for b in &menu { out.push(mk(&[a, b])) } }
    // bursts (fourth round): pipelined requests whose total is larger than the read buffer, so that a cut leaves a partial
    // head *behind* complete requests in a buffer that fills up later; every request of a burst has its own query
    let padded = |size: usize, i: usize| -> Req {
        let mut b = format!("GET /e?i={i:02} HTTP/1.1\r\nHost: h\r\nX-Pad: ").into_bytes();
        let fill = size.saturating_sub(b.len() + 4);
        b.extend((0..fill).map(|k| b'a' + (k % 26) as u8)); b.extend_from_slice(b"\r\n\r\n");
        Req { name: Box::leak(format!("pad{size}#{i}").into_boxed_str()), bytes: b, head: false, closes: false, kind: "burst" }
    };
    for (size, count) in [(150usize, 8usize), (150, 16), (300, 4), (300, 8), (470, 3), (470, 5), (1000, 3)] {
        let reqs: Vec<Req> = (0..count).map(|i| padded(size, i)).collect();
        out.push(mk(&reqs.iter().collect::<Vec<_>>()));
    }
    let post3 = alpha.iter().find(|r| r.name == "post-3").unwrap(); let hit = alpha.iter().find(|r| r.name == "get-hit").unwrap();
    let mixed = [padded(300, 0), padded(470, 1), padded(300, 2), padded(150, 3), padded(470, 4), padded(300, 5)];
    out.push(mk(&[&mixed[0], post3, &mixed[1], hit, &mixed[2], post3, &mixed[3], &mixed[4], hit, &mixed[5]]));
    out
}

fn is_burst(s: &Stream) -> bool { s.layout.len() > 2 }

/// where a cut (between byte p-1 and byte p) falls
fn location(s: &Stream, p: usize) -> (usize, &'static str) {
    for (ri, &(start, head, total, rl)) in s.layout.iter().enumerate() {
        if p == start && ri > 0 { return (ri, "request-boundary") }
        if p > start && p < start + total {
            let o = p - start;
            return (ri, if o < rl { "request-line" } else if o + 4 > head && o < head { "head-crlf" } else if o < head { "header" } else if o == head { "head|body" } else { "body" })
        }
    }
    (s.layout.len() - 1, "end")
}

/// candidate cut positions: everything for short streams; structural neighbourhoods for long ones
fn candidates(s: &Stream) -> Vec<usize> {
    let n = s.bytes.len();
    if n <= 160 { return (1..n).collect() }
    if is_burst(s) {
        // second cuts of a burst: around every multiple of the buffer size, around every request boundary, every 41st byte
        let mut v: Vec<usize> = (1..n).filter(|p| p % 41 == 0 || (p % 1024).min(1024 - p % 1024) <= 2).collect();
        for &(start, head, _, _) in &s.layout { for d in 0..=2 { v.push(start + d); v.push(start + head - d.min(head - 1)) } }
        v.retain(|p| *p > 0 && *p < n); v.sort(); v.dedup();
        return v
    }
    let mut v: Vec<usize> = vec![];
    for &(start, head, total, _) in &s.layout {
        for o in 1..48.min(total) { v.push(start + o) }
        for d in 0..=3 { v.push(start + head - d.min(head - 1)); v.push((start + head + d).min(start + total)) }
        for d in 0..=2 { if total > 1024 + d { v.push(start + 1024 + d); } if total > 1024 { v.push(start + 1024 - d) } }
        for d in 0..=3 { if total > d + 1 { v.push(start + total - d) } if start >= d + 1 && start > 0 { v.push(start + d); } }
        let mut o = head + 97; while o < total { v.push(start + o); o += 97 }
    }
    v.retain(|p| *p > 0 && *p < n);
    v.sort(); v.dedup();
    v
}

fn segments_of(bytes: &[u8], cuts: &[usize]) -> Vec<Vec<u8>> {
    let mut out = vec![]; let mut prev = 0;
    for &c in cuts { out.push(bytes[prev..c].to_vec()); prev = c }
    out.push(bytes[prev..].to_vec());
    out
}

fn classify_cuts(s: &Stream, cuts: &[usize]) -> (String, &'static str) {
    // (1) some segment contains the end of a head and at least one byte of the following request: those bytes sit in the
    //     buffer when the first request is done (coalescing)
    let mut bounds = vec![0]; bounds.extend_from_slice(cuts); bounds.push(s.bytes.len());
    for ri in 0..s.layout.len().saturating_sub(1) {
        let (start, head, total, _) = s.layout[ri];
        let head_end = start + head; let next = start + total;
        for w in bounds.windows(2) { if w[0] < head_end && w[1] >= head_end && w[1] > next { return ("coalesced".into(), s.body_kinds[ri]) } }
    }
    // (2) otherwise a cut inside a head
    for &c in cuts {
        let (ri, loc) = location(s, c);
        if matches!(loc, "request-line" | "header" | "head-crlf") { return (format!("{}{loc}", if ri > 0 { "second-" } else { "" }), s.body_kinds[ri]) }
    }
    // (3) the first cut
    match cuts.first() {
        None => ("uncut".into(), s.body_kinds[0]),
        Some(&c) => { let (ri, loc) = location(s, c); (format!("{}{loc}", if ri > 0 && loc != "request-boundary" { "second-" } else { "" }), s.body_kinds[ri]) }
    }
}

fn check_schedule(ctx: &mut Ctx, router: &ohkami::__verif__::VerifRouter, s: &Stream, expected: &(Vec<Vec<u8>>, End), cuts: &[usize]) {
    ctx.transitions += cuts.len() as u64 + 1;
    let segs = segments_of(&s.bytes, cuts);
    let obs = wire::run_mem(router, &segs);
    let (got, leftover) = wire::split_responses(&obs.written, &s.heads);
    let (loc, bk) = classify_cuts(s, cuts);
    let same_end = std::mem::discriminant(&obs.end) == std::mem::discriminant(&expected.1);
    if got == expected.0 && leftover.is_empty() && same_end {
        let inside = cuts.iter().any(|&c| location(s, c).1 != "request-boundary");
        ctx.pass(&format!("{loc}:{bk}:{}resp", got.len()), inside || cuts.is_empty() && s.layout.len() > 1, inside);
        return
    }
    // symptom
    let k = (0..expected.0.len().max(got.len())).find(|&k| expected.0.get(k) != got.get(k)).unwrap_or(got.len());
    let symptom = if !leftover.is_empty() && k >= got.len() { "malformed-response".to_string() } else {
        match (expected.0.get(k), got.get(k)) {
            (Some(e), Some(g)) => { let (se, sg) = (wire::status_of(e), wire::status_of(g)); if se != sg { format!("refused({sg})") } else { "wrong-response".into() } }
            (Some(_), None) => match &obs.end { End::WaitingMidRequest(_) => "stall".into(), End::Panic(p) => format!("panic:{p}"), End::ServerClosed { .. } => "missing-response:session-closed".into(), _ => "missing-response".into() },
            (None, Some(_)) => "extra-response".into(),
            (None, None) => format!("end-differs({:?})", std::mem::discriminant(&obs.end)),
        }
    };
    ctx.violation(&format!("C06/{loc}/{bk}/{symptom}"), true, || json!({"stream": s.names, "cuts": cuts, "segments": segs.iter().map(|x| esc(&x[..x.len().min(60)])).collect::<Vec<_>>(),
        "expected_statuses": expected.0.iter().map(|r| wire::status_of(r)).collect::<Vec<_>>(), "observed_statuses": got.iter().map(|r| wire::status_of(r)).collect::<Vec<_>>(),
        "first_difference_at_response": k, "observed_response": got.get(k).map(|g| esc(&g[..g.len().min(300)])), "expected_response": expected.0.get(k).map(|g| esc(&g[..g.len().min(300)])), "end": format!("{:?}", obs.end), "expected_end": format!("{:?}", expected.1)}));
}

/// the oracle applied to the real `Session::manage` over TCP; true if a violation was reported
fn check_schedule_tcp(ctx: &mut Ctx, router: &ohkami::__verif__::VerifRouter, tcp: &wire::TcpBinding, s: &Stream, cuts: &[usize]) -> bool {
    let per_request: Vec<Vec<u8>> = s.layout.iter().map(|&(start, _, total, _)| s.bytes[start..start + total].to_vec()).collect();
    let (Ok(exp), Ok(real)) = (tcp.run(router, &per_request), tcp.run(router, &segments_of(&s.bytes, cuts))) else { return false };
    if exp.written == real.written && exp.server_closed_first == real.server_closed_first { return false }
    let (loc, bk) = classify_cuts(s, cuts);
    let (e, _) = wire::split_responses(&exp.written, &s.heads); let (g, _) = wire::split_responses(&real.written, &s.heads);
    let k = (0..e.len().max(g.len())).find(|&k| e.get(k) != g.get(k)).unwrap_or(g.len());
    let symptom = match (e.get(k), g.get(k)) { (Some(a), Some(b)) => if wire::status_of(a) != wire::status_of(b) { format!("refused({})", wire::status_of(b)) } else { "wrong-response".into() },
        (Some(_), None) => "missing-response".to_string(), (None, Some(_)) => "extra-response".into(), (None, None) => "close-behaviour".into() };
    ctx.violation(&format!("C06/{loc}/{bk}/{symptom}"), true, || json!({"stream": s.names, "cuts": cuts, "transport": "tcp",
        "expected_statuses": e.iter().map(|r| wire::status_of(r)).collect::<Vec<_>>(), "observed_statuses": g.iter().map(|r| wire::status_of(r)).collect::<Vec<_>>()}));
    true
}

fn expected_of(router: &ohkami::__verif__::VerifRouter, s: &Stream) -> (Vec<Vec<u8>>, End) {
    let per_request: Vec<Vec<u8>> = s.layout.iter().map(|&(start, _, total, _)| s.bytes[start..start + total].to_vec()).collect();
    let obs = wire::run_mem(router, &per_request);
    (wire::split_responses(&obs.written, &s.heads).0, obs.end)
}

pub fn run(ctx: &mut Ctx) {
    crate::app::pin_clock();
    let router = wire::echo_router();
    let alpha = alphabet();
    let all = streams(&alpha);
    let quick = ctx.quick();
    // ---- binding: 1-cut (thorough: also 2-cut) schedules of the shortest streams over real TCP ----
    let tcp = wire::TcpBinding::new();
    let mut by_len: Vec<&Stream> = all.iter().collect();
    by_len.sort_by_key(|s| s.bytes.len());
    let bind_streams: Vec<&Stream> = by_len.iter().copied().filter(|s| s.layout.len() == 1).take(if quick { 3 } else { 5 })
        .chain(by_len.iter().copied().filter(|s| s.layout.len() == 2).take(if quick { 2 } else { 5 })).collect();
    for s in &bind_streams {
        let n = s.bytes.len();
        let mut scheds: Vec<Vec<usize>> = vec![vec![]];
        for p in 1..n { if quick && p % 3 != 0 && location(s, p).1 == "header" { continue } scheds.push(vec![p]) }
        if !quick { for c in combinations(n - 1, 2) { if (c[0] * 7 + c[1]) % 23 == 0 { scheds.push(vec![c[0] + 1, c[1] + 1]) } } }
        for cuts in scheds {
            if !ctx.mine() { continue }
            // the oracle compares a cut delivery with the per-request delivery *in the same world*, so the binding demands agreement
            // on the shape of the session (responses, statuses, who closes), not on every byte
            match wire::conform_shape(&router, &tcp, &segments_of(&s.bytes, &cuts), &s.heads) {
                Ok(()) => ctx.traces_validated += 1,
                Err(e) => {
                    // model and implementation disagree: if the *real* session breaks the property's oracle (against the real
                    // per-request delivery) while the model does not, the defect is in the real loop -> a violation.  If the real
                    // session satisfies the oracle, the model is off: its verdicts are then not claimed as exhaustive (capped).
                    if !check_schedule_tcp(ctx, &router, &tcp, s, &cuts) {
                        ctx.capped = true;
                        ctx.extra.insert("model_nonconforming".into(), json!(format!("stream {:?} cuts {:?}: {e}", s.names, cuts)));
                    }
                }
            }
        }
    }
    if !ctx.machinery_errors.is_empty() { return }
    // ---- enumeration, deviation-bounded: 0 cuts, 1 cut, 2 cuts (, 3 cuts) ----
    let mut completed = [0u64; 5];
    for s in &all {
        let expected = expected_of(&router, s);
        let n = s.bytes.len();
        let cand = candidates(s);
        if ctx.mine() { check_schedule(ctx, &router, s, &expected, &[]); completed[0] += 1; ctx.states += 1;
            for p in 1..n { check_schedule(ctx, &router, s, &expected, &[p]); completed[1] += 1; ctx.states += 1; } }
        // 2 cuts from the candidate positions, sharded by the first cut
        for (i, &a) in cand.iter().enumerate() {
            if !ctx.mine() { continue }
            if ctx.out_of_time() { break }
            for &b in &cand[i + 1..] {
                check_schedule(ctx, &router, s, &expected, &[a, b]); completed[2] += 1; ctx.states += 1;
                if !quick && !is_burst(s) { for &c in cand.iter().filter(|&&c| c > b) { check_schedule(ctx, &router, s, &expected, &[a, b, c]); completed[3] += 1; ctx.states += 1;
                    // four cuts on the short streams (every position is a candidate there)
                    if n <= 100 { for &d in cand.iter().filter(|&&d| d > c) { check_schedule(ctx, &router, s, &expected, &[a, b, c, d]); completed[4] += 1; ctx.states += 1; } }
                } }
            }
        }
    }
    for (i, c) in completed.iter().enumerate() { ctx.extra.insert(format!("sum_schedules_with_{i}_cuts"), json!(c)); }
    ctx.extra.insert("rule".into(), json!("case = (stream, set of cut positions); the next segment is delivered only when the session is Pending inside a read; non-trivial = at least one cut strictly inside a request, or two requests coalesced into one segment; collision = a cut strictly inside a request"));
    ctx.extra.insert("bounds".into(), json!({"menu": MENU, "streams": all.len(), "bursts": "8 streams of 3..16 pipelined requests (1.2-2.9 KiB, heads of 150/300/470/1000 bytes, one mixed with bodies): every 1-cut, 2-cuts on a grid (every 41st byte, +-2 around multiples of the buffer size, request boundaries and head ends)", "cuts": if quick { "0,1 (all positions), 2 (candidate positions) on every stream" } else { "0,1 (all positions), 2 and 3 (candidate positions) on every stream, 4 on streams <= 100 bytes" },
        "candidate_positions": "all positions for streams <= 160 bytes; otherwise the first 48 bytes of each request, +-3 around the end of each head, +-2 around the 1 KiB buffer end, +-3 around each request boundary, every 97th body byte",
        "tcp_binding": if quick { "0- and 1-cut schedules of the 3 shortest single requests and 2 shortest pairs" } else { "0-, 1- and a 1/23 slice of 2-cut schedules of the 5 shortest single requests and 5 shortest pairs" }}));
    ctx.sample(|| json!({"stream": ["post-3"], "cuts": [70]}));
    ctx.sample(|| json!({"stream": ["get-hit", "put-short"], "cuts": []}));
}

pub fn replay(ctx: &mut Ctx, case: &Value) {
    crate::app::pin_clock();
    let router = wire::echo_router();
    let alpha = alphabet();
    let all = streams(&alpha);
    let names: Vec<String> = case["stream"].as_array().expect("stream").iter().map(|v| v.as_str().unwrap().to_string()).collect();
    let s = all.iter().find(|s| s.names.iter().map(|n| n.to_string()).collect::<Vec<_>>() == names).expect("unknown stream");
    let cuts: Vec<usize> = case["cuts"].as_array().map(|a| a.iter().map(|v| v.as_u64().unwrap() as usize).collect()).unwrap_or_default();
    if case["transport"].as_str() == Some("tcp") {
        let tcp = wire::TcpBinding::new();
        if !check_schedule_tcp(ctx, &router, &tcp, s, &cuts) { ctx.pass("tcp-replay-ok", true, true) }
        return
    }
    let expected = expected_of(&router, s);
    check_schedule(ctx, &router, s, &expected, &cuts);
}
