//! C01 — routing dispatches each request to the handler of the matching route (DESIGN §5 C01).
//!
//! configuration = (route set with method sets) × declaration shape × registration order;
//! every configuration is built through the real registration/finalization code and queried with
//! every request of a per-configuration alphabet through the real read → router → send path.
//! Oracles: (1) reference matcher (set of admissible readings), (2) differential across shapes/orders.

use crate::app::{self, Outcome};
use crate::appgen::{self, AppDesc, ItemDesc, MethodDesc};
use crate::core::{combinations, panic_kind, permutations, Ctx};
use crate::refmodel::router::{admissible, is_param, Entry, Match};
use serde_json::{json, Value};
use std::collections::BTreeSet;

pub const SEGS: [&str; 4] = ["a", "ab", "b", ":p"];

#[derive(Clone, Debug, PartialEq, Eq)]
pub struct RouteSpec { pub segs: Vec<String>, pub methods: Vec<String> }

pub fn route_str(segs: &[String]) -> String {
    if segs.is_empty() { "/".to_string() } else { segs.iter().map(|s| format!("/{s}")).collect() }
}

/// static names that differ from `a` by a continuation with a byte *below* `/` (`-`, `.`) or above it (`_`): orderings of
/// sibling patterns against the rest of a path (which continues with `/`) depend on which side of `/` the next byte lies
pub const PUNCT_SEGS: [&str; 5] = ["a", "a-b", "a.b", "a_b", ":p"];

pub fn all_routes(max_depth: usize) -> Vec<Vec<String>> { all_routes_over(&SEGS, max_depth) }

pub fn all_routes_over(segs: &[&str], max_depth: usize) -> Vec<Vec<String>> {
    let mut out = vec![vec![]];
    let mut frontier: Vec<Vec<String>> = vec![vec![]];
    for _ in 0..max_depth {
        let mut next = vec![];
        for r in &frontier { for s in segs { let mut n = r.clone(); n.push(s.to_string()); next.push(n); } }
        out.extend(next.iter().cloned());
        frontier = next;
    }
    out
}

fn mdesc(segs: &[String], method: &str) -> MethodDesc {
    let n = segs.iter().filter(|s| is_param(s)).count().min(2) as u8;
    MethodDesc { method: method.to_string(), hid: format!("{method} {}", route_str(segs)), n_params: n, local_fangs: vec![] }
}

fn route_item(full: &[String], strip: usize, methods: &[String]) -> ItemDesc {
    ItemDesc::Route { path: route_str(&full[strip..]), methods: methods.iter().map(|m| mdesc(full, m)).collect() }
}

fn app(items: Vec<ItemDesc>) -> AppDesc { AppDesc { fangs: vec![], with_form: false, items } }

/// All declaration shapes of one route set (deduplicated), each with a name.
pub fn shapes(set: &[RouteSpec]) -> Vec<(String, AppDesc)> {
    let mut out: Vec<(String, AppDesc)> = Vec::new();
    let mut push = |name: String, a: AppDesc| { if !out.iter().any(|(_, x)| *x == a) { out.push((name, a)) } };

    let flat = app(set.iter().map(|r| route_item(&r.segs, 0, &r.methods)).collect());
    push("flat".into(), flat.clone());

    // split: one HandlerSet per method
    push("split".into(), app(set.iter().flat_map(|r| r.methods.iter().map(|m| route_item(&r.segs, 0, std::slice::from_ref(m)))).collect()));

    // mount-first: all routes sharing a first segment under one mount
    {
        let mut items = vec![];
        let mut firsts: Vec<String> = vec![];
        for r in set { if let Some(f) = r.segs.first() { if !firsts.contains(f) { firsts.push(f.clone()) } } }
        for r in set.iter().filter(|r| r.segs.is_empty()) { items.push(route_item(&r.segs, 0, &r.methods)) }
        for f in &firsts {
            let child = app(set.iter().filter(|r| r.segs.first() == Some(f)).map(|r| route_item(&r.segs, 1, &r.methods)).collect());
            items.push(ItemDesc::Mount { prefix: format!("/{f}"), app: child });
        }
        push("mount1".into(), app(items));
    }
    // mount-two: routes of depth >= 2 under a two-segment mount prefix
    {
        let mut items = vec![];
        let mut heads: Vec<Vec<String>> = vec![];
        for r in set { if r.segs.len() >= 2 { let h = r.segs[..2].to_vec(); if !heads.contains(&h) { heads.push(h) } } }
        for r in set.iter().filter(|r| r.segs.len() < 2) { items.push(route_item(&r.segs, 0, &r.methods)) }
        for h in &heads {
            let child = app(set.iter().filter(|r| r.segs.len() >= 2 && r.segs[..2] == h[..]).map(|r| route_item(&r.segs, 2, &r.methods)).collect());
            items.push(ItemDesc::Mount { prefix: route_str(h), app: child });
        }
        if !heads.is_empty() { push("mount2".into(), app(items)); }
    }
    // nested: /s1 -> (/s2 -> rest)
    {
        let mut items = vec![];
        let mut firsts: Vec<String> = vec![];
        for r in set { if let Some(f) = r.segs.first() { if !firsts.contains(f) { firsts.push(f.clone()) } } }
        for r in set.iter().filter(|r| r.segs.is_empty()) { items.push(route_item(&r.segs, 0, &r.methods)) }
        let mut any_deep = false;
        for f in &firsts {
            let mut citems = vec![];
            let group: Vec<&RouteSpec> = set.iter().filter(|r| r.segs.first() == Some(f)).collect();
            for r in group.iter().filter(|r| r.segs.len() == 1) { citems.push(route_item(&r.segs, 1, &r.methods)) }
            let mut seconds: Vec<String> = vec![];
            for r in &group { if r.segs.len() >= 2 && !seconds.contains(&r.segs[1]) { seconds.push(r.segs[1].clone()) } }
            for s2 in &seconds {
                any_deep = true;
                let gchild = app(group.iter().filter(|r| r.segs.len() >= 2 && r.segs[1] == *s2).map(|r| route_item(&r.segs, 2, &r.methods)).collect());
                citems.push(ItemDesc::Mount { prefix: format!("/{s2}"), app: gchild });
            }
            items.push(ItemDesc::Mount { prefix: format!("/{f}"), app: app(citems) });
        }
        if any_deep { push("nested".into(), app(items)); }
    }
    // split-mount: the first method of a route is declared in the parent, the others in an application mounted at the route
    {
        let mut items = vec![];
        let mut any = false;
        for r in set {
            if r.methods.len() >= 2 && !r.segs.is_empty() {
                any = true;
                items.push(route_item(&r.segs, 0, &r.methods[..1]));
                items.push(ItemDesc::Mount { prefix: route_str(&r.segs), app: app(vec![route_item(&r.segs, r.segs.len(), &r.methods[1..])]) });
            } else { items.push(route_item(&r.segs, 0, &r.methods)) }
        }
        if any { push("split-mount".into(), app(items)); }
    }
    // inline: the flat application used as a routing item of an otherwise empty application
    push("inline".into(), app(vec![ItemDesc::Inline { app: flat.clone() }]));
    // mount-one(i): only route i is mounted under its first segment
    if set.len() >= 2 {
        for (i, r) in set.iter().enumerate() {
            if r.segs.is_empty() { continue }
            let mut items = vec![];
            for (j, o) in set.iter().enumerate() {
                if i == j {
                    items.push(ItemDesc::Mount { prefix: format!("/{}", r.segs[0]), app: app(vec![route_item(&r.segs, 1, &r.methods)]) });
                } else { items.push(route_item(&o.segs, 0, &o.methods)) }
            }
            push(format!("mount-one{i}"), app(items));
        }
        // mount-root(i): only route i lives in an application mounted at "/" - every level of its path that it shares with the
        // other routes is united below the mount point (mount-one unites one level less)
        for (i, r) in set.iter().enumerate() {
            if r.segs.is_empty() { continue }
            let mut items = vec![];
            for (j, o) in set.iter().enumerate() {
                if i == j { items.push(ItemDesc::Mount { prefix: "/".into(), app: app(vec![route_item(&r.segs, 0, &r.methods)]) }); }
                else { items.push(route_item(&o.segs, 0, &o.methods)) }
            }
            push(format!("mount-root{i}"), app(items));
        }
    }
    out
}

pub fn orders(a: &AppDesc, all: bool) -> Vec<AppDesc> {
    let n = a.items.len();
    if n <= 1 { return vec![a.clone()] }
    let perms: Vec<Vec<usize>> = if n <= 3 || (all && n <= 4) { permutations(n) } else {
        let id: Vec<usize> = (0..n).collect();
        let mut v = vec![id.clone(), id.iter().rev().cloned().collect()];
        let mut rot = id.clone(); rot.rotate_left(1); v.push(rot);
        v
    };
    perms.into_iter().map(|p| AppDesc { fangs: a.fangs.clone(), with_form: a.with_form, items: p.iter().map(|&i| a.items[i].clone()).collect() }).collect()
}

/// Request alphabet of one route set.
pub fn requests(set: &[RouteSpec], quick: bool) -> Vec<(String, String)> {
    let mut statics: Vec<String> = vec![];
    for r in set { for s in &r.segs { if !is_param(s) && !statics.contains(s) { statics.push(s.clone()) } } }
    let mut segs: Vec<String> = vec![];
    let mut add = |s: String| { if !segs.contains(&s) { segs.push(s) } };
    for s in &statics { add(s.clone()); }
    for s in &statics { add(format!("{s}c")); }                                  // one-byte extension
    for s in &statics { if s.len() > 1 { add(s[..s.len() - 1].to_string()) } }   // proper prefix
    add("x".into()); add("".into()); add("%61".into()); add("a%2Fb".into());
    let max_depth = set.iter().map(|r| r.segs.len()).max().unwrap_or(0);
    let mut paths: Vec<Vec<String>> = vec![vec![]];
    let mut frontier: Vec<Vec<String>> = vec![vec![]];
    for _ in 0..(max_depth + 1) {
        let mut next = vec![];
        for p in &frontier { for s in &segs { let mut n = p.clone(); n.push(s.clone()); next.push(n); } }
        paths.extend(next.iter().cloned());
        frontier = next;
    }
    let mut out = vec![];
    for p in &paths {
        let base = if p.is_empty() { "/".to_string() } else { p.iter().map(|s| format!("/{s}")).collect::<String>() };
        let mut variants = vec![base.clone()];
        if !p.is_empty() { variants.push(format!("{base}/")); }
        if p.len() <= 1 { variants.push(format!("{base}//")); }
        if p.is_empty() { variants = vec!["/".into(), "//".into(), "///".into()]; }
        let deep = p.len() > max_depth;
        for v in variants {
            for m in ["GET", "POST", "HEAD"] { if quick && deep && m != "GET" { continue } out.push((m.to_string(), v.clone())) }
            if !deep && !(quick && p.len() == max_depth && max_depth >= 2) {
                for m in ["PUT", "DELETE", "OPTIONS", "PATCH"] { out.push((m.to_string(), v.clone())) }
            }
        }
    }
    out
}

/// Request alphabet for deep route sets: every route instance (params filled with `v` and with each static segment of
/// the set), every single-segment mutation of it over the segment alphabet, one segment dropped, one appended.
pub fn requests_neighbourhood(set: &[RouteSpec]) -> Vec<(String, String)> {
    let mut statics: Vec<String> = vec![];
    for r in set { for s in &r.segs { if !is_param(s) && !statics.contains(s) { statics.push(s.clone()) } } }
    let mut segs: Vec<String> = vec![];
    let mut add = |s: String| { if !segs.contains(&s) { segs.push(s) } };
    for s in &statics { add(s.clone()); add(format!("{s}c")); if s.len() > 1 { add(s[..s.len() - 1].to_string()) } }
    add("v".into()); add("".into()); add("%61".into()); add("a%2Fb".into());
    let mut paths: Vec<Vec<String>> = vec![vec![]];
    let mut push = |p: Vec<String>| { if !paths.contains(&p) { paths.push(p) } };
    for r in set {
        // params are filled with a fresh value and with one static segment of the set (a param value that equals a static sibling)
        let mut fills: Vec<String> = vec!["v".into()]; fills.extend(statics.iter().take(1).cloned());
        for fill in &fills {
            let inst: Vec<String> = r.segs.iter().map(|s| if is_param(s) { fill.clone() } else { s.clone() }).collect();
            push(inst.clone());
            for i in 0..inst.len() { for s in &segs { let mut m = inst.clone(); m[i] = s.clone(); push(m); } }
            if !inst.is_empty() { push(inst[..inst.len() - 1].to_vec()); }
            for s in &segs { let mut m = inst.clone(); m.push(s.clone()); push(m); }
        }
    }
    let mut out = vec![];
    for p in &paths {
        let base = if p.is_empty() { "/".to_string() } else { p.iter().map(|s| format!("/{s}")).collect::<String>() };
        let variants = if p.is_empty() { vec!["/".to_string(), "//".into()] } else { vec![base.clone(), format!("{base}/")] };
        let exact = set.iter().any(|r| r.segs.len() == p.len() && r.segs.iter().zip(p).all(|(a, b)| is_param(a) && !b.is_empty() || a == b));
        for v in variants { for m in ["GET", "POST", "HEAD", "PUT", "OPTIONS"] { if !exact && matches!(m, "PUT" | "OPTIONS") { continue } out.push((m.to_string(), v.clone())) } }
    }
    out
}

pub fn pct_decode(s: &str) -> Option<String> {
    let b = s.as_bytes();
    let mut out = Vec::new();
    let mut i = 0;
    while i < b.len() {
        if b[i] == b'%' {
            let h = std::str::from_utf8(b.get(i + 1..i + 3)?).ok()?;
            out.push(u8::from_str_radix(h, 16).ok()?);
            i += 3;
        } else { out.push(b[i]); i += 1 }
    }
    String::from_utf8(out).ok()
}

#[derive(Clone, Debug, PartialEq, Eq)]
pub enum Observed {
    Handler { hid: String, params: Vec<String>, status: u16 },
    NoHandler { status: u16 },
    Broken(String),
}

pub fn observe(o: &Outcome, method: &str) -> Observed {
    match o {
        Outcome::Response { parsed: Ok(p), .. } => match p.header("X-H") {
            Some(h) => {
                let mut parts = h.split('.');
                let hid = parts.next().and_then(appgen::unhex);
                let params: Option<Vec<String>> = parts.map(appgen::unhex).collect();
                match (hid, params) {
                    (Some(hid), Some(params)) => {
                        // identity must also be in the body (except for HEAD)
                        let mut want = hid.clone(); for q in &params { want.push('|'); want.push_str(q); }
                        if method != "HEAD" && p.body != want.as_bytes() { return Observed::Broken(format!("body `{}` does not echo `{want}`", p.body.escape_ascii())) }
                        if method == "HEAD" && !p.body.is_empty() { return Observed::Broken("HEAD response with a body".into()) }
                        Observed::Handler { hid, params, status: p.status }
                    }
                    _ => Observed::Broken(format!("unreadable X-H `{h}`")),
                }
            }
            None => Observed::NoHandler { status: p.status },
        },
        other => Observed::Broken(other.kind()),
    }
}

fn table_of(set: &[RouteSpec]) -> Vec<Entry> {
    set.iter().flat_map(|r| r.methods.iter().map(|m| Entry { segs: r.segs.clone(), method: m.clone(), hid: format!("{m} {}", route_str(&r.segs)) })).collect()
}

/// the input-shape feature that enters the class id
fn feature(set: &[RouteSpec], path: &str, expected: &BTreeSet<Match>) -> &'static str {
    let req: Vec<&str> = path.trim_start_matches('/').split('/').collect();
    let three = expected.iter().any(|m| matches!(m, Match::Handler { raw_params, .. } if raw_params.len() > 2));
    if three { return "params>2" }
    if path.contains("//") || path == "//" { return "empty-segment" }
    let mut ext = false; let mut pre = false;
    for r in set { for (i, s) in r.segs.iter().enumerate() {
        if is_param(s) { continue }
        if let Some(q) = req.get(i) {
            if q.len() > s.len() && q.starts_with(s.as_str()) { ext = true }
            if q.len() < s.len() && !q.is_empty() && s.starts_with(q) { pre = true }
        }
    } }
    if ext { "extends-static-sibling" } else if pre { "prefix-of-static-sibling" } else if path.contains('%') { "percent-encoded" } else { "plain" }
}

fn method_kind(m: &str) -> &'static str { match m { "HEAD" => "HEAD", "OPTIONS" => "OPTIONS", _ => "std" } }

struct Variant { shape: String, order: usize, desc: AppDesc, router: ohkami::__verif__::VerifRouter }

pub fn check_set(ctx: &mut Ctx, set: &[RouteSpec], all_orders: bool, only: Option<(&str, &str)>) {
    let table = table_of(set);
    let mut variants: Vec<Variant> = vec![];
    for (name, desc) in shapes(set) {
        let mut accepted: Option<(usize, AppDesc)> = None;
        let mut refused: Option<(usize, AppDesc, String)> = None;
        for (oi, d) in orders(&desc, all_orders).into_iter().enumerate() {
            match appgen::build(&d) {
                Ok(router) => { ctx.states += 1; if accepted.is_none() { accepted = Some((oi, d.clone())) } variants.push(Variant { shape: name.clone(), order: oi, desc: d, router }) }
                Err(p) => {
                    if refused.is_none() { refused = Some((oi, d.clone(), p.clone())) }
                    if name == "flat" && oi == 0 {
                        // the framework rejects this route set altogether: outside the quantifier
                        ctx.skip();
                        ctx.extra.entry("rejected_at_registration_example").or_insert_with(|| json!({"set": set_json(set), "panic": p}));
                        return
                    }
                    // a shape/order of an accepted route set is rejected at registration (e.g. a mount whose subtree meets nodes that
                    // already exist): such a declaration is not an application, hence outside the quantifier - counted, never alarmed
                    ctx.skip();
                    let _ = p;
                    *ctx.outcomes.entry(format!("skipped:rejected-at-registration:{name}")).or_insert(0) += 1;
                }
            }
        }
        // "The outcome does not depend on the order in which routes were registered": the same routing items must not be an
        // application in one order and a registration failure in another
        if only.is_none() { if let (Some((ao, a)), Some((ro, r, panic))) = (&accepted, &refused) {
            ctx.violation(&format!("C01/order-dependence/registration/{}", name.trim_end_matches(|c: char| c.is_ascii_digit())), true,
                || json!({"set": set_json(set), "shape": name, "accepted_order": ao, "accepted_app": a, "refused_order": ro, "refused_app": r, "panic": panic}));
        } }
    }
    if variants.is_empty() { return }
    let deep = set.iter().any(|r| r.segs.len() >= 3);
    let reqs: Vec<(String, String)> = match only { Some((m, p)) => vec![(m.to_string(), p.to_string())], None => if deep { requests_neighbourhood(set) } else { requests(set, ctx.quick()) } };
    let has_param_route = set.iter().any(|r| r.segs.iter().any(|s| is_param(s)));
    for (method, path) in &reqs {
        let expected = admissible(&table, method, path);
        let raw = app::request(method, path, &[("Host", "h")], b"");
        let feat = feature(set, path, &expected);
        let collision = feat == "extends-static-sibling" || feat == "prefix-of-static-sibling";
        // a route matches the path for some other method: 405 would be as good as 404 (the statement only fixes 404 for "no route matches")
        let route_matches_other_method = ["GET", "PUT", "POST", "PATCH", "DELETE"].iter().any(|m| admissible(&table, m, path).iter().any(|x| matches!(x, Match::Handler { .. })));
        let mut first: Option<(String, usize, Observed)> = None;
        for v in &variants {
            ctx.transitions += 1;
            appgen::trace_clear();
            let outcome = app::oneshot(&v.router, &raw);
            let obs = observe(&outcome, method);
            // (1) reference
            let mut verdict_ok = false;
            for m in &expected {
                let ok = match (m, &obs) {
                    (Match::Handler { hid, raw_params }, Observed::Handler { hid: oh, params, status }) => {
                        let dec: Option<Vec<String>> = raw_params.iter().map(|p| pct_decode(p)).collect();
                        match dec { Some(dec) => *status == 200 && hid == oh && params[..] == dec[..dec.len().min(2)], None => false }
                    }
                    (Match::NoHandler, Observed::NoHandler { status }) => *status == 404 || (*status == 405 && route_matches_other_method),
                    _ => false,
                };
                if ok { verdict_ok = true; break }
            }
            let witness = |extra: Value| json!({"set": set_json(set), "shape": v.shape, "order": v.order, "app": v.desc, "method": method, "path": path,
                "expected_any_of": expected.iter().map(|m| format!("{m:?}")).collect::<Vec<_>>(), "observed": format!("{obs:?}"), "note": extra});
            if verdict_ok {
                if expected.len() > 1 { ctx.ambiguous(&format!("{}:{}", feat, obs_key(&obs))) }
                else { ctx.pass(&format!("{}:{}:{}", method_kind(method), feat, obs_key(&obs)), has_param_route || set.len() > 1, collision) }
            } else {
                let symptom = match (&obs, expected.iter().next().unwrap()) {
                    (Observed::Broken(k), _) => format!("broken:{k}"),
                    (Observed::NoHandler { status }, Match::Handler { .. }) => format!("no-handler-ran({status})-should-run"),
                    (Observed::NoHandler { status }, Match::NoHandler) => format!("wrong-status({status})"),
                    (Observed::Handler { .. }, Match::NoHandler) => "handler-ran-should-404".to_string(),
                    (Observed::Handler { hid, .. }, Match::Handler { hid: eh, .. }) => if hid != eh { "wrong-handler".to_string() } else { "wrong-param".to_string() },
                };
                ctx.violation(&format!("C01/{}/{}/{}", method_kind(method), feat, symptom), true, || witness(json!("reference matcher disagrees")));
            }
            // (2) the outcome must not depend on the registration order (same shape, other order of the items)
            match &first {
                Some((shape, fo, f)) if *shape == v.shape => if *f != obs {
                    let (fo, f) = (*fo, f.clone());
                    ctx.violation(&format!("C01/order-dependence/{}/{}", feat, v.shape), true,
                        || witness(json!({"same_shape_other_order": {"order": fo, "observed": format!("{f:?}")}})));
                }
                _ => first = Some((v.shape.clone(), v.order, obs.clone())),
            }
        }
    }
    ctx.sample(|| json!({"set": set_json(set), "shapes": variants.iter().map(|v| format!("{}#{}", v.shape, v.order)).collect::<Vec<_>>(), "requests": reqs.len(), "first_requests": reqs.iter().take(4).collect::<Vec<_>>()}));
}

fn obs_key(o: &Observed) -> String {
    match o {
        Observed::Handler { params, .. } => format!("handler/{}p", params.len()),
        Observed::NoHandler { status } => format!("none/{status}"),
        Observed::Broken(k) => format!("broken/{k}"),
    }
}

fn set_json(set: &[RouteSpec]) -> Value {
    json!(set.iter().map(|r| json!({"route": route_str(&r.segs), "methods": r.methods})).collect::<Vec<_>>())
}

fn set_from_json(v: &Value) -> Vec<RouteSpec> {
    v.as_array().expect("set").iter().map(|r| RouteSpec {
        segs: appgen::split_route(r["route"].as_str().unwrap()),
        methods: r["methods"].as_array().unwrap().iter().map(|m| m.as_str().unwrap().to_string()).collect(),
    }).collect()
}

/// The same set with the params of every route but the first written under another name (`:q`): a param segment matches by
/// position, whatever it is called - `/users/:id` and `/users/:user/posts` share one param node.  (Pairs only.)
fn check_renamed(ctx: &mut Ctx, set: &[RouteSpec], all_orders: bool) {
    if set.len() != 2 || set.iter().filter(|r| r.segs.iter().any(|s| is_param(s))).count() < 2 { return }
    let mut renamed: Vec<RouteSpec> = set.to_vec();
    for r in renamed[1..].iter_mut() { for s in r.segs.iter_mut() { if is_param(s) { *s = ":q".to_string() } } }
    check_set(ctx, &renamed, all_orders, None);
}

pub fn run(ctx: &mut Ctx) {
    app::pin_clock();
    let quick = ctx.quick();
    let msets: Vec<Vec<String>> = vec![vec!["GET".into()], vec!["POST".into()], vec!["GET".into(), "POST".into()]];
    // (depth bound, set size) pairs
    // quick also takes every single route of depth 3 (routes with three param segments, handlers taking the first two)
    let plans: Vec<(usize, usize)> = if quick { vec![(2, 1), (2, 2), (3, 1)] } else { vec![(3, 1), (3, 2), (2, 3)] };
    let mut done_sets: std::collections::HashSet<Vec<(Vec<String>, Vec<String>)>> = Default::default();
    for (depth, size) in plans {
        let routes = all_routes(depth);
        for combo in combinations(routes.len(), size) {
            // every assignment of method sets
            let total = msets.len().pow(size as u32);
            for mut code in 0..total {
                // quick tier: for pairs, only same-method-set assignments plus the mixed ones that differ (all 9 are kept for depth<=1 pairs)
                let mut set = vec![];
                for &ri in &combo { set.push(RouteSpec { segs: routes[ri].clone(), methods: msets[code % msets.len()].clone() }); code /= msets.len(); }
                if size == 3 && !(set.iter().all(|r| r.methods == set[0].methods) || set.iter().map(|r| r.methods.len()).sum::<usize>() == 4) { continue }
                if quick && size == 2 && set.iter().map(|r| r.segs.len()).sum::<usize>() >= 4 && set[0].methods != set[1].methods && set[0].methods.len() + set[1].methods.len() != 3 { continue }
                // thorough, pairs with a depth-3 route: the same thinning of method-set assignments; two depth-3 routes only when
                // their first segments can meet (equal, or one of them a param) - otherwise they live in disjoint subtrees
                if !quick && size == 2 && set.iter().any(|r| r.segs.len() == 3) {
                    if set[0].methods != set[1].methods && set[0].methods.len() + set[1].methods.len() != 3 { continue }
                    if set.iter().all(|r| r.segs.len() == 3) && !(set[0].segs[0] == set[1].segs[0] || is_param(&set[0].segs[0]) || is_param(&set[1].segs[0])) { continue }
                }
                let key: Vec<_> = set.iter().map(|r| (r.segs.clone(), r.methods.clone())).collect();
                if !done_sets.insert(key) { continue }
                if !ctx.mine() { continue }
                if ctx.out_of_time() { break }
                check_set(ctx, &set, !quick, None);
                check_renamed(ctx, &set, !quick);
            }
        }
    }
    // pairs of depth-3 routes that share their first two segments (two united levels below a mount at "/" or at the first segment):
    // in the quick tier too (the plans above only have single depth-3 routes there)
    if quick {
        for s1 in SEGS { for s2 in SEGS { for (xi, x) in SEGS.iter().enumerate() { for y in &SEGS[xi + 1..] {
            for ms in [(0usize, 0usize), (0, 1), (2, 2)] {
                let set = vec![RouteSpec { segs: vec![s1.to_string(), s2.to_string(), x.to_string()], methods: msets[ms.0].clone() },
                               RouteSpec { segs: vec![s1.to_string(), s2.to_string(), y.to_string()], methods: msets[ms.1].clone() }];
                let key: Vec<_> = set.iter().map(|r| (r.segs.clone(), r.methods.clone())).collect();
                if !done_sets.insert(key) { continue }
                if !ctx.mine() { continue }
                check_set(ctx, &set, false, None);
                check_renamed(ctx, &set, false);
            }
        } } } }
    }
    // fourth round: sibling names continued by punctuation (both tiers): every pair of routes of depth <= 2 over PUNCT_SEGS that
    // has a punctuated name, GET only (thorough: also GET+POST against POST), and every triple of depth <= 1
    {
        let routes = all_routes_over(&PUNCT_SEGS, 2);
        let punct = |r: &Vec<String>| r.iter().any(|s| s.contains(['-', '.', '_']));
        let assignments: Vec<(usize, usize)> = if quick { vec![(0, 0)] } else { vec![(0, 0), (2, 1)] };
        for combo in combinations(routes.len(), 2) {
            let (a, b) = (&routes[combo[0]], &routes[combo[1]]);
            if !punct(a) && !punct(b) { continue }
            for &(ma, mb) in &assignments {
                let set = vec![RouteSpec { segs: a.clone(), methods: msets[ma].clone() }, RouteSpec { segs: b.clone(), methods: msets[mb].clone() }];
                let key: Vec<_> = set.iter().map(|r| (r.segs.clone(), r.methods.clone())).collect();
                if !done_sets.insert(key) { continue }
                if !ctx.mine() { continue }
                if ctx.out_of_time() { break }
                check_set(ctx, &set, !quick, None);
            }
        }
        let shallow = all_routes_over(&PUNCT_SEGS, 1);
        for combo in combinations(shallow.len(), 3) {
            let set: Vec<RouteSpec> = combo.iter().map(|&i| RouteSpec { segs: shallow[i].clone(), methods: msets[0].clone() }).collect();
            if !set.iter().any(|r| punct(&r.segs)) { continue }
            let key: Vec<_> = set.iter().map(|r| (r.segs.clone(), r.methods.clone())).collect();
            if !done_sets.insert(key) { continue }
            if !ctx.mine() { continue }
            check_set(ctx, &set, !quick, None);
        }
    }
    // single-route applications with every non-empty subset of the five registrable methods
    let five = ["GET", "PUT", "POST", "PATCH", "DELETE"];
    for route in all_routes(if quick { 1 } else { 2 }) {
        for mask in 1u32..32 {
            let methods: Vec<String> = five.iter().enumerate().filter(|(i, _)| mask & (1 << i) != 0).map(|(_, m)| m.to_string()).collect();
            if methods.len() <= 2 && methods.iter().all(|m| m == "GET" || m == "POST") { continue } // already covered
            if !ctx.mine() { continue }
            check_set(ctx, &[RouteSpec { segs: route.clone(), methods }], false, None);
        }
    }
    ctx.extra.insert("rule".into(), json!("case = (route set + method sets, declaration shape, registration order, request); configurations are built by the real registration/finalization code, requests go through the real Request::read / Router::handle / Response::send; non-trivial = the route set has a param route or more than one route; collision = a request segment is a strict byte extension or a strict prefix of a static pattern at the same position (the byte-prefix shortcut of the radix matcher)"));
    ctx.extra.insert("bounds".into(), json!({"segments": SEGS, "plans(depth,set size)": if quick { json!([[2,1],[2,2],[3,1]]) } else { json!([[3,1],[3,2],[2,3]]) }, "method_sets": ["GET","POST","GET+POST", "all 31 subsets on single-route apps"], "thinning": "pairs of deep routes: method-set assignments equal or {one method, both methods}; two depth-3 routes only when their first segments can meet", "shapes": ["flat","split","mount1","mount2","nested","split-mount","inline","mount-one(i)","mount-root(i)"], "quick_extra": "all pairs of depth-3 routes sharing their first two segments", "punctuation_sweep": {"segments": PUNCT_SEGS, "sets": "every pair of routes of depth <= 2 with a punctuated name; every triple of depth <= 1"}, "orders": if quick { "all permutations up to 3 items, 3 orders beyond" } else { "all permutations up to 4 items" },
        "requests": "route sets of depth <=2: all paths of depth <= max+1 over the per-set segment alphabet x trailing-slash variants x 7 methods; sets containing a depth-3 route: every route instance (x 5 methods), all its single-segment mutations, one segment dropped / appended (x GET, POST, HEAD)"}));
    ctx.traces_validated = ctx.transitions;
}

pub fn replay(ctx: &mut Ctx, case: &Value) {
    app::pin_clock();
    let set = set_from_json(&case["set"]);
    let (m, p) = (case["method"].as_str().map(str::to_string), case["path"].as_str().map(str::to_string));
    match (m, p) {
        (Some(m), Some(p)) => check_set(ctx, &set, true, Some((&m, &p))),
        _ => check_set(ctx, &set, true, None),
    }
}
