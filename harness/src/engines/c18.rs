//! C18 — graceful shutdown waits for in-flight sessions and never loses the interrupt (DESIGN §5 C18).
//!
//! (a) fine-grained: stateless depth-first exploration, preemption-bounded, of all interleavings of the poll of
//!     `howl` (P; points P0 before polling accept, P2 after reading the flag as false, P3 after publishing the waker)
//!     with the signal handler (H; points H0..H3 around store / swap / wake), the signal (SIG, a real SIGINT) and
//!     client connections (CONN).  One fresh child process per schedule (process-global statics).  A schedule is a
//!     list of choice indices; the child replays the prefix and takes choice 0 afterwards; any divergence is exit 2.
//! (b) coarse-grained: 0..3 in-flight sessions (handler blocked on a gate / idle keep-alive connection), every
//!     permutation of {SIGINT, session k finishes}; after each event: returned == (signal seen && all finished).

use crate::core::{permutations, Ctx};
use serde_json::{json, Value};
use std::process::Command;

fn child_path() -> std::path::PathBuf { std::env::current_exe().unwrap().parent().unwrap().join("shutdown_child") }

/// One child = one schedule.  A child that reports a *timing* failure of the harness itself (a 10 s wait that expired, a
/// refused connect) is run again, up to three times: such failures can only be machinery, never a verdict.
fn run_child(args: &[String]) -> Result<Value, String> {
    let mut last = String::new();
    for _ in 0..3 {
        match run_child_once(args) {
            Err(e) if e.contains("timeout waiting") || e.contains("connect failed") || e.contains("did not come up") => { last = e; continue }
            other => return other,
        }
    }
    Err(last)
}

fn run_child_once(args: &[String]) -> Result<Value, String> {
    let out = Command::new(child_path()).args(args).output().map_err(|e| format!("cannot run shutdown_child: {e}"))?;
    let text = String::from_utf8_lossy(&out.stdout);
    let v: Value = serde_json::from_str(text.trim()).map_err(|_| format!("child printed no JSON (status {:?}): {}", out.status, &text[..text.len().min(200)]))?;
    if let Some(m) = v.get("machinery_error") { return Err(format!("child: {m}")) }
    if !out.status.success() { return Err(format!("child exit status {:?}", out.status)) }
    Ok(v)
}

fn prefix_arg(p: &[usize]) -> String { p.iter().map(|c| c.to_string()).collect::<Vec<_>>().join(",") }

fn feature_of(events: &[String]) -> &'static str {
    // did the handler's store and swap fall between P's load (P2) and P's publish (P3) of one poll?
    let pos = |name: &str, from: usize| events.iter().skip(from).position(|e| e == name).map(|p| p + from);
    let mut from = 0;
    while let Some(p2) = pos("P@P2", from) {
        let p3 = pos("P@P3", p2).unwrap_or(events.len());
        let h1 = pos("H@H1", 0); let h2 = pos("H@H2", 0);
        if let (Some(h1), Some(h2)) = (h1, h2) { if h1 > p2 && h2 < p3 { return "signal-between-load-and-publish" } }
        from = p2 + 1;
    }
    "other"
}

struct Fine<'a> { ctx: &'a mut Ctx, max_conn: usize, bound: usize, top_level_sharded: bool }

impl<'a> Fine<'a> {
    fn judge(&mut self, prefix: &[usize], v: &Value) {
        let events: Vec<String> = v["events"].as_array().map(|a| a.iter().map(|e| e.as_str().unwrap_or("").to_string()).collect()).unwrap_or_default();
        let (sig, returned, quiescent) = (v["sig_raised"].as_bool().unwrap_or(false), v["returned"].as_bool().unwrap_or(false), v["quiescent"].as_bool().unwrap_or(false));
        self.ctx.states += 1;
        self.ctx.transitions += v["decisions"].as_u64().unwrap_or(0);
        self.ctx.traces_validated += 1;
        let conns = v["conns"].as_u64().unwrap_or(0);
        let preemptions = v["trace"].as_array().map(|t| t.iter().filter(|d| d["preemption"].as_bool() == Some(true)).count()).unwrap_or(0);
        let witness = || json!({"mode": "fine", "schedule": prefix, "max_conn": self.max_conn, "events": events, "sig_raised": sig, "returned": returned, "preemptions": preemptions});
        if !quiescent { self.ctx.machinery_error(format!("schedule {prefix:?} did not reach quiescence")); return }
        if sig && !returned {
            self.ctx.violation(&format!("C18/fine/{}/conns{}/never-returns", feature_of(&events), conns), true, witness);
        } else if !sig && returned {
            self.ctx.violation(&format!("C18/fine/conns{}/returned-without-signal", conns), true, witness);
        } else {
            // collision: the signal handler ran while a poll was in progress (between two P points)
            let overlapped = events.iter().enumerate().any(|(i, e)| e.starts_with("H@") && events[..i].iter().rev().find(|x| x.starts_with("P")).map(|x| x.starts_with("P@")).unwrap_or(false));
            self.ctx.pass(&format!("{}:{}:conns{}", if sig { "signalled" } else { "no-signal" }, if returned { "returned" } else { "serving" }, conns), sig, sig && overlapped);
        }
    }

    /// explore every schedule extending `prefix` whose number of preemptions stays within the bound
    fn explore(&mut self, prefix: Vec<usize>, depth: usize) {
        if self.ctx.out_of_time() { return }
        let v = match run_child(&["fine".into(), prefix_arg(&prefix), self.max_conn.to_string()]) { Ok(v) => v, Err(e) => { self.ctx.machinery_error(format!("schedule {prefix:?}: {e}")); return } };
        // the root schedule is executed by every worker (they share out its alternatives): only worker 0 counts it
        if !(depth == 0 && self.top_level_sharded && self.ctx.shard != 0) { self.judge(&prefix, &v); }
        let trace = v["trace"].as_array().cloned().unwrap_or_default();
        let chosen: Vec<usize> = trace.iter().map(|d| d["chosen"].as_u64().unwrap_or(0) as usize).collect();
        for i in prefix.len()..trace.len() {
            let n_enabled = trace[i]["enabled"].as_array().map(|a| a.len()).unwrap_or(1);
            let enabled0 = trace[i]["enabled"][0].as_str().unwrap_or("");
            // preemptions so far (decisions before i) + this alternative
            let before = trace[..i].iter().filter(|d| d["preemption"].as_bool() == Some(true)).count();
            for alt in 1..n_enabled {
                // does taking `alt` at decision i preempt a still-enabled running actor?  (the child's canonical order puts it first)
                let running_first = i > 0 && {
                    let prev_enabled = trace[i - 1]["enabled"].as_array().unwrap();
                    let prev_choice = trace[i - 1]["chosen"].as_u64().unwrap_or(0) as usize;
                    let prev_actor = prev_enabled[prev_choice].as_str().unwrap_or("");
                    let prev_actor = if prev_actor == "SIG" { "H" } else { prev_actor };
                    prev_actor == enabled0
                };
                let cost = before + if running_first { 1 } else { 0 };
                if cost > self.bound { continue }
                if depth == 0 && self.top_level_sharded && !self.ctx.mine() { continue }
                let mut next = chosen[..i].to_vec(); next.push(alt);
                self.explore(next, depth + 1);
            }
        }
    }
}

/* =====================================================================================================
   The protocol as a model (explicit-state), bound to the code by replaying EVERY maximal model path on the child.

   State: the two statics (CATCH, WAKER slot), P's and H's program counters, whether a wake is pending for P, whether a
   connection is waiting in the accept queue.  Transitions are exactly the atomic steps between the hook points.  The
   model mirrors the controller's enabledness rule and canonical choice order, so a model path *is* a child schedule;
   the child reports the enabled set at every decision, which must equal the model's (conformance), and the final
   outcome (returned or not) must be the model's.  The model is checked exhaustively for the invariant
   "terminal state  =>  (returned <=> signal raised)" - on the repaired code it holds in every terminal state.
   ===================================================================================================== */

#[derive(Clone, Debug, PartialEq, Eq, Hash)]
struct MState {
    catch: bool, waker: bool,
    /// P: 0 idle (between polls), 1 at P0, 2 at P2 (flag read as false), 3 at P3 (waker published), 4 at PX (flag observed), 9 returned
    p: u8,
    /// H: 0 not started, 1..=4 at H0..H3, 9 done;  took = the swap took a waker
    h: u8, took: bool,
    pwake: bool, p_first: bool, sig: bool,
    conn_pending: bool, conns: u8,
    last: u8, // 0 P, 1 H  (the actor that ran last; SIG counts as H, CONN keeps it)
}

impl MState {
    fn init() -> Self { MState { catch: false, waker: false, p: 0, h: 0, took: false, pwake: true, p_first: false, sig: false, conn_pending: false, conns: 0, last: 0 } }
    fn enabled(&self, max_conn: u8) -> Vec<&'static str> {
        let mut v = vec![];
        if self.p != 9 && (matches!(self.p, 1 | 2 | 3 | 4) || (self.p == 0 && self.pwake)) { v.push("P") }
        if matches!(self.h, 1..=4) { v.push("H") }
        if !self.sig && self.p_first { v.push("SIG") }
        if self.conns < max_conn && self.p_first && self.p != 9 { v.push("CONN") }   // (p == 4: the listener still exists until P is stepped past PX)
        let last = if self.last == 0 { "P" } else { "H" };
        if v.contains(&last) { v.retain(|a| *a != last); v.insert(0, last); }
        v
    }
    fn step(&self, actor: &str) -> MState {
        let mut n = self.clone();
        match actor {
            "P" => { n.last = 0; match self.p {
                0 => { n.pwake = false; n.p = 1; n.p_first = true }                                  // a poll starts and reaches P0
                1 => { if self.conn_pending { n.conn_pending = false; n.p = 1 }                          // accept is ready: session spawned, next until_interrupt poll -> P0 again
                       else if self.catch { n.p = 4 } else { n.p = 2 } }                                 // accept pending: read the flag
                2 => { n.waker = true; n.p = 3 }                                                          // publish the waker
                3 => { if self.catch { n.p = 4 } else { n.p = 0 } }                                      // the re-check after publishing (the fix), else Pending
                4 => { n.p = 9 }                                                                          // until_interrupt returns None: howl leaves the accept loop
                _ => unreachable!() } }
            "H" => { n.last = 1; match self.h {
                1 => { n.catch = true; n.h = 2 }                                                          // store
                2 => { n.took = self.waker; n.waker = false; n.h = 3 }                                    // swap
                3 => { if self.took { n.pwake = true } n.h = 4 }                                          // wake
                4 => { n.h = 9 }
                _ => unreachable!() } }
            "SIG" => { n.sig = true; n.h = 1; n.last = 1 }
            "CONN" => { n.conns += 1; n.conn_pending = true; n.pwake = true }
            _ => unreachable!(),
        }
        n
    }
}

/// every maximal path of the model as (choice indices, enabled sets per decision, terminal state)
fn model_paths(max_conn: u8) -> (Vec<(Vec<usize>, Vec<Vec<&'static str>>, MState)>, usize, usize) {
    let mut out = vec![];
    let mut states = std::collections::HashSet::new();
    let mut transitions = 0usize;
    fn rec(s: &MState, max_conn: u8, choices: &mut Vec<usize>, enabled_log: &mut Vec<Vec<&'static str>>, out: &mut Vec<(Vec<usize>, Vec<Vec<&'static str>>, MState)>, states: &mut std::collections::HashSet<MState>, transitions: &mut usize) {
        states.insert(s.clone());
        let en = s.enabled(max_conn);
        if en.is_empty() { out.push((choices.clone(), enabled_log.clone(), s.clone())); return }
        for (i, a) in en.iter().enumerate() {
            *transitions += 1;
            choices.push(i); enabled_log.push(en.clone());
            rec(&s.step(a), max_conn, choices, enabled_log, out, states, transitions);
            choices.pop(); enabled_log.pop();
        }
    }
    rec(&MState::init(), max_conn, &mut vec![], &mut vec![], &mut out, &mut states, &mut transitions);
    (out, states.len(), transitions)
}

fn model_conformance(ctx: &mut Ctx, max_conn: u8) {
    let (paths, nstates, ntrans) = model_paths(max_conn);
    ctx.extra.insert(format!("max_model_states_conn{max_conn}"), json!(nstates));
    ctx.extra.insert(format!("max_model_transitions_conn{max_conn}"), json!(ntrans));
    ctx.extra.insert(format!("max_model_paths_conn{max_conn}"), json!(paths.len()));
    // (1) the invariant on every terminal state of the model
    for (choices, _, t) in &paths {
        if (t.p == 9) != t.sig { ctx.machinery_error(format!("the protocol MODEL violates the invariant on path {choices:?}: terminal {t:?} - the model does not describe the repaired code")); return }
    }
    // (2) every model path replayed on the implementation
    for (choices, enabled_log, t) in &paths {
        if !ctx.mine() { continue }
        if ctx.out_of_time() { return }
        match run_child(&["fine".into(), prefix_arg(choices), max_conn.to_string()]) {
            Err(e) => ctx.machinery_error(format!("model path {choices:?}: {e}")),
            Ok(v) => {
                ctx.states += 1; ctx.transitions += choices.len() as u64;
                let trace = v["trace"].as_array().cloned().unwrap_or_default();
                let got_enabled: Vec<Vec<String>> = trace.iter().map(|d| d["enabled"].as_array().map(|a| a.iter().map(|x| x.as_str().unwrap_or("").to_string()).collect()).unwrap_or_default()).collect();
                let want_enabled: Vec<Vec<String>> = enabled_log.iter().map(|e| e.iter().map(|x| x.to_string()).collect()).collect();
                let returned = v["returned"].as_bool().unwrap_or(false);
                if got_enabled != want_enabled || v["decisions"].as_u64() != Some(choices.len() as u64) {
                    // the implementation offers other choices than the model along this path: either the code does not follow
                    // the protocol the model describes (a property-relevant change) or the model is wrong
                    let k = (0..got_enabled.len().max(want_enabled.len())).find(|&k| got_enabled.get(k) != want_enabled.get(k)).unwrap_or(0);
                    ctx.violation(&format!("C18/model-conformance/conns{max_conn}/enabled-sets-differ"), true, || json!({"mode": "model", "max_conn": max_conn, "schedule": choices,
                        "first_difference_at_decision": k, "model_enabled": want_enabled.get(k), "implementation_enabled": got_enabled.get(k), "events": v["events"]}));
                } else if returned != (t.p == 9) {
                    ctx.violation(&format!("C18/model-conformance/conns{max_conn}/{}", if returned { "returned-but-model-does-not" } else { "never-returns-but-model-does" }), true,
                        || json!({"mode": "model", "max_conn": max_conn, "schedule": choices, "events": v["events"], "model_terminal": format!("{t:?}")}));
                } else {
                    ctx.traces_validated += 1;
                    ctx.pass(&format!("model-path:conns{max_conn}:{}", if returned { "returned" } else { "serving" }), t.sig, t.sig);
                }
            }
        }
    }
}

fn coarse_case(ctx: &mut Ctx, mix: &str, events: &[String]) {
    ctx.transitions += events.len() as u64;
    ctx.states += 1;
    match run_child(&["coarse".into(), mix.to_string(), events.join(",")]) {
        Err(e) => ctx.machinery_error(format!("coarse {mix} {events:?}: {e}")),
        Ok(v) => {
            ctx.traces_validated += 1;
            match v["violation"].as_str() {
                Some(viol) => {
                    let kind = if viol.starts_with("returned-early") { "returned-early" } else if viol.starts_with("never-returns") { "never-returns" } else if viol.starts_with("accepts-after-interrupt") { "accepts-after-interrupt" } else { "session-lost-response" };
                    let sig_first = events.first().map(|e| e == "S").unwrap_or(false);
                    ctx.violation(&format!("C18/coarse/{}/{}/{kind}", if mix.is_empty() { "none" } else { mix }, if sig_first { "signal-first" } else { "signal-later" }), true,
                        || json!({"mode": "coarse", "mix": mix, "events": events, "log": v["log"], "violation": viol}));
                }
                None => ctx.pass(&format!("coarse:{}sessions:{}", mix.len(), if events.first().map(|e| e == "S").unwrap_or(false) { "signal-first" } else { "signal-later" }), !mix.is_empty(), !mix.is_empty() && events.first().map(|e| e == "S").unwrap_or(false)),
            }
        }
    }
}

/// (b') a session accepted by the very poll that sees the interrupt (one fixed schedule per session kind, see shutdown_child `late`)
fn late_case(ctx: &mut Ctx, kind: &str) {
    ctx.transitions += 4;
    ctx.states += 1;
    match run_child(&["late".into(), kind.to_string()]) {
        Err(e) => ctx.machinery_error(format!("late {kind}: {e}")),
        Ok(v) => {
            ctx.traces_validated += 1;
            match v["violation"].as_str() {
                Some(viol) => {
                    let k = if viol.starts_with("returned-early") { "returned-early" } else if viol.starts_with("never-returns") { "never-returns" } else { "session-lost-response" };
                    ctx.violation(&format!("C18/late-session/{kind}/{k}"), true, || json!({"mode": "late", "kind": kind, "log": v["log"], "violation": viol}));
                }
                None => ctx.pass(&format!("late-session:{kind}"), true, true),
            }
        }
    }
}

pub fn run(ctx: &mut Ctx) {
    let quick = ctx.quick();
    // (a) fine-grained.  quick: no CONN with preemption bound 4, one CONN with bound 2.  thorough: bounds 8 / 4 / 3 for 0 / 1 / 2 CONN.
    let plans: Vec<(usize, usize)> = if quick { vec![(0, 4), (1, 2)] } else { vec![(0, 8), (1, 5), (2, 4)] };
    for (max_conn, bound) in &plans {
        let mut f = Fine { ctx, max_conn: *max_conn, bound: *bound, top_level_sharded: true };
        // every worker runs the root schedule (cheap) and shares out the first-level alternatives
        f.explore(vec![], 0);
    }
    // (a') the protocol model, all of its maximal paths replayed on the child (quick: no connection; thorough: also one connection)
    model_conformance(ctx, 0);
    if !quick { model_conformance(ctx, 1); }
    // (b') a connection that waits in the accept queue while the interrupt is handled
    for kind in ["g", "i"] { if ctx.mine() { late_case(ctx, kind) } }
    // (b) coarse-grained
    let mixes: Vec<&str> = if quick { vec!["", "g", "i", "gg", "gi"] } else { vec!["", "g", "i", "gg", "gi", "ii", "ggg", "ggi", "gii", "iii"] };
    for mix in mixes {
        let n = mix.len();
        let mut tokens: Vec<String> = vec!["S".into()]; for k in 0..n { tokens.push(k.to_string()) }
        for perm in permutations(tokens.len()) {
            if !ctx.mine() { continue }
            if ctx.out_of_time() { break }
            let events: Vec<String> = perm.iter().map(|&i| tokens[i].clone()).collect();
            coarse_case(ctx, mix, &events);
        }
    }
    // the root schedules were run by every worker: count them once (worker 0)
    ctx.extra.insert("rule".into(), json!("case = one schedule, executed in a fresh child process with a real SIGINT: (a) an interleaving of P (poll of howl at hook points P0/P2/P3), H (signal handler at H0..H3), SIG and CONN, explored depth-first with a preemption bound; (b) a mix of in-flight sessions and an order of {SIGINT, session k finishes}; non-trivial = the signal is part of the schedule (a) / at least one session (b); collision = the handler ran while a poll was between two of its points (a) / the signal came before the sessions finished (b)"));
    ctx.extra.insert("bounds".into(), json!({"fine (max_conn, preemption bound)": plans, "coarse session mixes": if quick { "0..2 sessions over {gate-blocked handler, idle keep-alive}" } else { "0..3 sessions" }, "coarse orders": "all permutations of {SIGINT, done_1..done_n}"}));
    ctx.sample(|| json!({"mode": "fine", "schedule": [0, 0, 1], "max_conn": 0}));
    ctx.sample(|| json!({"mode": "coarse", "mix": "gi", "events": ["0", "S", "1"]}));
}

pub fn replay(ctx: &mut Ctx, case: &Value) {
    match case["mode"].as_str() {
        Some("late") => late_case(ctx, case["kind"].as_str().unwrap_or("g")),
        Some("coarse") => {
            let events: Vec<String> = case["events"].as_array().map(|a| a.iter().map(|e| e.as_str().unwrap_or("").to_string()).collect()).unwrap_or_default();
            coarse_case(ctx, case["mix"].as_str().unwrap_or(""), &events);
        }
        Some("model") => {
            // replay of a model path: run the conformance comparison for exactly that path
            let want: Vec<usize> = case["schedule"].as_array().map(|a| a.iter().map(|c| c.as_u64().unwrap_or(0) as usize).collect()).unwrap_or_default();
            let max_conn = case["max_conn"].as_u64().unwrap_or(0) as u8;
            let (paths, _, _) = model_paths(max_conn);
            let Some((choices, enabled_log, t)) = paths.into_iter().find(|(c, _, _)| *c == want) else { ctx.machinery_error("not a model path".into()); return };
            match run_child(&["fine".into(), prefix_arg(&choices), max_conn.to_string()]) {
                Err(e) => ctx.machinery_error(e),
                Ok(v) => {
                    let got: Vec<Vec<String>> = v["trace"].as_array().cloned().unwrap_or_default().iter().map(|d| d["enabled"].as_array().map(|a| a.iter().map(|x| x.as_str().unwrap_or("").to_string()).collect()).unwrap_or_default()).collect();
                    let wantl: Vec<Vec<String>> = enabled_log.iter().map(|e| e.iter().map(|x| x.to_string()).collect()).collect();
                    let returned = v["returned"].as_bool().unwrap_or(false);
                    if got != wantl { ctx.violation(&format!("C18/model-conformance/conns{max_conn}/enabled-sets-differ"), true, || json!({"mode": "model", "schedule": choices})) }
                    else if returned != (t.p == 9) { ctx.violation(&format!("C18/model-conformance/conns{max_conn}/{}", if returned { "returned-but-model-does-not" } else { "never-returns-but-model-does" }), true, || json!({"mode": "model", "schedule": choices})) }
                    else { ctx.pass("model-path-replay-ok", true, true) }
                }
            }
        }
        _ => {
            let prefix: Vec<usize> = case["schedule"].as_array().map(|a| a.iter().map(|c| c.as_u64().unwrap_or(0) as usize).collect()).unwrap_or_default();
            let max_conn = case["max_conn"].as_u64().unwrap_or(0) as usize;
            match run_child(&["fine".into(), prefix_arg(&prefix), max_conn.to_string()]) {
                Ok(v) => { let mut f = Fine { ctx, max_conn, bound: 0, top_level_sharded: false }; f.judge(&prefix, &v) }
                Err(e) => ctx.machinery_error(e),
            }
        }
    }
}
