//! C18 — graceful shutdown waits for in-flight sessions and never loses the interrupt (DESIGN §5 C18).
//!
//! (a) fine-grained: stateless depth-first exploration, preemption-bounded, of all interleavings of the poll of
//!     `howl` (P; points P0 before polling accept, P2 after reading the flag as false, P3 after publishing the waker)
//!     with the signal handler (H; points H0..H3 around store / swap / wake), the signal (SIG, a real SIGINT) and
//!     client connections (CONN).  One fresh child process per schedule (process-global statics).  A schedule is a
//!     list of choice indices; the child replays the prefix and takes choice 0 afterwards; any divergence is exit 2.
//! (b) coarse-grained: 0..3 in-flight sessions (handler blocked on a gate / idle keep-alive connection), every
//!     permutation of {SIGINT, session k finishes}; after each event: returned == (signal seen && all finished).

use crate::core::{permutations, Ctx};
use serde_json::{json, Value};
use std::process::Command;

fn child_path() -> std::path::PathBuf { std::env::current_exe().unwrap().parent().unwrap().join("shutdown_child") }

fn run_child(args: &[String]) -> Result<Value, String> {
    let out = Command::new(child_path()).args(args).output().map_err(|e| format!("cannot run shutdown_child: {e}"))?;
    let text = String::from_utf8_lossy(&out.stdout);
    let v: Value = serde_json::from_str(text.trim()).map_err(|_| format!("child printed no JSON (status {:?}): {}", out.status, &text[..text.len().min(200)]))?;
    if let Some(m) = v.get("machinery_error") { return Err(format!("child: {m}")) }
    if !out.status.success() { return Err(format!("child exit status {:?}", out.status)) }
    Ok(v)
}

fn prefix_arg(p: &[usize]) -> String { p.iter().map(|c| c.to_string()).collect::<Vec<_>>().join(",") }

fn feature_of(events: &[String]) -> &'static str {
    // did the handler's store and swap fall between P's load (P2) and P's publish (P3) of one poll?
    let pos = |name: &str, from: usize| events.iter().skip(from).position(|e| e == name).map(|p| p + from);
    let mut from = 0;
    while let Some(p2) = pos("P@P2", from) {
        let p3 = pos("P@P3", p2).unwrap_or(events.len());
        let h1 = pos("H@H1", 0); let h2 = pos("H@H2", 0);
        if let (Some(h1), Some(h2)) = (h1, h2) { if h1 > p2 && h2 < p3 { return "signal-between-load-and-publish" } }
        from = p2 + 1;
    }
    "other"
}

struct Fine<'a> { ctx: &'a mut Ctx, max_conn: usize, bound: usize, top_level_sharded: bool }

impl<'a> Fine<'a> {
    fn judge(&mut self, prefix: &[usize], v: &Value) {
        let events: Vec<String> = v["events"].as_array().map(|a| a.iter().map(|e| e.as_str().unwrap_or("").to_string()).collect()).unwrap_or_default();
        let (sig, returned, quiescent) = (v["sig_raised"].as_bool().unwrap_or(false), v["returned"].as_bool().unwrap_or(false), v["quiescent"].as_bool().unwrap_or(false));
        self.ctx.states += 1;
        self.ctx.transitions += v["decisions"].as_u64().unwrap_or(0);
        self.ctx.traces_validated += 1;
        let conns = v["conns"].as_u64().unwrap_or(0);
        let preemptions = v["trace"].as_array().map(|t| t.iter().filter(|d| d["preemption"].as_bool() == Some(true)).count()).unwrap_or(0);
        let witness = || json!({"mode": "fine", "schedule": prefix, "max_conn": self.max_conn, "events": events, "sig_raised": sig, "returned": returned, "preemptions": preemptions});
        if !quiescent { self.ctx.machinery_error(format!("schedule {prefix:?} did not reach quiescence")); return }
        if sig && !returned {
            self.ctx.violation(&format!("C18/fine/{}/conns{}/never-returns", feature_of(&events), conns), true, witness);
        } else if !sig && returned {
            self.ctx.violation(&format!("C18/fine/conns{}/returned-without-signal", conns), true, witness);
        } else {
            // collision: the signal handler ran while a poll was in progress (between two P points)
            let overlapped = events.iter().enumerate().any(|(i, e)| e.starts_with("H@") && events[..i].iter().rev().find(|x| x.starts_with("P")).map(|x| x.starts_with("P@")).unwrap_or(false));
            self.ctx.pass(&format!("{}:{}:conns{}", if sig { "signalled" } else { "no-signal" }, if returned { "returned" } else { "serving" }, conns), sig, sig && overlapped);
        }
    }

    /// explore every schedule extending `prefix` whose number of preemptions stays within the bound
    fn explore(&mut self, prefix: Vec<usize>, depth: usize) {
        if self.ctx.out_of_time() { return }
        let v = match run_child(&["fine".into(), prefix_arg(&prefix), self.max_conn.to_string()]) { Ok(v) => v, Err(e) => { self.ctx.machinery_error(format!("schedule {prefix:?}: {e}")); return } };
        // the root schedule is executed by every worker (they share out its alternatives): only worker 0 counts it
        if !(depth == 0 && self.top_level_sharded && self.ctx.shard != 0) { self.judge(&prefix, &v); }
        let trace = v["trace"].as_array().cloned().unwrap_or_default();
        let chosen: Vec<usize> = trace.iter().map(|d| d["chosen"].as_u64().unwrap_or(0) as usize).collect();
        for i in prefix.len()..trace.len() {
            let n_enabled = trace[i]["enabled"].as_array().map(|a| a.len()).unwrap_or(1);
            let enabled0 = trace[i]["enabled"][0].as_str().unwrap_or("");
            // preemptions so far (decisions before i) + this alternative
            let before = trace[..i].iter().filter(|d| d["preemption"].as_bool() == Some(true)).count();
            for alt in 1..n_enabled {
                // does taking `alt` at decision i preempt a still-enabled running actor?  (the child's canonical order puts it first)
                let running_first = i > 0 && {
                    let prev_enabled = trace[i - 1]["enabled"].as_array().unwrap();
                    let prev_choice = trace[i - 1]["chosen"].as_u64().unwrap_or(0) as usize;
                    let prev_actor = prev_enabled[prev_choice].as_str().unwrap_or("");
                    let prev_actor = if prev_actor == "SIG" { "H" } else { prev_actor };
                    prev_actor == enabled0
                };
                let cost = before + if running_first { 1 } else { 0 };
                if cost > self.bound { continue }
                if depth == 0 && self.top_level_sharded && !self.ctx.mine() { continue }
                let mut next = chosen[..i].to_vec(); next.push(alt);
                self.explore(next, depth + 1);
            }
        }
    }
}

fn coarse_case(ctx: &mut Ctx, mix: &str, events: &[String]) {
    ctx.transitions += events.len() as u64;
    ctx.states += 1;
    match run_child(&["coarse".into(), mix.to_string(), events.join(",")]) {
        Err(e) => ctx.machinery_error(format!("coarse {mix} {events:?}: {e}")),
        Ok(v) => {
            ctx.traces_validated += 1;
            match v["violation"].as_str() {
                Some(viol) => {
                    let kind = if viol.starts_with("returned-early") { "returned-early" } else if viol.starts_with("never-returns") { "never-returns" } else { "session-lost-response" };
                    let sig_first = events.first().map(|e| e == "S").unwrap_or(false);
                    ctx.violation(&format!("C18/coarse/{}/{}/{kind}", if mix.is_empty() { "none" } else { mix }, if sig_first { "signal-first" } else { "signal-later" }), true,
                        || json!({"mode": "coarse", "mix": mix, "events": events, "log": v["log"], "violation": viol}));
                }
                None => ctx.pass(&format!("coarse:{}sessions:{}", mix.len(), if events.first().map(|e| e == "S").unwrap_or(false) { "signal-first" } else { "signal-later" }), !mix.is_empty(), !mix.is_empty() && events.first().map(|e| e == "S").unwrap_or(false)),
            }
        }
    }
}

pub fn run(ctx: &mut Ctx) {
    let quick = ctx.quick();
    // (a) fine-grained.  quick: no CONN with preemption bound 4, one CONN with bound 2.  thorough: bounds 8 / 4 / 3 for 0 / 1 / 2 CONN.
    let plans: Vec<(usize, usize)> = if quick { vec![(0, 4), (1, 2)] } else { vec![(0, 8), (1, 4), (2, 3)] };
    for (max_conn, bound) in &plans {
        let mut f = Fine { ctx, max_conn: *max_conn, bound: *bound, top_level_sharded: true };
        // every worker runs the root schedule (cheap) and shares out the first-level alternatives
        f.explore(vec![], 0);
    }
    // (b) coarse-grained
    let mixes: Vec<&str> = if quick { vec!["", "g", "i", "gg", "gi"] } else { vec!["", "g", "i", "gg", "gi", "ii", "ggg", "ggi", "gii", "iii"] };
    for mix in mixes {
        let n = mix.len();
        let mut tokens: Vec<String> = vec!["S".into()]; for k in 0..n { tokens.push(k.to_string()) }
        for perm in permutations(tokens.len()) {
            if !ctx.mine() { continue }
            if ctx.out_of_time() { break }
            let events: Vec<String> = perm.iter().map(|&i| tokens[i].clone()).collect();
            coarse_case(ctx, mix, &events);
        }
    }
    // the root schedules were run by every worker: count them once (worker 0)
    ctx.extra.insert("rule".into(), json!("case = one schedule, executed in a fresh child process with a real SIGINT: (a) an interleaving of P (poll of howl at hook points P0/P2/P3), H (signal handler at H0..H3), SIG and CONN, explored depth-first with a preemption bound; (b) a mix of in-flight sessions and an order of {SIGINT, session k finishes}; non-trivial = the signal is part of the schedule (a) / at least one session (b); collision = the handler ran while a poll was between two of its points (a) / the signal came before the sessions finished (b)"));
    ctx.extra.insert("bounds".into(), json!({"fine (max_conn, preemption bound)": plans, "coarse session mixes": if quick { "0..2 sessions over {gate-blocked handler, idle keep-alive}" } else { "0..3 sessions" }, "coarse orders": "all permutations of {SIGINT, done_1..done_n}"}));
    ctx.sample(|| json!({"mode": "fine", "schedule": [0, 0, 1], "max_conn": 0}));
    ctx.sample(|| json!({"mode": "coarse", "mix": "gi", "events": ["0", "S", "1"]}));
}

pub fn replay(ctx: &mut Ctx, case: &Value) {
    match case["mode"].as_str() {
        Some("coarse") => {
            let events: Vec<String> = case["events"].as_array().map(|a| a.iter().map(|e| e.as_str().unwrap_or("").to_string()).collect()).unwrap_or_default();
            coarse_case(ctx, case["mix"].as_str().unwrap_or(""), &events);
        }
        _ => {
            let prefix: Vec<usize> = case["schedule"].as_array().map(|a| a.iter().map(|c| c.as_u64().unwrap_or(0) as usize).collect()).unwrap_or_default();
            let max_conn = case["max_conn"].as_u64().unwrap_or(0) as usize;
            match run_child(&["fine".into(), prefix_arg(&prefix), max_conn.to_string()]) {
                Ok(v) => { let mut f = Fine { ctx, max_conn, bound: 0, top_level_sharded: false }; f.judge(&prefix, &v) }
                Err(e) => ctx.machinery_error(e),
            }
        }
    }
}
