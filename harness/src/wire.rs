//! One connection, many requests: the harness copy of the session loop (a *model* of
//! `ohkami/src/session/mod.rs:46-68`) over a scripted in-memory connection, and the binding of that model to
//! the code: the same segment schedule replayed against the real `Session::manage` over loopback TCP in
//! lock-step.  Shared by C05 and C06.

use crate::core::guarded;
use crate::exec::{Driver, RunResult};
use crate::refmodel::http::parse_response;
use crate::sio::{ScriptedReader, ScriptedWriter, WriterMode};
use ohkami::__verif__::{send, RawConn, VerifRouter};
use ohkami::fang::FangAction;
use ohkami::{Ohkami, Request, Response, Route};
use std::cell::RefCell;
use std::io;
use std::pin::Pin;
use std::rc::Rc;
use std::task::{Context, Poll};
use tokio::io::{AsyncRead, AsyncWrite, ReadBuf};

/* ---------------- the application: echoes everything observable ---------------- */

pub struct Marker(pub String);

#[derive(Clone)]
pub struct CtxFang;
impl FangAction for CtxFang {
    async fn fore<'a>(&'a self, req: &'a mut Request) -> Result<(), Response> {
        if let Some(v) = req.headers.get("X-Set-Ctx") { let v = v.to_string(); req.context.set(Marker(v)); }
        // proxy-style: on demand, remove the hop-by-hop header from the request before the handler sees it
        if req.headers.get("X-Strip-Hop-By-Hop").is_some() { req.headers.set().Connection(None); }
        Ok(())
    }
}

pub fn dump(req: &Request) -> String {
    format!("{} {} q={:?} h={:?} payload={:?} ctx={:?}", req.method, req.path.str(), req.query, req.headers,
        req.payload().map(|p| p.escape_ascii().to_string()), req.context.get::<Marker>().map(|m| m.0.as_str()))
}

pub fn echo_router() -> VerifRouter {
    VerifRouter::from(Ohkami::new((CtxFang,
        "/e".GET(|req: &Request| { let s = dump(req); async move { s } })
            .POST(|req: &Request| { let s = dump(req); async move { s } })
            .PUT(|req: &Request| { let s = dump(req); async move { s } }),
        "/p/:a/:b".GET(|(a, b): (String, String), req: &Request| { let s = format!("a={a} b={b} {}", dump(req)); async move { s } }),
    )))
}

/* ---------------- shared scripted endpoints ---------------- */

#[derive(Clone)]
pub struct SharedReader(pub Rc<RefCell<ScriptedReader>>);
impl AsyncRead for SharedReader {
    fn poll_read(self: Pin<&mut Self>, cx: &mut Context<'_>, buf: &mut ReadBuf<'_>) -> Poll<io::Result<()>> {
        let mut r = self.0.borrow_mut();
        Pin::new(&mut *r).poll_read(cx, buf)
    }
}
#[derive(Clone)]
pub struct SharedWriter(pub Rc<RefCell<ScriptedWriter>>);
impl AsyncWrite for SharedWriter {
    fn poll_write(self: Pin<&mut Self>, cx: &mut Context<'_>, buf: &[u8]) -> Poll<io::Result<usize>> { let mut w = self.0.borrow_mut(); Pin::new(&mut *w).poll_write(cx, buf) }
    fn poll_flush(self: Pin<&mut Self>, cx: &mut Context<'_>) -> Poll<io::Result<()>> { let mut w = self.0.borrow_mut(); Pin::new(&mut *w).poll_flush(cx) }
    fn poll_shutdown(self: Pin<&mut Self>, cx: &mut Context<'_>) -> Poll<io::Result<()>> { let mut w = self.0.borrow_mut(); Pin::new(&mut *w).poll_shutdown(cx) }
}

/* ---------------- the model of the session loop ---------------- */

/// Harness copy of `Session::manage`'s loop (without the keep-alive timer): clear → read → handle → send → close?
pub async fn session_loop(router: &VerifRouter, reader: &mut SharedReader, writer: &mut SharedWriter) {
    let mut c = RawConn::init();
    loop {
        c.clear();
        match c.read(reader).await {
            Ok(Some(())) => {
                let close = matches!(c.request().headers.Connection(), Some("close" | "Close"));
                let res = router.handle(c.request_mut()).await;
                if send(res, writer).await { break }
                if close { break }
            }
            Ok(None) => break,
            Err(res) => { send(res, writer).await; break }
        }
    }
}

#[derive(Clone, Debug, PartialEq, Eq)]
pub enum End {
    /// the session ended by itself while segments were still undelivered or before the client closed
    ServerClosed { undelivered_segments: usize },
    /// every segment was delivered, the session waited; it ended cleanly when the client closed
    EndedOnClientClose,
    /// every segment was delivered, the session waited; on client close it blew up (it was in the middle of a request)
    WaitingMidRequest(String),
    Panic(String),
    Livelock,
}

#[derive(Clone, Debug, PartialEq, Eq)]
pub struct SessionObs {
    pub written: Vec<u8>,
    pub end: End,
    /// bytes written before each segment delivery (lock-step observation points)
    pub written_at_delivery: Vec<usize>,
    pub polls: u64,
}

/// Run the model loop over a segment schedule.  Segment i+1 is delivered only when the loop is Pending inside a
/// read with nothing available (the natural lock-step of a real socket).
pub fn run_mem(router: &VerifRouter, segments: &[Vec<u8>]) -> SessionObs {
    let reader = Rc::new(RefCell::new(ScriptedReader::new(segments.to_vec(), false)));
    let writer = Rc::new(RefCell::new(ScriptedWriter::new(WriterMode::All)));
    let mut d = Driver::new();
    let mut written_at_delivery = vec![];
    let result = guarded(|| {
        let mut sr = SharedReader(reader.clone());
        let mut sw = SharedWriter(writer.clone());
        let fut = session_loop(router, &mut sr, &mut sw);
        let mut fut = std::pin::pin!(fut);
        let mut client_closed = false;
        loop {
            match d.run(fut.as_mut(), 100_000) {
                RunResult::Ready(()) => {
                    let left = reader.borrow().pending_segments.len();
                    return if client_closed { End::EndedOnClientClose } else { End::ServerClosed { undelivered_segments: left } }
                }
                RunResult::Livelock => return End::Livelock,
                RunResult::Stalled => {
                    written_at_delivery.push(writer.borrow().written.len());
                    let delivered = reader.borrow_mut().deliver_next();
                    if !delivered {
                        if client_closed { return End::Livelock }
                        reader.borrow_mut().eof_at_end = true; // the client closes its side
                        client_closed = true;
                    }
                }
            }
        }
    });
    let end = match result {
        Ok(e) => e,
        Err(p) => if reader.borrow().eof_at_end && reader.borrow().exhausted() { End::WaitingMidRequest(crate::core::panic_kind(&p)) } else { End::Panic(crate::core::panic_kind(&p)) },
    };
    let written = writer.borrow().written.clone();
    SessionObs { written, end, written_at_delivery, polls: d.polls }
}

/// Split a byte stream into responses with the independent parser; `heads[i]`: request i was HEAD.
/// Returns (responses as raw byte strings, leftover that does not parse).
pub fn split_responses(mut raw: &[u8], heads: &[bool]) -> (Vec<Vec<u8>>, Vec<u8>) {
    let mut out = vec![];
    let mut i = 0;
    while !raw.is_empty() {
        let head = heads.get(i).copied().unwrap_or(false);
        match parse_response(raw, head) {
            Ok(p) if p.consumed > 0 && p.framing != crate::refmodel::http::Framing::UntilClose => { out.push(raw[..p.consumed].to_vec()); raw = &raw[p.consumed..]; i += 1 }
            _ => return (out, raw.to_vec()),
        }
    }
    (out, vec![])
}

pub fn status_of(resp: &[u8]) -> u16 {
    std::str::from_utf8(resp.get(9..12).unwrap_or(b"000")).ok().and_then(|s| s.parse().ok()).unwrap_or(0)
}

/* ---------------- binding the model to the code: the same schedule over real TCP ---------------- */

#[derive(Clone, Debug, PartialEq, Eq)]
pub struct TcpObs { pub written: Vec<u8>, pub server_closed_first: bool, pub written_at_delivery: Vec<usize> }

fn fionread(fd: i32) -> i32 {
    let mut n: libc::c_int = 0;
    unsafe { libc::ioctl(fd, libc::FIONREAD, &mut n) };
    n
}

pub struct TcpBinding { rt: tokio::runtime::Runtime }
impl TcpBinding {
    pub fn new() -> Self {
        TcpBinding { rt: tokio::runtime::Builder::new_current_thread().enable_all().build().expect("tokio runtime") }
    }

    /// Replay a segment schedule against the real `Session::manage` in lock-step: the next segment is written only when
    /// the server's receive queue is empty and the (single-threaded) runtime has run the session task to quiescence.
    pub fn run(&self, router: &VerifRouter, segments: &[Vec<u8>]) -> Result<TcpObs, String> {
        use std::os::fd::AsRawFd;
        use tokio::io::{AsyncReadExt, AsyncWriteExt};
        let router = router.clone();
        let segments = segments.to_vec();
        self.rt.block_on(async move {
            let listener = tokio::net::TcpListener::bind("127.0.0.1:0").await.map_err(|e| e.to_string())?;
            let addr = listener.local_addr().map_err(|e| e.to_string())?;
            let mut client = tokio::net::TcpStream::connect(addr).await.map_err(|e| e.to_string())?;
            client.set_nodelay(true).ok();
            let (server_side, _) = listener.accept().await.map_err(|e| e.to_string())?;
            let server_fd = server_side.as_raw_fd();
            let done = std::sync::Arc::new(std::sync::atomic::AtomicBool::new(false));
            let done2 = done.clone();
            let task = tokio::task::spawn(async move { ohkami::__verif__::serve_connection(&router, server_side).await; done2.store(true, std::sync::atomic::Ordering::SeqCst); });
            let mut written = Vec::new();
            let mut written_at_delivery = vec![];
            let mut buf = [0u8; 8192];
            // drain whatever the server has written so far (non-blocking)
            macro_rules! drain { () => {{
                loop { match client.try_read(&mut buf) { Ok(0) => break true, Ok(n) => written.extend_from_slice(&buf[..n]), Err(e) if e.kind() == std::io::ErrorKind::WouldBlock => break false, Err(_) => break true } }
            }}; }
            // let the session task run until it is parked with an empty receive queue
            macro_rules! quiesce { () => {{
                let mut calm = 0;
                for _ in 0..4000 {
                    tokio::task::yield_now().await;
                    tokio::time::sleep(std::time::Duration::from_micros(200)).await;
                    let finished = done.load(std::sync::atomic::Ordering::SeqCst) || task.is_finished();
                    if finished || fionread(server_fd) == 0 { calm += 1 } else { calm = 0 }
                    if calm >= 3 { break }
                }
            }}; }
            let mut server_closed_first = false;
            for seg in &segments {
                quiesce!();
                let eof = drain!();
                written_at_delivery.push(written.len());
                if eof || task.is_finished() { server_closed_first = true; break }
                if client.write_all(seg).await.is_err() { server_closed_first = true; break }
                let _ = client.flush().await;
            }
            if !server_closed_first {
                quiesce!();
                let eof = drain!();
                written_at_delivery.push(written.len());
                if eof || task.is_finished() { server_closed_first = true }
            }
            // client closes its side; collect the rest until the server is gone
            let _ = client.shutdown().await;
            let mut rest = Vec::new();
            let _ = tokio::time::timeout(std::time::Duration::from_secs(5), client.read_to_end(&mut rest)).await;
            written.extend_from_slice(&rest);
            let _ = tokio::time::timeout(std::time::Duration::from_secs(5), task).await;
            Ok(TcpObs { written, server_closed_first, written_at_delivery })
        })
    }
}

/// Model vs implementation for one schedule: same bytes, same "who closed first".  Err = conformance mismatch (machinery).
pub fn conform(router: &VerifRouter, tcp: &TcpBinding, segments: &[Vec<u8>]) -> Result<(), String> {
    let mem = run_mem(router, segments);
    let real = tcp.run(router, segments)?;
    // the peer address is the only thing that differs between the two worlds, and the echo does not print it
    if mem.written != real.written {
        return Err(format!("model wrote {} bytes, implementation {} bytes: model `{}` vs real `{}` (segments {:?})", mem.written.len(), real.written.len(),
            crate::core::esc(&mem.written[..mem.written.len().min(200)]), crate::core::esc(&real.written[..real.written.len().min(200)]), segments.iter().map(|s| crate::core::esc(&s[..s.len().min(40)])).collect::<Vec<_>>()))
    }
    let mem_server_closed = matches!(mem.end, End::ServerClosed { .. });
    if mem_server_closed != real.server_closed_first {
        return Err(format!("model end {:?} vs implementation server_closed_first={} (segments {:?})", mem.end, real.server_closed_first, segments.iter().map(|s| crate::core::esc(&s[..s.len().min(40)])).collect::<Vec<_>>()))
    }
    Ok(())
}

/// Weaker binding for checks whose oracle is differential *within* one world (C06): the model and the real session must agree on
/// the shape of the session - number of responses, their statuses, who closed first - not on every byte (the real session may
/// add what the model cannot know, e.g. a `Connection` header).
pub fn conform_shape(router: &VerifRouter, tcp: &TcpBinding, segments: &[Vec<u8>], heads: &[bool]) -> Result<(), String> {
    let mem = run_mem(router, segments);
    let real = tcp.run(router, segments)?;
    let (m, ml) = split_responses(&mem.written, heads);
    let (r, rl) = split_responses(&real.written, heads);
    let (ms, rs): (Vec<u16>, Vec<u16>) = (m.iter().map(|x| status_of(x)).collect(), r.iter().map(|x| status_of(x)).collect());
    if ms != rs || ml.is_empty() != rl.is_empty() { return Err(format!("model answers {ms:?} (+{} stray bytes), implementation {rs:?} (+{} stray bytes)", ml.len(), rl.len())) }
    let mem_server_closed = matches!(mem.end, End::ServerClosed { .. });
    if mem_server_closed != real.server_closed_first { return Err(format!("model end {:?} vs implementation server_closed_first={}", mem.end, real.server_closed_first)) }
    Ok(())
}
