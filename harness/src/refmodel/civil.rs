//! Civil date from day number (Howard Hinnant's `civil_from_days`), independent of the subject's
//! chrono-derived table algorithm.

/// days since 1970-01-01 -> (year, month 1..=12, day 1..=31)
pub fn civil_from_days(z: i64) -> (i64, u32, u32) {
    let z = z + 719_468;
    let era = if z >= 0 { z } else { z - 146_096 } / 146_097;
    let doe = (z - era * 146_097) as u64;                                  // [0, 146096]
    let yoe = (doe - doe / 1460 + doe / 36_524 - doe / 146_096) / 365;      // [0, 399]
    let y = yoe as i64 + era * 400;
    let doy = doe - (365 * yoe + yoe / 4 - yoe / 100);                      // [0, 365]
    let mp = (5 * doy + 2) / 153;                                           // [0, 11]
    let d = (doy - (153 * mp + 2) / 5 + 1) as u32;                          // [1, 31]
    let m = if mp < 10 { mp + 3 } else { mp - 9 } as u32;                   // [1, 12]
    (if m <= 2 { y + 1 } else { y }, m, d)
}

/// 0 = Sunday
pub fn weekday_from_days(z: i64) -> u32 {
    ((z + 4).rem_euclid(7)) as u32
}

pub fn imf_fixdate(ts: u64) -> String {
    const WD: [&str; 7] = ["Sun", "Mon", "Tue", "Wed", "Thu", "Fri", "Sat"];
    const MO: [&str; 12] = ["Jan", "Feb", "Mar", "Apr", "May", "Jun", "Jul", "Aug", "Sep", "Oct", "Nov", "Dec"];
    let days = (ts / 86_400) as i64;
    let secs = ts % 86_400;
    let (y, m, d) = civil_from_days(days);
    format!("{}, {:02} {} {:04} {:02}:{:02}:{:02} GMT",
        WD[weekday_from_days(days) as usize], d, MO[(m - 1) as usize], y,
        secs / 3600, (secs / 60) % 60, secs % 60)
}

#[cfg(test)]
mod t {
    use super::*;
    #[test] fn rfc_example() {
        // Sun, 06 Nov 1994 08:49:37 GMT  = 784111777
        assert_eq!(imf_fixdate(784_111_777), "Sun, 06 Nov 1994 08:49:37 GMT");
        assert_eq!(imf_fixdate(0), "Thu, 01 Jan 1970 00:00:00 GMT");
        assert_eq!(imf_fixdate(253_402_300_799), "Fri, 31 Dec 9999 23:59:59 GMT");
        assert_eq!(imf_fixdate(951_782_400), "Tue, 29 Feb 2000 00:00:00 GMT");
    }
}
