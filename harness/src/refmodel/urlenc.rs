//! C09: split-on-&/= + RFC 3986 percent-decoding (reference model; to be written)
