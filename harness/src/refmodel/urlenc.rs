//! C09 (and the input classifiers of C08): boring reference for `key=value&...` texts.
//!
//! * `split_pairs`   – split on `&`, then on the first `=` (nothing else is special)
//! * `pct_decode`    – RFC 3986 section 2.1 percent-decoding, strict: a `%` that is not followed by two
//!                     hex digits is *malformed* (the RFC does not define a decoding for it)
//! * `pct_encode`    – encoder that escapes everything outside RFC 3986 `unreserved`
//! * `decode_pairs`  – the two together, yielding strings (or the reason why there is no defined result)
//!
//! `+` is an ordinary character (RFC 3986; the property statement names RFC 3986, not the HTML form rules).

#[derive(Debug, Clone, PartialEq, Eq)]
pub enum Undefined {
    /// `%` not followed by two hex digits
    MalformedEscape,
    /// the decoded bytes are not UTF-8 (no string value exists)
    NotUtf8,
    /// a part without `=`
    NoEquals,
}

pub fn is_hex(b: u8) -> bool { b.is_ascii_hexdigit() }

fn hex_val(b: u8) -> u8 {
    match b { b'0'..=b'9' => b - b'0', b'a'..=b'f' => b - b'a' + 10, _ => b - b'A' + 10 }
}

/// true iff every `%` is followed by two hex digits
pub fn escapes_well_formed(s: &[u8]) -> bool {
    let mut i = 0;
    while i < s.len() {
        if s[i] == b'%' {
            if i + 2 >= s.len() { return false } // fewer than two bytes follow
            if !(is_hex(s[i + 1]) && is_hex(s[i + 2])) { return false }
            i += 3;
        } else { i += 1 }
    }
    true
}

/// strict RFC 3986 percent-decoding
pub fn pct_decode(s: &[u8]) -> Result<Vec<u8>, Undefined> {
    let mut out = Vec::with_capacity(s.len());
    let mut i = 0;
    while i < s.len() {
        if s[i] == b'%' {
            if i + 2 >= s.len() { return Err(Undefined::MalformedEscape) } // fewer than two bytes follow
            if !(is_hex(s[i + 1]) && is_hex(s[i + 2])) { return Err(Undefined::MalformedEscape) }
            out.push(hex_val(s[i + 1]) * 16 + hex_val(s[i + 2]));
            i += 3;
        } else { out.push(s[i]); i += 1 }
    }
    Ok(out)
}

pub fn pct_decode_str(s: &[u8]) -> Result<String, Undefined> {
    String::from_utf8(pct_decode(s)?).map_err(|_| Undefined::NotUtf8)
}

/// escape everything outside ALPHA / DIGIT / "-" / "." / "_" / "~"
pub fn pct_encode(s: &[u8]) -> String {
    let mut out = String::with_capacity(s.len());
    for &b in s {
        if b.is_ascii_alphanumeric() || matches!(b, b'-' | b'.' | b'_' | b'~') { out.push(b as char) }
        else { out.push_str(&format!("%{:02X}", b)) }
    }
    out
}

/// split on `&`, then each part on its first `=`; `None` value = the part has no `=`
pub fn split_pairs(text: &[u8]) -> Vec<(&[u8], Option<&[u8]>)> {
    if text.is_empty() { return Vec::new() }
    text.split(|b| *b == b'&').map(|part| match part.iter().position(|b| *b == b'=') {
        Some(n) => (&part[..n], Some(&part[n + 1..])),
        None => (part, None),
    }).collect()
}

/// the key/value pairs a well-formed text stands for
pub fn decode_pairs(text: &[u8]) -> Result<Vec<(String, String)>, Undefined> {
    let mut out = Vec::new();
    for (k, v) in split_pairs(text) {
        let v = v.ok_or(Undefined::NoEquals)?;
        out.push((pct_decode_str(k)?, pct_decode_str(v)?));
    }
    Ok(out)
}

/// reference encoder for a list of pairs
pub fn encode_pairs(pairs: &[(String, String)]) -> String {
    pairs.iter().map(|(k, v)| format!("{}={}", pct_encode(k.as_bytes()), pct_encode(v.as_bytes()))).collect::<Vec<_>>().join("&")
}

/// self-test on hand-written examples (run by the engines before anything else; a failure is a machinery error)
pub fn selftest() -> Result<(), String> {
    let ck = |c: bool, m: &str| if c { Ok(()) } else { Err(format!("urlenc selftest: {m}")) };
    ck(pct_decode(b"a%20b").unwrap() == b"a b", "a%20b")?;
    ck(pct_decode(b"%41%4a%4A").unwrap() == b"AJJ", "hex case")?;
    ck(pct_decode(b"+").unwrap() == b"+", "plus is literal")?;
    ck(pct_decode(b"%4") == Err(Undefined::MalformedEscape), "%4")?;
    ck(pct_decode(b"%") == Err(Undefined::MalformedEscape), "%")?;
    ck(pct_decode(b"%zz") == Err(Undefined::MalformedEscape), "%zz")?;
    ck(pct_decode(b"a%4") == Err(Undefined::MalformedEscape), "a%4")?;
    ck(pct_decode(b"%41").unwrap() == b"A", "%41")?;
    ck(pct_decode_str(b"%E3%81%82").unwrap() == "\u{3042}", "hiragana a")?;
    ck(pct_decode_str(b"%FF") == Err(Undefined::NotUtf8), "%FF")?;
    ck(escapes_well_formed(b"a%41b") && !escapes_well_formed(b"%4") && !escapes_well_formed(b"%4g") && escapes_well_formed(b"") && !escapes_well_formed(b"ab%"), "escapes_well_formed")?;
    ck(pct_encode("a b&=%+,/\u{e9}~".as_bytes()) == "a%20b%26%3D%25%2B%2C%2F%C3%A9~", "encode")?;
    ck(decode_pairs(b"a=1&b=%26&c=").unwrap() == vec![("a".into(), "1".into()), ("b".into(), "&".into()), ("c".into(), "".into())], "pairs")?;
    ck(decode_pairs(b"").unwrap().is_empty(), "empty")?;
    ck(decode_pairs(b"a") == Err(Undefined::NoEquals), "no equals")?;
    ck(decode_pairs(b"a=b=c").unwrap() == vec![("a".into(), "b=c".into())], "first = splits")?;
    ck(split_pairs(b"a=1&&b").len() == 3, "empty part kept")?;
    for s in ["", "a", "a b", "&=%+", "\u{1F600}", "~-._"] {
        ck(pct_decode_str(pct_encode(s.as_bytes()).as_bytes()).unwrap() == s, "encode/decode")?;
    }
    Ok(())
}
